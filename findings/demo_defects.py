"""Demonstrations of the defects D1..D11 of the pinned tree (5c6fa44).
Run:  /venv/bin/python demo_defects.py [Dk ...]   (PYTHONPATH=/repo or installed repo)
Each demo prints OK/FAIL; exit 1 if any FAIL.  Used to triage fix: commits."""
import sys, os, datetime, subprocess, math
sys.path.insert(0, os.environ.get("LABELLA_REPO", "/repo"))

def D1():
    from labella import vpsc
    # chain with several tiny violations: one merge per satisfy(), solve() stops on cost stationarity
    vs, cs = [], []
    for k, viol in enumerate((0.010, 0.009, 0.008, 0.007)):
        a, b = vpsc.Variable(10.0 * k), vpsc.Variable(10.0 * k + 1.0 - viol)
        vs += [a, b]; cs.append(vpsc.Constraint(a, b, 1.0))
    vpsc.Solver(vs, cs).solve()
    worst = min(c.slack() for c in cs)
    return worst >= -1e-9, "min slack %.6g" % worst

def D2():
    from labella.force import Force
    from labella.node import Node
    f = Force({"maxPos": 100}); f.nodes([Node(1, 50), Node(2, 50), Node(3, 50)]); f.compute()
    L = f.getLayers()
    return L is not None and sum(len(l) for l in L) >= 3, repr(L)[:80]

def D3():
    from labella.timeline import TimelineSVG
    try:
        TimelineSVG([{"time": datetime.date(2020, 1, 1), "width": 10}, {"time": datetime.date(2020, 3, 1), "width": 10}]).export()
        return True, "ok"
    except Exception as e:
        return False, repr(e)

def D4():
    from labella.timeline import TimelineSVG
    try:
        out = TimelineSVG([{"time": datetime.datetime(2020, 1, 1), "width": 10}], options={}).export()
        return b'cy="0' in out or b'cx="0' in out, out[-200:].decode()
    except Exception as e:
        return False, repr(e)

def D5():
    from labella.d3_time import d3_time
    try:
        r = d3_time["day"].offset(datetime.datetime(2021, 3, 31), 1)
        r2 = d3_time["day"].offset(datetime.datetime(2021, 1, 30), 35)
        return r == datetime.datetime(2021, 4, 1) and r2 == datetime.datetime(2021, 3, 6), "%s %s" % (r, r2)
    except Exception as e:
        return False, repr(e)

def D6():
    from labella.scale import TimeScale
    s = TimeScale().domain([datetime.datetime(2020, 1, 1, 0, 0, 0), datetime.datetime(2020, 1, 1, 0, 0, 0, 8000)])
    try:
        t = s.ticks()
        return len(t) >= 2, str(len(t))
    except Exception as e:
        return False, repr(e)

def D7():
    from labella.scale import LinearScale
    s = LinearScale().domain([0.13, 0.87]).range([0, 10])
    c = s.copy(); s.nice()
    return c.domain() == [0.13, 0.87] and abs(c(0.13)) < 1e-12, "%r %r" % (c.domain(), c(0.13))

def D8():
    from labella.timeline import TimelineSVG
    A = [{"time": datetime.date(2020, 1, 1), "width": 10}, {"time": datetime.date(2020, 3, 1), "width": 10}]
    B = [{"time": datetime.date(1990, 1, 1), "width": 10}, {"time": datetime.date(1999, 3, 1), "width": 10}]
    a = TimelineSVG([dict(x) for x in A], options={}); alone = a.export()
    a2 = TimelineSVG([dict(x) for x in A], options={}); TimelineSVG([dict(x) for x in B], options={"direction": "up"}); after = a2.export()
    return alone == after, "differs" if alone != after else "same"

def D9():
    from labella.timeline import TimelineSVG
    t = TimelineSVG([{"time": datetime.datetime(2020, 1, 1, 12, 0), "width": 10}, {"time": datetime.datetime(2020, 1, 2, 18), "width": 10}], options={})
    return t.items[0].time == datetime.datetime(2020, 1, 1, 12, 0), str(t.items[0].time)

def D10():
    code = ("import datetime,sys; sys.path.insert(0,%r); from labella.d3_time import d3_time; from labella.scale import TimeScale;"
            "print(d3_time['hour'].floor(datetime.datetime(2020,1,1,5,45)), TimeScale().domain([datetime.datetime(2020,3,8,0),datetime.datetime(2020,3,8,12)]).ticks()[:4])" % sys.path[0])
    outs = set()
    for tz in ("UTC", "Asia/Kolkata", "Pacific/Chatham", "America/New_York"):
        r = subprocess.run([sys.executable, "-c", code], env=dict(os.environ, TZ=tz), capture_output=True, text=True)
        outs.add(r.stdout + r.stderr[-200:])
    return len(outs) == 1, "%d distinct outputs" % len(outs)

def D11():
    from labella.tex import uni2tex
    bad = []
    for s, want in (("é", "\\'{e}"), ("éx", "\\'{e}x"), ("…", "…"), ("a b", "a b"), ("é", "\\'{e}"), ("abc{}\\", "abc{}\\"), ("½", "½"), ("́", "́")):
        try:
            got = uni2tex(s)
            if got != want: bad.append((s, got))
        except Exception as e:
            bad.append((s, repr(e)))
    return not bad, repr(bad)[:200]

def D17():
    """known finding (not repaired): nice(1) of [0.59096, 0.591] ends on 0.59105 = an odd multiple of the ORIGINAL step 5e-5,
    while the widened domain's own step is 2e-4 -> not a multiple of a tenth of it"""
    from labella.scale import LinearScale, d3_scale_linearTickRange
    d = LinearScale().domain([0.5909599999999999, 0.591]).nice(1).domain()
    step = d3_scale_linearTickRange(list(d), 1)[2]
    q = d[1] / (step / 10)
    return abs(q - round(q)) < 1e-6, "nice -> %r, step of that domain %r, upper end / (step/10) = %r" % (d, step, q)

if __name__ == "__main__":
    names = sys.argv[1:] or ["D%d" % i for i in range(1, 12)]
    rc = 0
    for n in names:
        ok, msg = globals()[n]()
        print(n, "OK" if ok else "FAIL", msg)
        rc |= (not ok)
    sys.exit(rc)
