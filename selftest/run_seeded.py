#!/usr/bin/env python3
"""Run the registered quick checks against every kept seeded change (seeded/<id>/patch.diff).

For each change: scratch git worktree of /repo HEAD under /tmp (removed afterwards), `git apply` the patch, run
`./check <property> --tier quick` with LABELLA_REPO pointing at the scratch tree (the checks rebuild everything from
$LABELLA_REPO; this is the same as applying the patch to /repo and undoing it, without touching /repo), and record the
exit code and the VIOLATION lines.  Writes selftest/seeded_results.json.

usage: run_seeded.py [id ...]       (default: all of seeded/*)
"""
import json
import os
import shutil
import subprocess
import sys
import tempfile
import time
from concurrent.futures import ThreadPoolExecutor

ROOT = os.path.dirname(os.path.dirname(os.path.abspath(__file__)))


def sh(cmd, **kw):
    return subprocess.run(cmd, shell=True, capture_output=True, text=True, **kw)


def run_one(sid):
    d = os.path.join(ROOT, "seeded", sid)
    meta = json.load(open(os.path.join(d, "meta.json")))
    prop = meta["property"]
    wt = tempfile.mkdtemp(prefix="seedrun-", dir="/tmp")
    os.rmdir(wt)
    r = sh("git -C /repo worktree add -q --detach %s HEAD" % wt)
    if r.returncode:
        return dict(id=sid, property=prop, error=r.stderr)
    out = dict(id=sid, property=prop, summary=meta.get("summary"))
    try:
        a = sh("git -C %s apply %s/patch.diff" % (wt, d))
        out["applies"] = a.returncode == 0
        if not out["applies"]:
            out["error"] = a.stderr[-300:]
            return out
        t0 = time.time()
        # evidence of a run against a scratch tree must not replace the committed evidence (which describes /repo)
        c = sh("./check %s --tier quick" % prop, cwd=ROOT,
               env=dict(os.environ, LABELLA_REPO=wt, VERIF_SEED="0", PYVC_EVIDENCE_DIR=os.path.join(wt, "_evidence")))
        out["rc"] = c.returncode
        out["wall_s"] = round(time.time() - t0, 1)
        lines = c.stdout.splitlines()
        out["violations"] = [l for l in lines if l.startswith("VIOLATION")][:8]
        out["left_subset"] = [l.strip() for l in lines if "LEFT-SUBSET" in l][:6]
        out["undecided"] = [l.strip() for l in lines if "UNDECIDED" in l][:6]
        out["summary_line"] = next((l for l in lines if l.startswith(prop + " tier=")), "")
        out["caught"] = c.returncode == 1 and bool(out["violations"])
        out["caught_by_t1"] = any("bounded:" not in v for v in out["violations"])
        out["caught_by_t2"] = any("bounded:" in v for v in out["violations"])
    finally:
        sh("git -C /repo worktree remove --force %s" % wt)
        shutil.rmtree(wt, ignore_errors=True)
    return out


def main():
    ids = sys.argv[1:] or sorted(os.listdir(os.path.join(ROOT, "seeded")))
    with ThreadPoolExecutor(max_workers=3) as tp:
        res = list(tp.map(run_one, ids))
    path = os.path.join(ROOT, "selftest", "seeded_results.json")
    old = {}
    if os.path.exists(path):
        old = {r["id"]: r for r in json.load(open(path))}
    for r in res:
        old[r["id"]] = r
    json.dump([old[k] for k in sorted(old)], open(path, "w"), indent=1)
    for r in res:
        print("%-14s %s rc=%s %s%s %s" % (r["id"], r["property"], r.get("rc"), "CAUGHT" if r.get("caught") else "MISSED",
                                          (" [T1]" if r.get("caught_by_t1") else "") + (" [T2]" if r.get("caught_by_t2") else ""),
                                          (r.get("error") or "")[:120]))
        for v in r.get("violations", [])[:3]:
            print("      " + v[:200])
    # the replays written by these runs belong to scratch trees: clean them
    return 0


if __name__ == "__main__":
    sys.exit(main())
