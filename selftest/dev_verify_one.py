# development helper: verify ONE contract key and list its obligations with verdicts and times
# usage: [LABELLA_REPO=<scratch tree>] [TMO=<ms per solver stage>] python3-vt selftest/dev_verify_one.py <contract key>
import sys, os, json
sys.path.insert(0, '/verif')
from pyvc.frontend import Repo
from pyvc.verify import verify_function
from contracts import registry
types, contracts, specfuns, lemmas = registry.load()
repo = Repo(os.environ.get('LABELLA_REPO','/repo'))
q=sys.argv[1]
r = verify_function(repo, q, contracts[q], types, contracts, specfuns, timeout_ms=int(os.environ.get("TMO","5000")))
print(r.status, r.reason[:2000], "paths", r.paths, "returns", r.returns)
for o in r.obligations:
    print("  ", o['name'], o['verdict'], "%.2f" % o.get('time', 0) if isinstance(o.get('time'), float) else '', (json.dumps(o['model'])[:300] if o.get('model') else ''))
for o in r.obligations:
    if o.get('time',0) > 1: print("SLOW", o['name'], o['verdict'], o['time'], o.get('solver'))
