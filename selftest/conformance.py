#!/usr/bin/env python3
"""Conformance of the model assumptions A-DT / A-ROUND / A-LIB with the running CPython.

The datetime theory of pyvc (pyvc/models_dt.py, contracts/d3time.py) AXIOMATISES the civil calendar instead of computing
it.  Every axiom schema is checked here against `datetime` itself, over the whole range 0001-01-01 .. 9999-12-31
(quick: every month of that range and every day of 1890..2210; full: every day).  The same for the few other library
facts the encoding relies on.  Exit 0 = all facts hold; exit 1 prints the first counterexamples.

usage: conformance.py [--full]
"""
import datetime as D
import math
import random
import sys

EPOCH = D.date(1970, 1, 1).toordinal()
DAY_US = 86400 * 10 ** 6
bad = []


def fail(what, *a):
    if len(bad) < 20:
        bad.append("%s %r" % (what, a))


def leap(y):                       # the rule written in models_dt.leap
    return y % 4 == 0 and (y % 100 != 0 or y % 400 == 0)


def dim(y, m):                     # the table written in models_dt.dim
    if m in (1, 3, 5, 7, 8, 10, 12):
        return 31
    if m == 2:
        return 29 if leap(y) else 28
    return 30


def DAYS(y, m, d):
    return D.date(y, m, d).toordinal() - EPOCH


def check_calendar(full):
    n_month = n_day = 0
    assert DAYS(1970, 1, 1) == 0
    for y in range(1, 10000):
        jan1 = DAYS(y, 1, 1)
        acc = 0
        for m in range(1, 13):
            first = DAYS(y, m, 1)
            n_month += 1
            if first != jan1 + acc:
                fail("month start = 1 January + earlier months", y, m)
            # validity: 1 <= d <= DIM(y, m) are exactly the valid days
            try:
                D.date(y, m, dim(y, m))
            except ValueError:
                fail("DIM too large", y, m)
            try:
                D.date(y, m, dim(y, m) + 1)
                fail("DIM too small", y, m)
            except ValueError:
                pass
            if m < 12 and DAYS(y, m + 1, 1) != first + dim(y, m):
                fail("month successor", y, m)
            if m == 12 and y < 9999 and DAYS(y + 1, 1, 1) != first + 31:
                fail("year successor", y)
            acc += dim(y, m)
            if full or 1890 <= y <= 2210:
                for d in range(1, dim(y, m) + 1):
                    n = DAYS(y, m, d)
                    n_day += 1
                    if n != first + d - 1:
                        fail("DAYS(y,m,d) = DAYS(y,m,1) + d - 1", y, m, d)
                    back = D.date.fromordinal(n + EPOCH)
                    if (back.year, back.month, back.day) != (y, m, d):
                        fail("civil(DAYS(y,m,d)) = (y,m,d)", y, m, d)
                    # isoweekday: (n + 3) % 7 + 1 (1970-01-01 was a Thursday)
                    if back.isoweekday() != (n + 3) % 7 + 1:
                        fail("isoweekday", y, m, d)
        if y < 9999 and DAYS(y + 1, 1, 1) != jan1 + (366 if leap(y) else 365):
            fail("year length", y)
    # the civil year is monotone in the day number (lemma_year_monotone): consecutive days never go back a year
    lo, hi = D.date(1, 1, 1).toordinal(), D.date(9999, 12, 31).toordinal()
    prev = 1
    step = 1 if full else 1
    for o in range(lo, hi + 1, step):
        y = D.date.fromordinal(o).year
        if y < prev:
            fail("year monotone", o)
        prev = y
    # the two day numbers that in_range_years / in_range_us use
    if DAYS(1900, 1, 1) != -25567 or DAYS(2201, 1, 1) != 84371:
        fail("LO/HI day numbers")
    return n_month, n_day


def check_instants():
    """a datetime is DAYS*86400e6 + time of day in microseconds; arithmetic with timedelta is integer addition"""
    rng = random.Random(7)
    e = D.datetime(1970, 1, 1)
    for _ in range(200000):
        y = rng.randint(1, 9999)
        m = rng.randint(1, 12)
        d = rng.randint(1, dim(y, m))
        hh, mi, ss, us = rng.randint(0, 23), rng.randint(0, 59), rng.randint(0, 59), rng.randint(0, 999999)
        t = D.datetime(y, m, d, hh, mi, ss, us)
        delta = t - e
        u = (delta.days * 86400 + delta.seconds) * 10 ** 6 + delta.microseconds
        if u != DAYS(y, m, d) * DAY_US + hh * 3600 * 10 ** 6 + mi * 60 * 10 ** 6 + ss * 10 ** 6 + us:
            fail("instant encoding", t)
        tod = u % DAY_US
        if (tod // (3600 * 10 ** 6), (tod // (60 * 10 ** 6)) % 60, (tod // 10 ** 6) % 60, tod % 10 ** 6) != (hh, mi, ss, us):
            fail("time-of-day fields", t)
        if u // DAY_US != DAYS(y, m, d):
            fail("day number = floor(us / day)", t)
        k = rng.randint(-10 ** 13, 10 ** 13)
        try:
            t2 = t + D.timedelta(microseconds=k)
        except OverflowError:
            continue
        d2 = t2 - e
        if (d2.days * 86400 + d2.seconds) * 10 ** 6 + d2.microseconds != u + k:
            fail("datetime + timedelta is integer addition", t, k)
        if (t2 < t) != (u + k < u) or (t2 == t) != (k == 0):
            fail("comparison is integer comparison", t, k)
        # timedelta / timedelta(milliseconds=1) is the real quotient
        if abs((t - e) / D.timedelta(milliseconds=1) - u / 1000.0) > abs(u) * 1e-15 + 1e-9:
            fail("timedelta quotient", t)
    # timedelta(milliseconds=float): nearest microsecond, ties to even
    for x in [0.0005, 0.0015, 0.0025, -0.0005, -0.0015, 1.0004999, 123456.7895, 2.5e-4, 7.5e-4] + [rng.uniform(-1e9, 1e9) for _ in range(20000)]:
        got = D.timedelta(milliseconds=x)
        gu = (got.days * 86400 + got.seconds) * 10 ** 6 + got.microseconds
        exact = x * 1000.0          # float product, as CPython computes it
        want = round(exact)         # round-half-even on the float
        if gu != want and abs(gu - exact) > 0.5 + 1e-6:
            fail("timedelta(milliseconds=float) rounds to the nearest microsecond", x, gu, want)


def check_numbers():
    rng = random.Random(11)
    xs = [0.5, 1.5, 2.5, -0.5, -1.5, -2.5, 0.49999999999999994, 1e15 + 0.5] + [rng.uniform(-1e6, 1e6) for _ in range(100000)]
    prev = None
    for x in sorted(xs):
        r = round(x)
        if not isinstance(r, int) or abs(r - x) > 0.5:
            fail("round(x) within 1/2 of x", x)
        if prev is not None and r < prev:
            fail("round monotone", x)
        prev = r
        if int("%i" % x) != math.trunc(x):
            fail("'%i' truncates toward zero", x)
        if math.floor(x) > x or math.floor(x) + 1 <= x or math.ceil(x) < x or math.ceil(x) - 1 >= x:
            fail("floor/ceil", x)
    for a in range(-50, 51):
        for b in list(range(-7, 0)) + list(range(1, 8)):
            q, r = a // b, a % b
            if a != q * b + r or not (0 <= r < b if b > 0 else b < r <= 0):
                fail("python floor division / modulo", a, b)


def check_unicode():
    """A-UNI (pyvc/models_uni.py): the SHAPE of unicodedata.decomposition / category that the abstraction assumes"""
    import unicodedata
    n = 0
    for c in range(0x110000):
        ch = chr(c)
        dec = unicodedata.decomposition(ch)
        fields = dec.split()
        cat = unicodedata.category(ch)
        n += 1
        if bool(dec) != (len(fields) > 0):
            fail("decomposition truthiness = has fields", c)
        for k, f in enumerate(fields):
            tag = f.startswith("<")
            if tag and k != 0:
                fail("only the first field can be a tag", c)
            if not tag:
                try:
                    v = int(f, 16)
                    chr(v)
                except ValueError:
                    fail("a field that is not a tag is a code point in hex", c, f)
        if not cat:
            fail("category is never empty", c)
        if c < 128 and (fields or cat.startswith("M")):
            fail("ASCII has no decomposition and is not a mark", c)
    return n


def main():
    full = "--full" in sys.argv
    nm, nd = check_calendar(full)
    check_instants()
    check_numbers()
    ncp = check_unicode()
    if bad:
        print("CONFORMANCE FAILED")
        for b in bad:
            print("  ", b)
        return 1
    print("conformance ok: %d months, %d days (calendar axioms, year monotone, weekday, instant encoding, timedelta rounding, "
          "round/%%i/floor/ceil, floor division), %d code points (shape of unicodedata) against CPython %s"
          % (nm, nd, ncp, sys.version.split()[0]))
    return 0


if __name__ == "__main__":
    sys.exit(main())
