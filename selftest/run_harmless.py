#!/usr/bin/env python3
"""False-alarm guard: property-preserving edits (selftest/harmless/*/patch.diff) must not make a check report a violation.
usage: run_harmless.py        (scratch worktrees under /tmp, removed afterwards; evidence of these runs goes to the scratch tree)"""
import json, os, shutil, subprocess, sys, tempfile

ROOT = os.path.dirname(os.path.dirname(os.path.abspath(__file__)))
CASES = {"H1": "C01", "H2": "C04", "H3": "C04", "H4": "C17", "H5": "C20",
         "H6": "C05", "H7": "C12", "H8": "C17", "H9": "C19", "H10": "C10",
         "H11": "C05", "H12": "C15", "H13": "C08", "H14": "C09", "H15": "C17"}


def sh(cmd, **kw):
    return subprocess.run(cmd, shell=True, capture_output=True, text=True, **kw)


def main():
    bad = 0
    only = set(sys.argv[1:])
    for h, prop in sorted(CASES.items(), key=lambda kv: int(kv[0][1:])):
        if only and h not in only:
            continue
        wt = tempfile.mkdtemp(prefix="harm-", dir="/tmp")
        os.rmdir(wt)
        assert sh("git -C /repo worktree add -q --detach %s HEAD" % wt).returncode == 0
        try:
            a = sh("git -C %s apply %s/selftest/harmless/%s/patch.diff" % (wt, ROOT, h))
            t = sh("/venv/bin/python -m pytest -q -p no:cacheprovider tests 2>&1 | tail -1", cwd=wt, env=dict(os.environ, PYTHONPATH=wt))
            c = sh("./check %s --tier quick" % prop, cwd=ROOT,
                   env=dict(os.environ, LABELLA_REPO=wt, PYVC_EVIDENCE_DIR=os.path.join(wt, "_evidence")))
            viol = [l for l in c.stdout.splitlines() if l.startswith("VIOLATION")]
            ok = a.returncode == 0 and "109 passed" in t.stdout and c.returncode in (0, 2) and not viol
            notes = [l.strip() for l in c.stdout.splitlines() if "LEFT-SUBSET" in l or "UNDECIDED" in l][:3]
            print("%s %s applies=%s tests=%s rc=%d %s %s" % (h, prop, a.returncode == 0, t.stdout.strip(), c.returncode,
                                                          "OK (no alarm)" if ok else "FALSE ALARM", notes))
            bad += (not ok)
        finally:
            sh("git -C /repo worktree remove --force %s" % wt)
            shutil.rmtree(wt, ignore_errors=True)
    return 1 if bad else 0


if __name__ == "__main__":
    sys.exit(main())
