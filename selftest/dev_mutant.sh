#!/bin/bash
# usage: mut.sh <sed-expr> <file> <contract key>...
cd /tmp/scr; rm -rf labella; cp -r /repo/labella .
sed -i "$1" labella/$2
diff <(cat /repo/labella/$2) labella/$2 | head -5
shift; shift
cd /verif
for k in "$@"; do LABELLA_REPO=/tmp/scr TMO=5000 python3-vt /verif/selftest/dev_verify_one.py $k 2>&1 | grep -v "WARNING\|discharged" | head -8; done
