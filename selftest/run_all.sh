#!/bin/bash
# run every registered quick (or $1) check against /repo, 4 at a time; one line per property.  $2 = extra flag (--update-expected)
cd "$(dirname "$0")/.."
tier=${1:-quick}
seq -w 1 20 | xargs -P 4 -I{} bash -c 's=$(date +%s); ./check C{} --tier '"$tier"' '"$2"' > /tmp/check_C{}.log 2>&1; rc=$?; echo "C{} rc=$rc $(( $(date +%s) - s ))s $(grep -c "^VIOLATION" /tmp/check_C{}.log) violation line(s)"'
