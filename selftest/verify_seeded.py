#!/usr/bin/env python3
"""Confirm a seeded change independently: on a scratch worktree of /repo HEAD (outside /repo and /verif)
 (1) the demo passes on the clean tree, (2) the patch applies, (3) the 109 tests pass with it, (4) the demo fails with it.
usage: verify_seeded.py <dir with patch.diff demo.py meta.json> [...]      (removes the scratch worktree afterwards)"""
import json, os, subprocess, sys, tempfile, shutil

def sh(cmd, **kw):
    return subprocess.run(cmd, shell=True, capture_output=True, text=True, **kw)

def verify(d):
    wt = tempfile.mkdtemp(prefix="seedchk-", dir="/tmp")
    os.rmdir(wt)
    r = sh("git -C /repo worktree add -q --detach %s HEAD" % wt)
    assert r.returncode == 0, r.stderr
    res = {}
    try:
        env = dict(os.environ, LABELLA_REPO=wt, PYTHONPATH=wt)
        res["demo_clean_rc"] = sh("/venv/bin/python %s/demo.py" % d, env=env, cwd=wt).returncode
        a = sh("git -C %s apply %s/patch.diff" % (wt, d))
        res["applies"] = a.returncode == 0
        t = sh("/venv/bin/python -m pytest -q -p no:cacheprovider tests 2>&1 | tail -1", env=env, cwd=wt)
        res["tests"] = t.stdout.strip()
        dm = sh("/venv/bin/python %s/demo.py" % d, env=env, cwd=wt)
        res["demo_patched_rc"] = dm.returncode
        res["demo_patched_tail"] = (dm.stdout + dm.stderr)[-300:]
        res["ok"] = res["demo_clean_rc"] == 0 and res["applies"] and "109 passed" in res["tests"] and res["demo_patched_rc"] != 0
    finally:
        sh("git -C /repo worktree remove --force %s" % wt)
        shutil.rmtree(wt, ignore_errors=True)
    return res

if __name__ == "__main__":
    for d in sys.argv[1:]:
        r = verify(os.path.abspath(d))
        print(d, json.dumps(r))
