"""Bounded stand-in for the layout engine: scopes S-CHAIN (C01, C02, C03), layering (C04), histories (C06).

Oracles are written from the property statements, not from the code:
  C01  order + separation of any two items sharing a layer (1 unit of rounding slack)
  C02  |position - x*| <= 0.5 with x* the least-squares optimum (exact PAV in rationals)
  C03  inside the bounds (0.5 slack) when the layer fits; otherwise C01 still holds
  C04  conservation, contiguous layers, complete stub chains, capacity, getLayers()
  C06  recompute / stale state / permutation / engine reuse give the same layout
"""
import itertools
from fractions import Fraction as Fr

from . import common  # noqa: F401  (sets sys.path)
from labella.force import Force
from labella.node import Node
from labella import distributor as dist_mod

LINE_SPACING = 2
EPS = 1e-6


# ----------------------------------------------------------------------------
# instance description: plain JSON-able dicts, so that a violation replays
# ----------------------------------------------------------------------------
def make_nodes(labels):
    return [Node(p, w, data={"id": k}) for k, (p, w) in enumerate(labels)]


def run_force(labels, options, nodes=None):
    nodes = make_nodes(labels) if nodes is None else nodes
    f = Force(dict(options))
    f.nodes(nodes)
    f.compute()
    return f, nodes


def items_by_layer(nodes):
    """All items (labels + the stubs on their parent chains), grouped by layerIndex."""
    layers = {}
    seen = set()
    for n in nodes:
        cur = n
        while cur is not None and id(cur) not in seen:
            seen.add(id(cur))
            layers.setdefault(cur.layerIndex, []).append(cur)
            cur = cur.parent
    return layers


def target(n):
    return n.parent.currentPos if n.parent else n.idealPos


def is_stub(n):
    return n.child is not None


def eff_opts(options):
    o = {"nodeSpacing": 3, "minPos": 0, "maxPos": None, "algorithm": "overlap", "density": 0.85, "stubWidth": 1,
         "lineSpacing": LINE_SPACING}
    o.update(options or {})
    return o


def sorted_layer(items):
    # order used for adjacency: by target, ties by resulting position (either order is "the order of targets")
    return sorted(items, key=lambda n: (target(n), n.currentPos))


def required_gap(a, b, o):
    s = o["lineSpacing"] if (is_stub(a) and is_stub(b)) else o["nodeSpacing"]
    return (a.width + b.width) / 2.0 + s


# ----------------------------------------------------------------------------
# C01
# ----------------------------------------------------------------------------
def check_c01(run, labels, options, nodes, tag="C01", inp=None):
    o = eff_opts(options)
    inp = inp or {"labels": labels, "options": options}
    for L, items in items_by_layer(nodes).items():
        its = sorted_layer(items)
        for i in range(len(its)):
            for j in range(i + 1, len(its)):
                a, b = its[i], its[j]
                ta, tb = target(a), target(b)
                if ta > tb:
                    a, b = b, a
                if ta != tb and a.currentPos > b.currentPos:
                    run.violation(tag + ".order", inp, {"layer": L, "a": desc(a), "b": desc(b)})
                    continue
                need = required_gap(a, b, o) - 1.0
                have = abs(b.currentPos - a.currentPos) if ta == tb else b.currentPos - a.currentPos
                if have < need - EPS:
                    known = None
                    if is_stub(a) and is_stub(b) and o["nodeSpacing"] < o["lineSpacing"]:
                        # D12: two stubs that are NOT neighbours (some other item lies between them, in target order
                        # and in position) and nodeSpacing < lineSpacing: the chain of neighbour gaps only guarantees
                        # the label spacing between them.  Only this region is excused; neighbours never are.
                        lo_t, hi_t = min(ta, tb), max(ta, tb)
                        lo_p, hi_p = min(a.currentPos, b.currentPos), max(a.currentPos, b.currentPos)
                        between = [x for x in its if x is not a and x is not b
                                   and lo_t <= target(x) <= hi_t and lo_p <= x.currentPos <= hi_p]
                        weak = (a.width + b.width) / 2.0 + o["nodeSpacing"] - 1.0
                        if between and have >= weak - EPS:
                            known = "D12"
                    run.violation(tag + ".separation", inp,
                                  {"layer": L, "a": desc(a), "b": desc(b), "have": have, "need": need}, known=known)


def desc(n):
    return {"ideal": n.idealPos, "cur": n.currentPos, "w": n.width, "stub": is_stub(n), "layer": n.layerIndex,
            "target": target(n)}


# ----------------------------------------------------------------------------
# C02 / C03 : exact optimum by pool-adjacent-violators in rationals
# ----------------------------------------------------------------------------
def pav(y):
    """Isotonic (non-decreasing) least-squares fit of y, unit weights, exact."""
    blocks = []  # (sum, count)
    for v in y:
        blocks.append([v, 1])
        while len(blocks) > 1 and blocks[-2][0] * blocks[-1][1] > blocks[-1][0] * blocks[-2][1]:
            s, c = blocks.pop()
            blocks[-1][0] += s
            blocks[-1][1] += c
    out = []
    for s, c in blocks:
        out.extend([s / c] * c)
    return out


def layer_fit(its, o):
    if o["minPos"] is None or o["maxPos"] is None:
        return True
    ts = [target(n) for n in its]
    if len(set(ts)) < len(ts) and sum(1 for n in its if is_stub(n)) >= 2:
        # items tied on target may be chained in either order, which changes how many stub/stub neighbours (line
        # spacing) there are: "fits" is only asserted when it fits under every such order (upper bound)
        need = sum(Fr(n.width) for n in its) + (len(its) - 1) * Fr(max(o["lineSpacing"], o["nodeSpacing"]))
    else:
        need = sum(Fr(n.width) for n in its) + sum(
            Fr(o["lineSpacing"] if (is_stub(its[k]) and is_stub(its[k + 1])) else o["nodeSpacing"]) for k in range(len(its) - 1))
    return need <= Fr(o["maxPos"]) - Fr(o["minPos"])


def optimum(its, o):
    """x* for the layer (items in chain order); bounds are imposed only when they can be met."""
    t = [Fr(target(n)) for n in its]
    c = [Fr(0)]
    for k in range(1, len(its)):
        c.append(c[-1] + Fr(required_gap(its[k - 1], its[k], o)))
    z = pav([t[k] - c[k] for k in range(len(its))])
    lo = None if o["minPos"] is None else Fr(o["minPos"]) + Fr(its[0].width) / 2 - c[0]
    hi = None if o["maxPos"] is None else Fr(o["maxPos"]) - Fr(its[-1].width) / 2 - c[-1]
    if lo is not None:
        z = [max(v, lo) for v in z]
    if hi is not None:
        z = [min(v, hi) for v in z]
    return [z[k] + c[k] for k in range(len(its))]


def tie_orders(its, cap=720):
    """its is sorted by (target, position); yield it and the re-orderings inside groups equal on both keys."""
    groups = []
    for n in its:
        if groups and (target(groups[-1][0]), groups[-1][0].currentPos) == (target(n), n.currentPos):
            groups[-1].append(n)
        else:
            groups.append([n])
    total = 1
    for g in groups:
        for k in range(2, len(g) + 1):
            total *= k
    if total > cap:
        yield None  # too many tie orders: the oracle abstains on this layer
        return
    for combo in itertools.product(*[list(itertools.permutations(g)) for g in groups]):
        yield [n for g in combo for n in g]


def check_c02_c03(run, labels, options, nodes, want, inp=None):
    """want: set of {'C02','C03'}"""
    o = eff_opts(options)
    inp0 = inp
    inp = inp or {"labels": labels, "options": options}
    for L, items in sorted(items_by_layer(nodes).items()):
        its = sorted_layer(items)
        fits = layer_fit(its, o)
        if "C03" in want:
            if fits:
                for n in its:
                    if o["minPos"] is not None and n.currentPos - n.width / 2.0 < o["minPos"] - 0.5 - EPS:
                        run.violation("C03.inside.min", inp, {"layer": L, "item": desc(n), "minPos": o["minPos"]})
                    if o["maxPos"] is not None and n.currentPos + n.width / 2.0 > o["maxPos"] + 0.5 + EPS:
                        run.violation("C03.inside.max", inp, {"layer": L, "item": desc(n), "maxPos": o["maxPos"]})
        if "C02" in want and fits:
            # items tied on target AND on (rounded) position may have been chained in either order: the
            # statement fixes the order only by target, so the oracle accepts any order of such a group
            bad = None
            tried = 0
            for cand in tie_orders(its):
                if cand is None:
                    run.skipped_ties = getattr(run, "skipped_ties", 0) + 1
                    bad = None
                    break
                tried += 1
                xs = optimum(cand, o)
                worst = None
                for n, x in zip(cand, xs):
                    if abs(n.currentPos - float(x)) > 0.5 + 1e-4:
                        worst = {"layer": L, "item": desc(n), "optimum": float(x)}
                        break
                if worst is None:
                    bad = None
                    break
                bad = bad or worst
            if bad is not None:
                bad["tie_orders_tried"] = tried
                run.violation("C02.optimal", inp, bad)
    if "C03" in want:
        check_c01(run, labels, options, nodes, tag="C03.spill", inp=inp0)


# ----------------------------------------------------------------------------
# C04
# ----------------------------------------------------------------------------
def check_c04(run, labels, options, force, nodes, inp=None):
    o = eff_opts(options)
    inp = inp or {"labels": labels, "options": options}
    layers = force.getLayers()
    if layers is None:
        run.violation("C04.reported", inp, "getLayers() is None after compute()")
        return
    check_layering(run, inp, layers, nodes, o, reported=True)
    # the engine's layerIndex agrees with the reported layering
    for k, layer in enumerate(layers):
        for it in layer:
            if it.layerIndex != k:
                run.violation("C04.layerIndex", inp, {"layer": k, "item": desc(it)})


def check_layering(run, inp, layers, nodes, o, reported=False):
    ids = {id(n) for n in nodes}
    place = {}
    allitems = []
    for k, layer in enumerate(layers):
        if len(layer) == 0 and any(len(l) for l in layers[k + 1:]):
            # an empty layer *below* a used one breaks contiguity (trailing empty lists hold nothing: not items)
            run.violation("C04.contiguous", inp, {"empty_layer": k, "sizes": [len(l) for l in layers]})
        for it in layer:
            allitems.append((k, it))
            if id(it) in ids:
                if id(it) in place:
                    run.violation("C04.conservation", inp, {"label_twice": desc(it)})
                place[id(it)] = k
    for n in nodes:
        if id(n) not in place:
            run.violation("C04.conservation", inp, {"label_missing": desc(n)})
            return
    # stub chains
    expected_stubs = set()
    for n in nodes:
        k = place[id(n)]
        cur = n
        for j in range(k - 1, -1, -1):
            st = cur.parent
            if st is None:
                run.violation("C04.chain", inp, {"label": desc(n), "missing_stub_in_layer": j})
                break
            if st.child is not cur:
                run.violation("C04.chain", inp, {"label": desc(n), "bad_child_link_at_layer": j})
            if not any(x is st for x in layers[j]):
                run.violation("C04.chain", inp, {"label": desc(n), "stub_not_in_layer": j})
            if sum(1 for x in layers[j] if x is st) != 1:
                run.violation("C04.chain", inp, {"label": desc(n), "stub_multiplicity_layer": j})
            if st.idealPos != n.idealPos or st.data is not n.data or st.width != o["stubWidth"]:
                run.violation("C04.stub_payload", inp, {"label": desc(n), "stub": desc(st), "stubWidth": o["stubWidth"]})
            expected_stubs.add(id(st))
            cur = st
        else:
            if cur.parent is not None:
                run.violation("C04.chain", inp, {"label": desc(n), "extra_parent_beyond_layer0": True})
    for k, it in allitems:
        if id(it) not in ids and id(it) not in expected_stubs:
            run.violation("C04.no_other_items", inp, {"layer": k, "item": desc(it)})
    # single layer rules / capacity
    lw = None if (o["minPos"] is None or o["maxPos"] is None) else o["maxPos"] - o["minPos"]
    if "layerWidth" in o:
        lw = o["layerWidth"]
    nlab = len(nodes)
    req = sum(n.width for n in nodes) + (nlab - 1) * o["nodeSpacing"]
    if not lw:
        if len(layers) != 1:
            run.violation("C04.single_layer_unbounded", inp, {"layers": len(layers)})
        return
    budget = o["density"] * lw
    # "labels that fit the density budget stay in a single layer": fit = required <= budget.  The boundary case required ==
    # budget is asserted when the float arithmetic of both sides is EXACT (checked in rationals); otherwise a relative 1e-9
    # band around equality is left undecided (A-REAL).
    req_q = sum(Fr(n.width) for n in nodes) + (nlab - 1) * Fr(o["nodeSpacing"])
    bud_q = Fr(o["density"]) * Fr(lw)
    exact = Fr(req) == req_q and Fr(budget) == bud_q
    fits = (req_q <= bud_q) if exact else (req <= budget * (1 - 1e-9))
    if o["algorithm"] != "none" and fits and len(layers) != 1:
        run.violation("C04.single_layer_fits", inp, {"layers": len(layers), "required": req, "budget": budget, "exact_arithmetic": exact})
    if o["algorithm"] == "none" and len(layers) != 1:
        run.violation("C04.single_layer_none", inp, {"layers": len(layers)})
    if o["algorithm"] == "overlap" and nlab >= 3 and req > budget * (1 + 1e-9):
        for k, layer in enumerate(layers):
            labs = [it for it in layer if id(it) in ids]
            width = sum(it.width for it in layer) + (len(layer) - 1) * o["nodeSpacing"]
            if len(labs) > 2 and width > budget * (1 + 1e-9) + 1e-9:
                run.violation("C04.capacity", inp, {"layer": k, "labels": len(labs), "width": width, "budget": budget})


# ----------------------------------------------------------------------------
# C06
# ----------------------------------------------------------------------------
def layout_map(nodes):
    return sorted((n.idealPos, n.width, n.layerIndex, n.currentPos) for n in nodes)


def check_c06(run, labels, options, rng):
    inp = {"labels": labels, "options": options}
    # interchangeable-ties premise: labels sharing a data position share a width
    byp = {}
    for p, w in labels:
        byp.setdefault(p, set()).add(w)
    premise = all(len(s) == 1 for s in byp.values())
    f, nodes = run_force(labels, options)
    base = layout_map(nodes)
    # 1. recompute on the same engine
    f.compute()
    if layout_map(nodes) != base:
        run.violation("C06.recompute", inp, {"first": base, "second": layout_map(nodes)})
    # 2. stale state: nodes laid out by a DIFFERENT configuration before
    other = dict(options)
    other["maxPos"] = 40 if options.get("maxPos") is None else None
    other["algorithm"] = "simple" if options.get("algorithm", "overlap") != "simple" else "overlap"
    stale = make_nodes(labels)
    g = Force(other)
    g.nodes(stale)
    g.compute()
    h = Force(dict(options))
    h.nodes(stale)
    h.compute()
    if layout_map(stale) != base:
        run.violation("C06.stale", inp, {"fresh": base, "after_other_layout": layout_map(stale), "other": other})
    # 3. permutation of the input
    if premise:
        perm = list(labels)
        rng.shuffle(perm)
        _, pn = run_force(perm, options)
        if layout_map(pn) != base:
            run.violation("C06.permutation", {"labels": labels, "options": options, "perm": perm},
                          {"orig": base, "perm": layout_map(pn)})
    # 4. engine reuse for a second, different label set
    labels2 = [(p + 1.5, w) for p, w in labels[: max(1, len(labels) // 2)]] + [(3.0, 2.0)]
    f.nodes(make_nodes(labels2))
    f.compute()
    _, fresh2 = run_force(labels2, options)
    if layout_map(f.nodes()) != layout_map(fresh2):
        run.violation("C06.reuse", {"labels": labels, "labels2": labels2, "options": options},
                      {"reused": layout_map(f.nodes()), "fresh": layout_map(fresh2)})
    # 5. re-configure then configure back
    f2, n2 = run_force(labels, options)
    f2.set_options(other)
    f2.compute()
    f2.set_options(dict(eff_opts(options)))
    f2.compute()
    if layout_map(n2) != base:
        run.violation("C06.reconfigure", inp, {"fresh": base, "after_roundtrip": layout_map(n2), "other": other})


# ----------------------------------------------------------------------------
# scopes
# ----------------------------------------------------------------------------
WIDTHS = [1.0, 2.0, 3.5]


def option_matrix(labels, quick):
    """bounds x spacing x algorithm x stub width (S-CHAIN of DESIGN section 4), incl. a zero upper bound and an exactly met
    density budget."""
    tot = sum(w for _, w in labels)
    n = len(labels)
    out = []
    for ns in (0, 3):
        exact = tot + (n - 1) * ns
        # (.., 0): a bound that is exactly zero (falsy); (-exact - 2, 0): the items fit below an upper bound of zero
        bounds = [(None, None), (0, None), (None, 7.0), (0, exact), (0, max(1.0, exact - 0.5)), (0, max(1.0, exact / 3.0)),
                  (-2.5, 9.5), (None, 0), (-(exact + 2.0), 0)]
        for (mn, mx) in bounds:
            for alg in ("overlap", "simple", "none"):
                for sw in ((1,) if quick else (0, 1)):
                    out.append({"minPos": mn, "maxPos": mx, "nodeSpacing": ns, "algorithm": alg, "stubWidth": sw})
        # the density budget met EXACTLY (required width == density * layer width): the labels fit
        for alg in ("overlap", "simple"):
            out.append({"minPos": 0, "maxPos": exact, "nodeSpacing": ns, "algorithm": alg, "stubWidth": 1, "density": 1.0})
            out.append({"minPos": -exact, "maxPos": exact, "nodeSpacing": ns, "algorithm": alg, "stubWidth": 1, "density": 0.5})
    return out


def multisets(n, grid, widths):
    pts = list(itertools.product(grid, widths))
    return itertools.combinations_with_replacement(pts, n)


def random_instance(rng, nmax):
    n = rng.randint(1, nmax)
    style = rng.random()
    if style < 0.3:  # dense cluster
        base = rng.choice([0, 50, -20])
        labels = [(base + rng.randint(0, 6) / 2.0, rng.choice([1.0, 2.0, 3.5, 10.0, 0.5])) for _ in range(n)]
    elif style < 0.6:
        labels = [(rng.randint(-40, 400) / 2.0, rng.choice([1.0, 5.0, 12.5, 30.0])) for _ in range(n)]
    else:
        labels = [(round(rng.uniform(-50, 500), 3), round(rng.uniform(0.25, 40), 2)) for _ in range(n)]
    tot = sum(w for _, w in labels)
    ns = rng.choice([0, 0.5, 1, 3, 3, 5])
    mn = rng.choice([None, 0, 0, -10, 12.5])
    mx = rng.choice([None, None, tot * rng.choice([0.3, 0.6, 1.0, 1.5, 3.0]) + (mn or 0), 100, 400])
    options = {"minPos": mn, "maxPos": mx, "nodeSpacing": ns, "algorithm": rng.choice(["overlap", "overlap", "simple", "none"]),
               "stubWidth": rng.choice([0, 1, 1, 2]), "density": rng.choice([0.85, 0.85, 0.5, 1.0, 0.3])}
    return labels, options


# ----------------------------------------------------------------------------
# call histories: the statements quantify over configurations INCLUDING the documented defaults (keys left out); a layout
# must not depend on which layouts the process computed before.  Every ordered pair (A, B) of the configurations below is
# run A-then-B in this process, through both entries (Force.compute and removeOverlap.removeOverlap directly), and each
# outcome is judged by the ordinary oracle for the configuration it was GIVEN.
# ----------------------------------------------------------------------------
HIST_CONFIGS = [None, {}, {"minPos": None}, {"maxPos": 100}, {"minPos": -30, "maxPos": 400}, {"nodeSpacing": 11},
                {"maxPos": 60}, {"maxPos": 60, "lineSpacing": 14}, {"minPos": 12.5}]
HIST_LABELS = [[[1.0, 50.0], [3.0, 50.0], [5.0, 50.0]],                      # crowded against the default lower bound
               [[150.0, 20.0], [180.0, 20.0], [183.0, 20.0]],                # free-standing, beyond a stale upper bound
               [[10.0 + 2 * k, 12.0] for k in range(9)]]                     # several layers under maxPos 60 (stubs)


def run_step(entry, labels, options):
    from labella import removeOverlap as ro
    if entry == "force":
        return run_force(labels, options or {})[1]
    nodes = make_nodes(labels)
    ro.removeOverlap(nodes, None if options is None else dict(options))
    return nodes


def check_step(run, props, entry, labels, options, history):
    inp = {"labels": labels, "options": options, "entry": entry, "history": history}
    ok, nodes = run.guard(lambda: run_step(entry, labels, options), "%s.exception" % sorted(props)[0], inp)
    run.case(("H", entry, str(labels), str(options), str(history)), nontrivial=True)
    if not ok:
        return
    if "C01" in props:
        check_c01(run, labels, options, nodes, inp=inp)
    w = props & {"C02", "C03"}
    if w:
        check_c02_c03(run, labels, options, nodes, w, inp=inp)


def c04_step(labels, prior, options, how):
    """label OBJECTS that took part in an earlier layout (prior options) are laid out again under `options`:
    how = 'second-engine' (handed to a new Force) | 're-register' (same engine: nodes(...) again, set_options, compute)"""
    nodes = make_nodes(labels)
    f = Force(dict(prior))
    f.nodes(nodes)
    f.compute()
    if how == "second-engine":
        g = Force(dict(options))
    else:
        g = f
        g.nodes(list(nodes))
        g.set_options(dict(options))
    g.nodes(nodes)
    g.compute()
    return g, nodes


def histories_c04(run):
    crowded = [{"maxPos": 60}, {"maxPos": 40, "algorithm": "simple"}, {"maxPos": 25, "density": 0.5}]
    later = [{"maxPos": None}, {"maxPos": 400}, {"maxPos": 60, "algorithm": "none"}, {"maxPos": 90}, {"maxPos": 30}]
    n = 0
    for labels in (HIST_LABELS[2], [[5.0 * k, 8.0] for k in range(7)]):
        for prior in crowded:
            for opt in later:
                for how in ("second-engine", "re-register"):
                    full = dict(prior)
                    full.update(opt)
                    eff = opt if how == "second-engine" else full
                    inp = {"labels": labels, "options": eff, "history": [{"entry": "force", "labels": labels, "options": prior}],
                           "entry": "c04:" + how, "step_options": opt}
                    ok, res = run.guard(lambda: c04_step(labels, prior, opt, how), "C04.exception", inp)
                    run.case(("H4", str(labels), str(prior), str(opt), how), nontrivial=True)
                    n += 1
                    if ok:
                        g, nodes = res
                        check_c04(run, labels, eff, g, nodes, inp=inp)
    run.exhaustive("histories: %d re-layouts of label objects that carry an earlier layout's stub chains" % n)


# one ENGINE configured in several steps (constructor, then set_options calls that each give only some keys): the layout must
# follow the MERGED configuration (a later call overrides the keys it gives, and only those)
ENGINE_SEQS = [
    [{"nodeSpacing": 12}, {"maxPos": 400}],
    [{"nodeSpacing": 12, "minPos": 5}, {}],
    [{"nodeSpacing": 9}, None, {"minPos": None}],
    [{"maxPos": 60}, {"maxPos": None}],
    [{"maxPos": 60, "nodeSpacing": 0}, {"maxPos": 200}],
    [{}, {"nodeSpacing": 7}, {"minPos": -10}],
    [{"minPos": None, "maxPos": 50}, {"nodeSpacing": 5}],
    [{"minPos": 20, "maxPos": 300}, {"stubWidth": 2}, {"maxPos": 70}],
    [{"nodeSpacing": 6, "maxPos": 90}, {"minPos": -40}, {"nodeSpacing": 1}],
]


def engine_step(labels, seq):
    f = Force(None if seq[0] is None else dict(seq[0]))
    for o in seq[1:]:
        f.set_options(None if o is None else dict(o))
    nodes = make_nodes(labels)
    f.nodes(nodes)
    f.compute()
    return f, nodes


def merged(seq):
    m = {}
    for o in seq:
        m.update(o or {})
    return m


def relayout_step(labels, prior, options, how):
    return c04_step(labels, prior, options, how)[1]


def histories_engine(run, props):
    n = 0
    lab = HIST_LABELS + [[[40.0 + 6 * k, 10.0] for k in range(6)]]
    for seq in ENGINE_SEQS:
        for labels in lab:
            eff = merged(seq)
            inp = {"labels": labels, "options": eff, "entry": "engine:configured-in-steps", "sequence": seq}
            ok, res = run.guard(lambda: engine_step(labels, seq), "%s.exception" % sorted(props)[0], inp)
            run.case(("HE", str(labels), str(seq)), nontrivial=True)
            n += 1
            if ok:
                judge(run, props, labels, eff, res[1], inp)
    # label OBJECTS that took part in an earlier (crowded) layout are laid out again: stale stubs / positions must not show
    crowded = [{"maxPos": 60}, {"maxPos": 25, "density": 0.5}]
    later = [{"maxPos": None}, {"maxPos": 400}, {"maxPos": 90}]
    for labels in (HIST_LABELS[2], [[5.0 * k, 8.0] for k in range(7)]):
        for prior in crowded:
            for opt in later:
                for how in ("second-engine", "re-register"):
                    full = dict(prior)
                    full.update(opt)
                    eff = opt if how == "second-engine" else full
                    inp = {"labels": labels, "options": eff, "history": [{"entry": "force", "labels": labels, "options": prior}],
                           "entry": "relayout:" + how, "step_options": opt}
                    ok, nodes = run.guard(lambda: relayout_step(labels, prior, opt, how), "%s.exception" % sorted(props)[0], inp)
                    run.case(("HR", str(labels), str(prior), str(opt), how), nontrivial=True)
                    n += 1
                    if ok:
                        judge(run, props, labels, eff, nodes, inp)
    run.exhaustive("histories: %d layouts on an engine configured in several steps / of label objects laid out before" % n)


def judge(run, props, labels, options, nodes, inp):
    if "C01" in props:
        check_c01(run, labels, options, nodes, inp=inp)
    w = props & {"C02", "C03"}
    if w:
        check_c02_c03(run, labels, options, nodes, w, inp=inp)


def histories(run, props):
    if "C04" in props:
        histories_c04(run)
    if not (props & {"C01", "C02", "C03"}):
        return
    histories_engine(run, props)
    n = 0
    for entry in ("direct", "force"):
        for A in HIST_CONFIGS:
            for B in HIST_CONFIGS:
                for la in HIST_LABELS[:2]:
                    for lb in HIST_LABELS:
                        if entry == "direct" and lb is HIST_LABELS[2] and False:
                            continue
                        run.guard(lambda: run_step(entry, la, A), "%s.exception" % sorted(props)[0],
                                  {"labels": la, "options": A, "entry": entry})
                        check_step(run, props, entry, lb, B, [{"entry": entry, "labels": la, "options": A}])
                        n += 1
    run.exhaustive("histories: %d two-call sequences (9 configurations incl. omitted keys / None, both entries)" % n)


def explore(run, props):
    """Enumerated scope then seeded random instances; props subset of {'C01','C02','C03','C04','C06'}."""
    quick = run.tier == "quick"
    histories(run, props)
    grid = [0.0, 0.5, 1.0, 2.0, 4.5] if quick else [0.0, 0.5, 1.0, 1.5, 2.0, 3.0, 4.5, 6.0]
    nmax = 3 if quick else 4
    stride = 7 if quick else 3
    cnt = 0
    cut = False
    for n in range(1, nmax + 1):
        for ms in multisets(n, grid, WIDTHS if n < 3 else WIDTHS[:2] if quick else WIDTHS):
            cnt += 1
            if n >= 3 and cnt % stride:
                continue
            labels = [list(x) for x in ms]
            for options in option_matrix(labels, quick):
                one(run, props, labels, options)
            if cnt % 20 == 0 and run.left() < run.budget * 0.4:
                cut = True       # (the C06 histories cost several layouts per case: the cut must be possible inside one n)
                break
        if cut or run.left() < run.budget * 0.4:
            run.note("enumerated scope cut at n=%d by the time budget" % n)
            break
    else:
        run.exhaustive("S-CHAIN(n<=%d) grid=%s widths=%s stride=%d on n>=3" % (nmax, grid, WIDTHS, stride))
    big = 60 if quick else 200
    while run.left() > 0:
        labels, options = random_instance(run.rng, run.rng.choice([4, 8, 15, big]))
        one(run, props, [list(x) for x in labels], options)


def one(run, props, labels, options):
    key = ("L", tuple(map(tuple, labels)), tuple(sorted((k, str(v)) for k, v in options.items())))
    inp = {"labels": labels, "options": options}
    if props == {"C06"}:
        run.case(key, nontrivial=len(labels) > 1)
        run.guard(lambda: check_c06(run, labels, options, run.rng), "C06.exception", inp, calls=12)   # up to a dozen layouts
        return
    ok, res = run.guard(lambda: run_force(labels, options), "%s.exception" % sorted(props)[0], inp)
    if not ok:
        run.case(key)
        return
    f, nodes = res
    layers = items_by_layer(nodes)
    run.case(key, nontrivial=len(labels) > 1 and (len(layers) > 1 or any(n.currentPos != n.idealPos for n in nodes)))
    if "C01" in props:
        check_c01(run, labels, options, nodes)
    w = props & {"C02", "C03"}
    if w:
        check_c02_c03(run, labels, options, nodes, w)
    if "C04" in props:
        check_c04(run, labels, options, f, nodes)
        # the distributor on its own, with explicit layerWidth / density
        o = eff_opts(options)
        if o["maxPos"] is not None and o["minPos"] is not None:
            d = dist_mod.Distributor({"algorithm": o["algorithm"], "layerWidth": o["maxPos"] - o["minPos"],
                                      "density": o["density"], "nodeSpacing": o["nodeSpacing"], "stubWidth": o["stubWidth"]})
            fresh = make_nodes(labels)
            layers2 = d.distribute(fresh)
            check_layering(run, {"labels": labels, "options": options, "via": "Distributor"}, layers2, fresh, o)


def replay(run, props, inp):
    labels = inp["labels"]
    options = inp["options"]
    if str(inp.get("entry", "")).startswith("c04:"):
        g, nodes = c04_step(labels, inp["history"][0]["options"], inp["step_options"], inp["entry"][4:])
        check_c04(run, labels, options, g, nodes, inp=inp)
        return
    if str(inp.get("entry", "")).startswith("engine:"):
        judge(run, props, labels, options, engine_step(labels, inp["sequence"])[1], inp)
        return
    if str(inp.get("entry", "")).startswith("relayout:"):
        judge(run, props, labels, options, relayout_step(labels, inp["history"][0]["options"], inp["step_options"], inp["entry"][9:]), inp)
        return
    if "history" in inp:
        for h in inp["history"]:
            run_step(h["entry"], h["labels"], h["options"])
        check_step(run, props, inp["entry"], labels, options, inp["history"])
        return
    one(run, props, labels, options)
    if "perm" in inp or "labels2" in inp:
        pass
