"""T2 driver for C08 (bounded, scope S-PIPE): see bounded/pipeline.py."""
from . import common, pipeline

SCOPE = 'S-PIPE: fixed matrix direction {up,down,left,right} x scale {TimeScale with dates / datetimes with time of day / mixed unsorted dates+datetimes; LinearScale with numbers} x dataset shape {single datum, two data at one time, unsorted, dense cluster in several layers (maxPos), wide span} x 15 option variants (layerGap 1/10/60, labelPadding zero/asymmetric, showTicks off, explicit covering domain vs derived, integer canvas sizes and margins, engine options with nodeSpacing>=3, XML-special / non-ASCII / absent / empty text, colours as 3- and 6-digit hex, lists, functions, showBorder on/off) = 1200 cases, SVG and TikZ back-ends (thorough: also ordered pairs of variants merged); then seeded random datasets (1..40 data) and options until the time budget. datetime.time values, non-integer canvas sizes and margins are outside (C09 notes a non-integer sub-scope)'

if __name__ == "__main__":
    common.main("C08", SCOPE, lambda run: pipeline.explore(run, {"C08"}), lambda run, inp: pipeline.replay(run, {"C08"}, inp))
