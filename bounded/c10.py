"""T2 driver for C10 (bounded): a timeline's export depends only on its own data and options.

Oracle (from the statement, nothing taken from the implementation):
  * the REFERENCE document of a timeline spec (data + options + back-end) is what a process that has constructed
    nothing else exports for it.  References are computed by a helper interpreter started with
    `/venv/bin/python -c ...` (same LABELLA_REPO); the helper itself never constructs a timeline, it forks once per
    spec, so every reference comes from a process whose whole history is "construct this one, export it".
  * a HISTORY is a sequence of operations ("c", i) = construct timeline i, ("e", i) = export timeline i over
    2-4 timelines.  Each history is played in a process forked from the (pristine: it never constructs anything
    itself) driver, so that the history recorded with a violation is the complete history of that process and
    replays exactly.  Every exported document must equal the reference byte for byte (C10.fresh), two exports of
    one instance must be identical (C10.repeat), and an export may not raise where the reference did not
    (C10.exception).
  * every construction gets fresh data dicts, a fresh options dict and, for caller-supplied scales, a fresh
    TimeScale()/LinearScale(): the caller never passes the same object to two timelines.
  * datetime.time values are not generated (known finding D14).
"""
import copy
import datetime
import json
import os
import subprocess
import sys
import traceback

from . import common  # sets sys.path: keep before the labella imports
from labella.scale import LinearScale, TimeScale  # noqa: E402  (imported here, not per forked child)
from labella.timeline import TimelineSVG, TimelineTex  # noqa: E402

D = datetime.date
DT = datetime.datetime
TD = datetime.timedelta

SCOPE = ("histories over 2-4 timelines, each played in its own process against fresh-process references: "
         "ALL interleavings of (construct, export, export) chains for 10 fixed spec pairs and of (construct, export) "
         "chains for 3 fixed triples (thorough: 4 triples + (c,e,e) chains for one triple + (c,e) chains for one "
         "quadruple); "
         "specs differ in direction, labella lineSpacing/nodeSpacing/maxPos/algorithm, domain, scale kind "
         "(default / own TimeScale / own LinearScale), back-end (SVG/TikZ), incl. dense multi-layer data; "
         "then seeded random specs (1-30 data) and random histories until the time budget")

ERR = "!ERR "


# ----------------------------------------------------------------------------
# specs -> timelines
# ----------------------------------------------------------------------------
def build(spec):
    """Construct the timeline of a spec; every object handed to the library is new."""
    data = [dict(d) for d in spec["data"]]
    opts = copy.deepcopy(spec.get("options"))
    kind = spec.get("scale", "default")
    if kind != "default":
        opts = {} if opts is None else opts
        opts["scale"] = TimeScale() if kind == "time" else LinearScale()
    cls = TimelineSVG if spec.get("backend", "svg") == "svg" else TimelineTex
    return cls(data) if opts is None else cls(data, opts)


def as_text(doc):
    return doc.decode("latin-1") if isinstance(doc, bytes) else doc


def export_text(tl):
    try:
        return as_text(tl.export())
    except BaseException as e:  # noqa
        return ERR + type(e).__name__


def alone(spec):
    """What a process does that only ever constructs and exports this one spec."""
    try:
        tl = build(spec)
    except BaseException as e:  # noqa
        return ERR + type(e).__name__
    return export_text(tl)


# ----------------------------------------------------------------------------
# process plumbing
# ----------------------------------------------------------------------------
def in_fork(fn):
    """Run fn() in a forked child, return its JSON-able result."""
    sys.stdout.flush()
    sys.stderr.flush()
    r, w = os.pipe()
    pid = os.fork()
    if pid == 0:
        code = 0
        try:
            os.close(r)
            try:
                out = {"ok": True, "res": fn()}
            except BaseException:  # noqa
                out = {"ok": False, "err": traceback.format_exc()[-1500:]}
            with os.fdopen(w, "wb") as f:
                f.write(json.dumps(out).encode("utf-8"))
        except BaseException:  # noqa
            code = 1
        finally:
            os._exit(code)
    os.close(w)
    with os.fdopen(r, "rb") as f:
        buf = f.read()
    _, status = os.waitpid(pid, 0)
    if not buf:
        raise RuntimeError("forked child died without a result (status %r)" % (status,))
    out = json.loads(buf.decode("utf-8"))
    if not out["ok"]:
        raise RuntimeError("harness error in forked child:\n" + out["err"])
    return out["res"]


def helper_main():
    """Body of the reference interpreter: one JSON list of specs per line in, one JSON list of documents per line out.
    This process never constructs a timeline itself."""
    inp = sys.stdin
    out = sys.stdout
    while True:
        line = inp.readline()
        if not line:
            break
        specs = common.unjson(json.loads(line))
        docs = [in_fork(lambda s=s: alone(s)) for s in specs]
        out.write(json.dumps(docs) + "\n")
        out.flush()


class Helper(object):
    def __init__(self):
        here = os.path.dirname(os.path.dirname(os.path.abspath(__file__)))
        py = "/venv/bin/python" if os.path.exists("/venv/bin/python") else sys.executable
        code = "import sys; sys.path.insert(0, %r); from bounded import c10; c10.helper_main()" % here
        env = dict(os.environ)
        env["LABELLA_REPO"] = common.REPO
        self.p = subprocess.Popen([py, "-c", code], stdin=subprocess.PIPE, stdout=subprocess.PIPE, cwd=here, env=env,
                                  universal_newlines=True)
        self.cache = {}

    def refs(self, specs):
        keys = [json.dumps(common.jsonable(s), sort_keys=True) for s in specs]
        todo = []
        for k in keys:
            if k not in self.cache and k not in todo:
                todo.append(k)
        if todo:
            self.p.stdin.write("[" + ",".join(todo) + "]\n")
            self.p.stdin.flush()
            line = self.p.stdout.readline()
            if not line:
                raise RuntimeError("reference helper died (exit %r)" % (self.p.poll(),))
            for k, d in zip(todo, json.loads(line)):
                self.cache[k] = d
        return [self.cache[k] for k in keys]

    def forget(self):
        self.cache = {}

    def close(self):
        try:
            self.p.stdin.close()
            self.p.wait(timeout=10)
        except Exception:  # noqa
            self.p.kill()


# ----------------------------------------------------------------------------
# histories
# ----------------------------------------------------------------------------
def play(specs, ops, refs):
    """Play one history in THIS process; return the failures (JSON-able)."""
    inst = {}
    last = {}
    fails = []
    nexp = 0
    for k, (op, i) in enumerate(ops):
        if op == "c":
            try:
                inst[i] = build(specs[i])
            except BaseException as e:  # noqa
                inst[i] = None
                if not refs[i].startswith(ERR):
                    fails.append({"clause": "C10.exception", "op_index": k, "op": [op, i],
                                  "observed": "constructing raised %s: %s; alone it does not" % (type(e).__name__, str(e)[:160])})
            last.pop(i, None)
        else:
            tl = inst.get(i)
            if tl is None:
                continue
            doc = export_text(tl)
            nexp += 1
            if doc != refs[i]:
                if doc.startswith(ERR) and not refs[i].startswith(ERR):
                    fails.append({"clause": "C10.exception", "op_index": k, "op": [op, i],
                                  "observed": "export raised %s; alone it does not" % doc[len(ERR):]})
                else:
                    fails.append({"clause": "C10.fresh", "op_index": k, "op": [op, i], "observed": first_diff(refs[i], doc)})
            if i in last and last[i] != doc:
                fails.append({"clause": "C10.repeat", "op_index": k, "op": [op, i], "observed": first_diff(last[i], doc)})
            last[i] = doc
    return {"fails": fails, "exports": nexp}


def first_diff(a, b):
    n = min(len(a), len(b))
    k = next((j for j in range(n) if a[j] != b[j]), n)
    lo = max(0, k - 60)
    return {"at": k, "len_expected": len(a), "len_got": len(b), "expected": a[lo:k + 60], "got": b[lo:k + 60]}


def one_history(run, helper, specs, ops, refs=None):
    refs = helper.refs(specs) if refs is None else refs
    res = in_fork(lambda: play(specs, ops, refs))
    key = "H|" + "|".join(json.dumps(common.jsonable(s), sort_keys=True) for s in specs) + "|" + \
          "".join("%s%d" % (o, i) for o, i in ops)
    # nontrivial: some export happens after another timeline was constructed
    seen = set()
    nontrivial = False
    for o, i in ops:
        if o == "c":
            seen.add(i)
        elif len(seen - {i}) > 0:
            nontrivial = True
    run.case(key, nontrivial=nontrivial and res["exports"] > 0)
    for f in res["fails"]:
        run.violation(f["clause"], {"specs": specs, "ops": [list(o) for o in ops]},
                      {"op_index": f["op_index"], "op": f["op"], "detail": f["observed"]})
    return res


def interleavings(chains):
    """All merges of the chains (each chain keeps its own order)."""
    pos = [0] * len(chains)
    total = sum(len(c) for c in chains)
    cur = []

    def rec():
        if len(cur) == total:
            yield list(cur)
            return
        for j, c in enumerate(chains):
            if pos[j] < len(c):
                cur.append(c[pos[j]])
                pos[j] += 1
                for x in rec():
                    yield x
                pos[j] -= 1
                cur.pop()
    return rec()


def chain(i, exports):
    return [("c", i)] + [("e", i)] * exports


# ----------------------------------------------------------------------------
# the fixed catalogue
# ----------------------------------------------------------------------------
def months_2015():
    return [{"time": D(2015, m, 1 + 2 * m), "width": 40 + 5 * m, "text": "ev %d" % m} for m in range(1, 9)]


def centuries():
    ys = [1805, 1848, 1871, 1914, 1918, 1945, 1989, 1995]
    return [{"time": D(y, 1 + (y % 12), 1 + (y % 28)), "width": 30 + (y % 7), "text": str(y)} for y in ys]


def dense_leap(n=16):
    t0 = DT(2016, 2, 27, 6, 0)
    out = []
    for k in range(n):
        out.append({"time": t0 + TD(hours=(k * k * 7) % 110, minutes=13 * k), "width": 24 + (k % 3) * 6, "text": "d%02d" % k})
    return out


def numbers():
    return [{"time": t, "width": 35} for t in (0.5, 3, 3.2, 7, 12.5, 12.75)]


def dense_numbers(n=16):
    return [{"time": 100 + ((k * 37) % 50) / 10.0, "width": 20 + (k % 4) * 5} for k in range(n)]


def year_2000():
    return [{"time": DT(2000, m, 28, 12, 30), "width": 50, "text": "m%d" % m} for m in (1, 2, 2, 3, 6, 11, 12)]


def catalogue():
    S = {}
    S["A"] = {"backend": "svg", "scale": "default", "data": months_2015(), "options": {"direction": "right"}}
    S["Atex"] = dict(S["A"], backend="tex")
    S["B"] = {"backend": "svg", "scale": "default", "data": months_2015(),
              "options": {"direction": "up", "labella": {"nodeSpacing": 9, "lineSpacing": 7}}}
    S["C"] = {"backend": "svg", "scale": "default", "data": centuries(), "options": None}
    S["Ctex"] = dict(S["C"], backend="tex", options={"direction": "left"})
    S["D"] = {"backend": "svg", "scale": "default", "data": dense_leap(),
              "options": {"direction": "up", "labella": {"maxPos": 150, "nodeSpacing": 2}}}
    S["Dtex"] = dict(S["D"], backend="tex")
    S["E"] = {"backend": "svg", "scale": "default", "data": dense_leap(),
              "options": {"direction": "down", "labella": {"maxPos": 150, "lineSpacing": 11, "nodeSpacing": 1,
                                                           "algorithm": "simple"}}}
    S["Etex"] = dict(S["E"], backend="tex")
    S["F"] = {"backend": "svg", "scale": "linear", "data": numbers(),
              "options": {"direction": "left", "labella": {"minPos": None}}}
    S["G"] = {"backend": "svg", "scale": "time", "data": year_2000(),
              "options": {"direction": "right", "domain": [DT(2000, 1, 1), DT(2001, 1, 1)],
                          "labella": {"maxPos": 300, "algorithm": "overlap"}}}
    S["H"] = {"backend": "tex", "scale": "linear", "data": dense_numbers(),
              "options": {"direction": "right", "labella": {"maxPos": 120, "lineSpacing": 6}, "initialHeight": 300}}
    S["I"] = {"backend": "svg", "scale": "linear", "data": dense_numbers(),
              "options": {"direction": "down", "labella": {"maxPos": 140, "nodeSpacing": 0}, "showTicks": False}}
    S["J"] = {"backend": "svg", "scale": "time", "data": months_2015(), "options": {"direction": "down"}}
    return S


PAIRS = [("A", "C"), ("A", "B"), ("D", "E"), ("Etex", "Dtex"), ("Atex", "C"), ("F", "H"), ("G", "A"), ("I", "H"),
         ("B", "Dtex"), ("J", "Ctex")]
TRIPLES = [("A", "C", "E"), ("B", "D", "F"), ("Dtex", "E", "G"), ("I", "J", "Atex")]
TRIPLE_CEE = ("A", "E", "D")
QUAD = ("A", "C", "D", "E")


def enumerate_fixed(run, helper):
    S = catalogue()
    quick = run.tier == "quick"
    plan = [(p, 2) for p in PAIRS] + [(t, 1) for t in (TRIPLES[:3] if quick else TRIPLES)]
    if not quick:
        plan += [(TRIPLE_CEE, 2), (QUAD, 1)]
    done = []
    stats = {"histories": 0, "exports": 0}
    for names, nexp in plan:
        specs = [S[n] for n in names]
        refs = helper.refs(specs)
        for nm, r in zip(names, refs):
            if r.startswith(ERR):
                run.note("catalogue spec %s does not export even alone (%s): no C10 content" % (nm, r))
        complete = True
        for ops in interleavings([chain(i, nexp) for i in range(len(specs))]):
            if run.left() < run.budget * 0.25:
                complete = False
                break
            res = one_history(run, helper, specs, ops, refs)
            stats["histories"] += 1
            stats["exports"] += res["exports"]
        if not complete:
            run.note("enumerated scope cut by the time budget inside %s" % "+".join(names))
            break
        done.append("%s x(c%s)" % ("+".join(names), "e" * nexp))
    if done:
        run.exhaustive("all interleavings of: " + ", ".join(done))
    stats["t"] = run.budget - run.left()
    run.note("enumerated: %(histories)d histories, %(exports)d exports compared, %(t).1f s" % stats)


# ----------------------------------------------------------------------------
# random specs and histories
# ----------------------------------------------------------------------------
def rand_spec(rng):
    kind = rng.choice(["default", "default", "time", "linear"])
    n = rng.choice([1, 2, 3, 5, 8, 13, 13, 20, 30])
    dense = rng.random() < 0.45
    frac = 0.04 if dense else 1.0
    data = []
    domain = None
    if kind == "linear":
        n = max(n, 2)
        lo = rng.choice([0, -50, 1000.5, 3])
        span = rng.choice([1, 10, 365.25, 1e4])
        ts = [round(lo + rng.random() * span * frac, 4) for _ in range(n)]
        if len(set(ts)) < 2:
            ts[0] = ts[-1] + span
        if rng.random() < 0.3:
            domain = [lo - span * 0.1, lo + span * 1.1]
    else:
        anchor = DT(rng.choice([1850, 1969, 1999, 2015, 2016, 2031]), rng.randint(1, 12), rng.randint(1, 28),
                    rng.randint(0, 23), rng.randint(0, 59))
        span_s = rng.choice([0.5, 90, 7200, 86400 * 3, 86400 * 45, 86400 * 400, 86400 * 365 * 30])
        ts = [anchor + TD(seconds=round(rng.random() * span_s * frac, 3)) for _ in range(n)]
        if span_s >= 86400 * 3 and rng.random() < 0.35:
            ts = [t.date() for t in ts]
        if rng.random() < 0.3:
            domain = [anchor - TD(seconds=span_s * 0.1), anchor + TD(seconds=span_s * 1.1)]
    for k, t in enumerate(ts):
        d = {"time": t, "width": rng.choice([10, 25, 40, 60.5])}
        if rng.random() < 0.6:
            d["text"] = "T%d" % k
        data.append(d)
    options = {}
    if rng.random() < 0.85:
        options["direction"] = rng.choice(["up", "down", "left", "right"])
    lab = {}
    for name, vals in (("lineSpacing", [0, 2, 5, 12]), ("nodeSpacing", [0, 3, 8]), ("maxPos", [None, 120, 200, 360]),
                       ("minPos", [0, None, -20]), ("algorithm", ["overlap", "simple", "none"]),
                       ("density", [0.5, 0.85, 1]), ("stubWidth", [0, 1, 3])):
        if rng.random() < 0.4:
            lab[name] = rng.choice(vals)
    if dense and n >= 8 and rng.random() < 0.7:
        lab["maxPos"] = rng.choice([120, 160, 220])
        lab.setdefault("minPos", 0)
        if lab["minPos"] is None:
            lab["minPos"] = 0
    if lab or rng.random() < 0.2:
        options["labella"] = lab
    if domain is not None:
        options["domain"] = domain
    for name, vals in (("initialWidth", [300, 640]), ("initialHeight", [250, 500]), ("layerGap", [30, 90]),
                       ("showTicks", [False]), ("dotRadius", [2, 5]), ("showBorder", [True])):
        if rng.random() < 0.2:
            options[name] = rng.choice(vals)
    if not options and kind == "default" and rng.random() < 0.5:
        options = None
    return {"backend": rng.choice(["svg", "tex"]), "scale": kind, "data": data, "options": options}


def variant(rng, spec):
    """Same data, other direction / engine options (the 'construct another with different options' pattern)."""
    s = copy.deepcopy(spec)
    o = s["options"] or {}
    o["direction"] = rng.choice([d for d in ("up", "down", "left", "right") if d != o.get("direction", "right")])
    lab = dict(o.get("labella", {}))
    lab["lineSpacing"] = rng.choice([0, 4, 9, 15])
    lab["nodeSpacing"] = rng.choice([0, 1, 6, 10])
    if rng.random() < 0.5:
        lab["maxPos"] = rng.choice([100, 180, 260])
        lab["minPos"] = 0
    o["labella"] = lab
    s["options"] = o
    if rng.random() < 0.3:
        s["backend"] = "tex" if s["backend"] == "svg" else "svg"
    return s


def rand_history(rng, k):
    style = rng.random()
    nexp = [rng.randint(1, 3) for _ in range(k)]
    order = list(range(k))
    rng.shuffle(order)
    if style < 0.15:  # all constructs, then exports
        ops = [("c", i) for i in order]
        ex = [("e", i) for i in range(k) for _ in range(nexp[i])]
        rng.shuffle(ex)
        return ops + ex
    if style < 0.3:  # strictly alternating construct / export
        ops = []
        for i in order:
            ops += [("c", i), ("e", i)]
        for i in reversed(order):  # and every earlier one again, after the later constructions
            ops.append(("e", i))
        return ops
    chains = [chain(i, nexp[i]) for i in range(k)]
    pos = [0] * k
    ops = []
    while any(pos[j] < len(chains[j]) for j in range(k)):
        j = rng.choice([j for j in range(k) if pos[j] < len(chains[j])])
        ops.append(chains[j][pos[j]])
        pos[j] += 1
    return ops


def explore_random(run, helper):
    rng = run.rng
    S = catalogue()
    names = sorted(S)
    nh = 0
    while run.left() > 0:
        groups = []
        for _ in range(6):
            k = rng.choice([2, 2, 3, 4])
            specs = []
            while len(specs) < k:
                r = rng.random()
                if r < 0.6 or not specs:
                    specs.append(rand_spec(rng) if rng.random() < 0.8 else copy.deepcopy(S[rng.choice(names)]))
                elif r < 0.9:
                    specs.append(variant(rng, rng.choice(specs)))
                else:
                    specs.append(copy.deepcopy(rng.choice(specs)))  # a second instance of the very same spec
            groups.append(specs)
        helper.forget()
        helper.refs([s for g in groups for s in g])  # one round trip for the batch
        for specs in groups:
            for _ in range(4):
                if run.left() <= 0:
                    break
                one_history(run, helper, specs, rand_history(rng, len(specs)))
                nh += 1
    run.note("random: %d histories" % nh)


# ----------------------------------------------------------------------------
def body(run):
    helper = Helper()
    try:
        enumerate_fixed(run, helper)
        explore_random(run, helper)
    finally:
        helper.close()


def replay(run, inp):
    helper = Helper()
    try:
        specs = inp["specs"]
        ops = [(o, int(i)) for o, i in inp["ops"]]
        one_history(run, helper, specs, ops)
    finally:
        helper.close()


if __name__ == "__main__":
    common.main("C10", SCOPE, body, replay)
