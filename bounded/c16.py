"""T2 driver for C16 (bounded): TimeScale.ticks(m) / ticks() against the statement.

Oracle (from the statement, independent calendar of c17.py, integer microseconds since the naive epoch):
  never_raises   ticks(m) returns; every element is a datetime
  increasing     strictly increasing
  inside         lo - tol <= tick <= hi + tol; tol = 1 ms when the spacing is sub-second, else 0
  boundary       spacing := smallest gap between consecutive ticks;  >= 1 s -> whole second, >= 1 min -> whole minute,
                 >= 1 h -> whole hour, >= 1 day -> midnight, >= 28 days (month-or-coarser) -> first of a month,
                 >= 365 days (yearly) -> 1 January
  gaps           largest gap <= 2 * smallest gap
  count          span < m ms -> exactly one tick per millisecond of [lo, hi];  otherwise m/2.4 - 1 <= #ticks <= 2.4*m + 1
                 (m = 10 for ticks() without a count)
"""
import calendar
from datetime import datetime, timedelta

from . import common  # noqa: F401
from .c17 import EPOCH, ONE_MS, DAY_MS, T_MIN, T_MAX, ms_of, us_of, dt_of, o_floor, o_next

SCOPE = ("TimeScale().domain([a, b]).ticks(m), every m in 2..50 and ticks() (m=10), naive ms-resolution domains inside 1900-01-01..2200-12-31, "
         "orientation alternating with m (both for ticks()): (A) month-end crossings: starts on the 28th 13:30 and on the last day 23:59:59.999 of "
         "every month of 2024 and February, December 2023 (quick; thorough: every month, adds starts on the 30th, years 1900, 2000, 2100, span 6 d; with a budget >= 200 s also the 27th, "
         "1999, 2200, spans 20 d, 100 d) x spans 1 d, 2 d, 3 d 7 h, 9 d, 45 d; (B) span ladder 1 ms .. 250 years (57 spans incl. 1..11 ms, 49/50/51 ms, 999/1000/1001 ms, "
         "1 day +-1 ms, 365/366 days, 49/50/51 years) from 3 anchor instants + 5 more with m in {2,3,4,5,7,10,17,24,33,50} (quick) / 14 or (budget >= 200 s) 24 anchors, every m (thorough), incl. leap days, year ends, Saturday "
         "23:00, 1969-12-31 23:59:59.999; then seeded random domains (log-uniform span, random m or default, random orientation)")

US = 1000          # microseconds per ms
SEC, MIN, HOUR, DAY = 10 ** 6, 60 * 10 ** 6, 3600 * 10 ** 6, 86400 * 10 ** 6


def _scale(d0, d1):
    from labella.scale import TimeScale
    return TimeScale().domain([d0, d1])


def check_ticks(run, d0, d1, m, prior=()):
    """m is an int in 2..50 or None for the default count; prior: counts the SAME scale instance was asked for before
    (what a scale answers must not depend on what it was asked earlier)"""
    inp = {"domain": [d0, d1], "m": m}
    if prior:
        inp["prior_ticks_calls"] = list(prior)

    def ask():
        s = _scale(d0, d1)
        for p in prior:
            list(s.ticks() if p is None else s.ticks(p))
        return list(s.ticks() if m is None else s.ticks(m))
    ok, res = run.guard(ask, "C16.never_raises", inp)
    if not ok:
        return None
    ticks = res
    if not all(isinstance(x, datetime) for x in ticks):
        run.violation("C16.never_raises", inp, {"not_datetimes": [repr(x) for x in ticks[:5]]})
        return None
    mm = 10 if m is None else m
    lo, hi = min(d0, d1), max(d0, d1)
    lo_us, hi_us = us_of(lo), us_of(hi)
    span_ms = ms_of(hi) - ms_of(lo)
    tu = [us_of(x) for x in ticks]
    gaps = [b - a for a, b in zip(tu, tu[1:])]
    # strictly increasing
    for i, g in enumerate(gaps):
        if g <= 0:
            run.violation("C16.increasing", inp, {"index": i, "a": ticks[i], "b": ticks[i + 1]})
            return ticks
    spacing = min(gaps) if gaps else None
    subsecond = (spacing < SEC) if spacing is not None else (span_ms * US < mm * SEC)
    tol = 1000 if subsecond else 0
    for x, u in zip(ticks, tu):
        if u < lo_us - tol or u > hi_us + tol:
            run.violation("C16.inside", inp, {"tick": x, "lo": lo, "hi": hi, "spacing_us": spacing})
            break
    # calendar boundary implied by the spacing
    if spacing is not None:
        for x in ticks:
            why = None
            if spacing >= SEC and x.microsecond != 0:
                why = "not a whole second"
            elif spacing >= MIN and x.second != 0:
                why = "not a whole minute"
            elif spacing >= HOUR and x.minute != 0:
                why = "not a whole hour"
            elif spacing >= DAY and x.hour != 0:
                why = "not midnight"
            elif spacing >= 28 * DAY and x.day != 1:
                why = "not the first of a month"
            elif spacing >= 365 * DAY and x.month != 1:
                why = "not 1 January"
            if why:
                run.violation("C16.boundary", inp, {"tick": x, "why": why, "spacing_us": spacing})
                break
        if max(gaps) > 2 * spacing:
            i = gaps.index(max(gaps))
            run.violation("C16.gaps", inp, {"min_gap_us": spacing, "max_gap_us": max(gaps), "at": [ticks[i], ticks[i + 1]],
                                            "n": len(ticks)})
    # count
    if span_ms < mm:
        want = [lo + k * ONE_MS for k in range(span_ms + 1)]
        if ticks != want:
            run.violation("C16.count_ms", inp, {"n": len(ticks), "want_n": len(want), "first": ticks[:3]})
    else:
        n = len(ticks)
        if not (mm / 2.4 - 1 <= n <= 2.4 * mm + 1):
            run.violation("C16.count", inp, {"n": n, "m": mm, "lower": mm / 2.4 - 1, "upper": 2.4 * mm + 1,
                                             "spacing_us": spacing, "first": ticks[:2], "last": ticks[-2:]})
    return ticks


def one(run, a, b, m, flip):
    d0, d1 = (b, a) if flip else (a, b)
    run.case((ms_of(d0), ms_of(d1), m), nontrivial=True)
    return check_ticks(run, d0, d1, m)


M_SUBSET = [2, 3, 4, 5, 7, 10, 17, 24, 33, 50]


def all_counts(run, a, b, ms=None):
    for m in (range(2, 51) if ms is None else ms):
        one(run, a, b, m, m % 2 == 1)
    one(run, a, b, None, False)
    one(run, a, b, None, True)


# ----------------------------------------------------------------------------
D = timedelta(days=1)
SPANS_MS = ([1, 2, 3, 4, 5, 6, 7, 8, 9, 10, 11, 20, 49, 50, 51, 99, 100, 101, 250, 999, 1000, 1001, 2500, 10000, 59999, 60000,
             7 * 60000, 3600000, 5 * 3600000, DAY_MS - 1, DAY_MS, DAY_MS + 1, 36 * 3600000, 2 * DAY_MS, 3 * DAY_MS, 7 * DAY_MS,
             10 * DAY_MS, 30 * DAY_MS, 31 * DAY_MS, 90 * DAY_MS, 200 * DAY_MS, 365 * DAY_MS, 366 * DAY_MS, 731 * DAY_MS]
            + [int(y * 365.2425) * DAY_MS for y in (5, 12, 24, 49, 50, 51, 120, 240)] + [91310 * DAY_MS]
            + [15000, 1800000, 12 * 3600000, 14 * DAY_MS, 5000])   # 91310 days = 250 years less 2 days

ANCHORS = [
    datetime(2024, 2, 28, 22, 15, 30, 250000), datetime(1969, 12, 31, 23, 59, 59, 999000), datetime(2023, 12, 30, 23),
    datetime(2021, 3, 13, 23), datetime(1900, 1, 1), datetime(2100, 2, 28, 12), datetime(2200, 12, 31, 23, 59, 59, 999000),
    datetime(2000, 1, 31, 23, 59, 59, 999000),
    # thorough only from here
    datetime(1900, 2, 28, 23, 59, 59, 999000), datetime(1970, 1, 1), datetime(1999, 12, 31, 12), datetime(2000, 2, 29),
    datetime(2016, 12, 31, 23, 59, 59), datetime(2021, 11, 6, 23, 30), datetime(2023, 1, 29, 5), datetime(2023, 3, 31, 18, 0, 0, 1000),
    datetime(2023, 8, 31), datetime(2024, 12, 28, 23, 59, 59, 500000), datetime(2038, 1, 19, 3, 14, 7, 999000),
    datetime(2099, 12, 31, 23, 59, 59, 999000), datetime(1950, 6, 30, 12), datetime(2199, 12, 31), datetime(1968, 2, 29, 0, 0, 0, 1000),
    datetime(2024, 10, 31, 6, 30),
]


def month_end_domains(level):
    """level 0 quick, 1 thorough with a budget under 200 s, 2 thorough"""
    years = [[2024, 2023], [2024, 2023, 1900, 2000, 2100], [2024, 2023, 1900, 2000, 2100, 1999, 2200]][level]
    spans = [D, 2 * D, 3 * D + timedelta(hours=7), 9 * D, 45 * D]
    if level >= 1:
        spans += [6 * D]
    if level >= 2:
        spans += [20 * D, 100 * D]
    for y in years:
        for mo in ((2, 12) if (level == 0 and y == 2023) else range(1, 13)):
            last = calendar.monthrange(y, mo)[1]
            starts = [datetime(y, mo, 28, 13, 30), datetime(y, mo, last, 23, 59, 59, 999000)]
            if level >= 1 and last >= 30:
                starts.append(datetime(y, mo, 30, 0, 0, 0, 1000))
            if level >= 2:
                starts.append(datetime(y, mo, 27))
            for s in starts:
                for sp in spans:
                    e = s + sp
                    if e > T_MAX:
                        s, e = s - sp, s
                    yield s, e


def ladder_domains(level):
    for i, a in enumerate(ANCHORS[:[8, 14, 24][level]]):
        for sp in SPANS_MS:
            b = a + timedelta(milliseconds=sp)
            if b > T_MAX:
                b = a - timedelta(milliseconds=sp)
            if b < T_MIN:
                continue
            yield min(a, b), max(a, b), (M_SUBSET if (level == 0 and i >= 3) else None)


def random_domain(rng):
    lo, hi = ms_of(T_MIN), ms_of(T_MAX)
    maxspan = 250 * 365 * DAY_MS
    r = rng.random()
    if r < 0.15:
        span = rng.randint(1, 120)
    elif r < 0.3:
        span = rng.choice(SPANS_MS) + rng.choice([-1, 0, 1])
    else:
        span = int(round(10 ** rng.uniform(0, 12.897)))   # 1 ms .. ~250 years, log-uniform
    span = max(1, min(span, maxspan))
    r = rng.random()
    if r < 0.5:
        a = rng.randint(lo, hi - span)
    else:
        # start close to a calendar boundary (month end, year end, week boundary, leap day ...)
        u = rng.choice(["day", "week", "month", "month", "year", "hour", "minute"])
        base = o_floor(u, dt_of(rng.randint(lo, hi)))
        if rng.random() < 0.2:
            y = rng.choice([1904, 1968, 2000, 2024, 2096, 2104, 1900, 2100])
            base = datetime(y, 2, 28) + timedelta(days=rng.choice([0, 1]))
        a = ms_of(base) - rng.choice([0, 1, 1000, 3600000, DAY_MS // 2, DAY_MS, 2 * DAY_MS, span // 2, span - 1])
        a = max(lo, min(a, hi - span))
    return dt_of(a), dt_of(a + span)


def explore(run):
    quick = run.tier == "quick"
    level = 0 if quick else (2 if run.budget >= 200 else 1)
    cut = False
    n = 0
    for a, b in month_end_domains(level):
        all_counts(run, a, b)
        n += 1
        if n % 16 == 0 and run.left() < run.budget * 0.4:
            cut = True
            run.note("month-end enumeration cut by the time budget after %d domains" % n)
            break
    if not cut:
        run.exhaustive("(A) %d month-end-crossing domains x m in 2..50 and default" % n)
    cut = False
    n = 0
    for a, b, ms in ladder_domains(level):
        all_counts(run, a, b, ms)
        n += 1
        if n % 16 == 0 and run.left() < run.budget * 0.2:
            cut = True
            run.note("span-ladder enumeration cut by the time budget after %d domains" % n)
            break
    if not cut:
        run.exhaustive("(B) %d anchor x span domains (1 ms .. 250 years) x m in 2..50 and default%s"
                       % (n, " (every m for the first 3 anchors, m in %s and default for 5 more)" % M_SUBSET if quick else ""))
    nh = 0
    for k, (a, b, ms) in enumerate(ladder_domains(0)):
        if k % 5:
            continue
        for prior, m in (((None,), 50), ((50,), None), ((2,), 37), ((37, None), 2)):
            check_ticks(run, a, b, m, prior)
            run.case(("H", str(a), str(b), m, prior), nontrivial=True)
            nh += 1
    run.exhaustive("(H) %d histories: ticks(p) on the same instance before ticks(m)" % nh)
    rng = run.rng
    while run.left() > 0:
        for _ in range(50):
            a, b = random_domain(rng)
            r = rng.random()
            if r < 0.1:
                all_counts(run, a, b)
            else:
                one(run, a, b, None if r < 0.2 else rng.randint(2, 50), rng.random() < 0.5)


def replay(run, inp):
    d0, d1 = inp["domain"]
    check_ticks(run, d0, d1, inp.get("m"), tuple(inp.get("prior_ticks_calls", ())))


if __name__ == "__main__":
    common.main("C16", SCOPE, explore, replay)
