"""Shared plumbing of the bounded stand-in (tier T2) drivers.

A driver runs under /venv/bin/python (the interpreter the repository is installed
in), imports the REAL code from $LABELLA_REPO (default /repo), evaluates the
property-level contract on an explicitly stated finite scope (+ seeded random
instances) and prints ONE line `T2RESULT <json>` on stdout.  It never prints a
VIOLATION line itself: ./check does, after replay and known-finding triage.

Everything a driver reports is *bounded*; it is never counted as proved.
"""
import json
import os
import random
import sys
import time
import traceback

REPO = os.environ.get("LABELLA_REPO", "/repo")
if REPO not in sys.path:
    sys.path.insert(0, REPO)


def jsonable(x):
    import datetime
    from fractions import Fraction
    if isinstance(x, (str, int, bool)) or x is None:
        return x
    if isinstance(x, float):
        if x != x or x in (float("inf"), float("-inf")):
            return repr(x)
        return x
    if isinstance(x, Fraction):
        return float(x)
    if isinstance(x, (datetime.datetime, datetime.date, datetime.time)):
        return {"$dt": x.isoformat(), "$kind": type(x).__name__}
    if isinstance(x, bytes):
        return x.decode("utf-8", "replace")
    if isinstance(x, dict):
        return {str(k): jsonable(v) for k, v in x.items()}
    if isinstance(x, (list, tuple, set, frozenset)):
        return [jsonable(v) for v in x]
    return repr(x)


def unjson(x):
    """Inverse of jsonable for the date/time wrappers (used by replays)."""
    import datetime
    if isinstance(x, dict):
        if "$dt" in x:
            k = x.get("$kind")
            if k == "datetime":
                return datetime.datetime.fromisoformat(x["$dt"])
            if k == "date":
                return datetime.date.fromisoformat(x["$dt"])
            if k == "time":
                return datetime.time.fromisoformat(x["$dt"])
        return {k: unjson(v) for k, v in x.items()}
    if isinstance(x, list):
        return [unjson(v) for v in x]
    return x


class Run(object):
    """Book-keeping of one driver run."""

    MAX_PER_CLAUSE = 3

    def __init__(self, prop, scope, argv=None):
        import argparse
        ap = argparse.ArgumentParser()
        ap.add_argument("--tier", default=os.environ.get("VERIF_TIER", "quick"))
        ap.add_argument("--seed", type=int, default=int(os.environ.get("VERIF_SEED", "0") or 0))
        ap.add_argument("--budget", type=float, default=None, help="seconds of wall clock for the sampled part")
        ap.add_argument("--replay", default=None, help="JSON file with {'input': ...}: re-evaluate just that case")
        a = ap.parse_args(argv)
        self.prop = prop
        self.scope = scope
        self.tier = a.tier
        self.seed = a.seed
        self.replay = a.replay
        self.budget = a.budget if a.budget is not None else (20.0 if a.tier == "quick" else 240.0)
        self.rng = random.Random(self.seed * 1000003 + sum(map(ord, prop)))
        self.t0 = time.time()
        self.evaluations = 0
        self.keys = set()
        self.nontrivial = 0
        self.viol = {}
        self.nviol = 0
        self.samples = []
        self.notes = []
        self.exhaustive_parts = []
        self.crash = None

    # -- accounting -------------------------------------------------------
    def left(self):
        return self.budget - (time.time() - self.t0)

    def case(self, key, nontrivial=True):
        """Count one explored case. `key` identifies it (distinctness)."""
        self.evaluations += 1
        k = key if isinstance(key, (str, int, tuple)) else json.dumps(jsonable(key), sort_keys=True)
        if k not in self.keys:
            self.keys.add(k)
            if nontrivial:
                self.nontrivial += 1
        if len(self.samples) < 3 and nontrivial and self.rng.random() < 0.05:
            self.samples.append(jsonable(key))

    def sample(self, obj):
        if len(self.samples) < 6:
            self.samples.append(jsonable(obj))

    def violation(self, clause, inp, observed, known=None):
        """Record a failed contract clause with the concrete input."""
        self.nviol += 1
        lst = self.viol.setdefault((clause, known), [])
        if len(lst) < self.MAX_PER_CLAUSE:
            lst.append({"clause": clause, "input": jsonable(inp), "observed": jsonable(observed), "known": known})

    def note(self, s):
        self.notes.append(s)

    def tolerated(self, clause):
        """A discrepancy no larger than floating-point rounding (relative 1e-9): the contracts are stated and proved in
        real arithmetic (assumption A-REAL); such cases are counted and reported, not raised."""
        self.tol = getattr(self, "tol", {})
        self.tol[clause] = self.tol.get(clause, 0) + 1

    def exhaustive(self, what):
        self.exhaustive_parts.append(what)

    GUARD_SECONDS = 20       # CPU seconds per library call; the largest layouts the drivers generate (184 labels in 92 layers) need 9 s

    def guard(self, fn, clause, inp, calls=1):
        """Run fn(); an exception is a violation of `clause` (exception freedom), and so is a call that does not return
        within GUARD_SECONDS of CPU time per library call it makes (`calls`: how many layouts/exports fn performs; a library
        call that hangs must end in a VIOLATION with its input, not in a driver timeout).  CPU time of this process, not wall
        time: the verdict must not depend on how busy the machine is (a 184-label, 92-layer layout needs 9 s of CPU)."""
        import signal

        class _Hang(BaseException):
            pass

        def on_alarm(signum, frame):
            raise _Hang()
        use_alarm = hasattr(signal, "setitimer") and signal.getsignal(signal.SIGVTALRM) in (signal.SIG_DFL, None, signal.SIG_IGN)
        old = None
        limit = self.GUARD_SECONDS * max(1, calls)
        if use_alarm:
            old = signal.signal(signal.SIGVTALRM, on_alarm)
            signal.setitimer(signal.ITIMER_VIRTUAL, limit)
        try:
            return True, fn()
        except _Hang:
            self.violation(clause, inp, "did not return within %d s of CPU time" % limit)
            self.hangs = getattr(self, "hangs", 0) + 1
            if self.hangs >= 2:
                # every further hang would cost GUARD_SECONDS: stop exploring, report what was found
                self.note("exploration stopped after %d calls that did not return" % self.hangs)
                raise StopExploring()
            return False, None
        except RecursionError as e:
            self.violation(clause, inp, "RecursionError", known=None)
            return False, None
        except Exception as e:  # noqa
            self.violation(clause, inp, "%s: %s" % (type(e).__name__, str(e)[:200]))
            return False, None
        finally:
            if use_alarm:
                signal.setitimer(signal.ITIMER_VIRTUAL, 0)
                signal.signal(signal.SIGVTALRM, old if old is not None else signal.SIG_DFL)

    def finish(self):
        out = {
            "property": self.prop,
            "scope": self.scope,
            "tier": self.tier,
            "seed": self.seed,
            "evaluations": self.evaluations,
            "distinct_nontrivial": self.nontrivial,
            "violations": [v for lst in self.viol.values() for v in lst],
            "violation_count": self.nviol,
            "samples": self.samples[:6],
            "notes": self.notes + (["float-rounding-level discrepancies tolerated (A-REAL): %s" % getattr(self, "tol")]
                                   if getattr(self, "tol", None) else []),
            "exhaustive_parts": self.exhaustive_parts,
            "wall_s": round(time.time() - self.t0, 2),
            "repo": REPO,
        }
        sys.stdout.write("T2RESULT " + json.dumps(out) + "\n")
        sys.stdout.flush()


class StopExploring(BaseException):
    """raised by Run.guard to end a driver run early (after repeated hangs); the results so far are reported"""


def main(prop, scope, body, replay_fn=None):
    """Entry point helper: body(run) explores; replay_fn(run, input) re-evaluates one case."""
    run = Run(prop, scope)
    try:
        if run.replay:
            inp = unjson(json.load(open(run.replay)).get("input"))
            if replay_fn is None:
                run.note("driver has no replay function")
            else:
                replay_fn(run, inp)
        else:
            body(run)
    except StopExploring:
        pass
    except Exception:  # a crash of the driver is a checker fault, not a violation
        sys.stdout.write("T2CRASH " + json.dumps({"property": prop, "trace": traceback.format_exc()[-2000:]}) + "\n")
        sys.exit(3)
    run.finish()
