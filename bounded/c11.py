"""T2 driver for C11 (bounded): constructing + exporting (SVG / TikZ text) succeeds on every documented input.

Oracle (from the statement):
  C11.exception   TimelineSVG/TimelineTex(data[, options]).export() raises nothing.  export() is always called without
                  a file name and every datum carries an explicit width, so nothing is written or compiled.
  C11.degenerate  a degenerate time domain (one datum, or all times equal, and no explicit options["domain"]) puts every
                  dot at coordinate 0 of the axis; read back from the document itself (XML parse of the SVG dot layer,
                  regex over the TikZ "% dots" scope).
Out of the claim (not generated): datetime.time values (D14), conflict clusters of more than 200 labels (D13: a data
set of <= 200 labels can never have one; larger data sets are built so that every cluster is <= 200 by construction).
A RecursionError inside the claim is a violation like any other exception.
"""
import copy
import datetime
import itertools
import re
import sys
import traceback
from xml.etree import ElementTree

from . import common  # sets sys.path: keep before the labella imports
from labella.scale import LinearScale, TimeScale  # noqa: E402
from labella.timeline import TimelineSVG, TimelineTex  # noqa: E402

D = datetime.date
DT = datetime.datetime
TD = datetime.timedelta

SCOPE = ("calendar matrix: 15 anchors (29th-31st, leap days, year ends, epoch) x 29 spans 1 ms..400 y x "
         "{datetime, date, mixed date+datetime} x options {omitted, {}, direction} (quick: rotated; thorough: product) x "
         "{SVG, TikZ}; option matrix: 13 base shapes (single datum, equal times, unsorted, ms / month-end / century spans, "
         "numeric times with LinearScale incl. degenerate) x {omitted, {}, direction(4) x algorithm(3) x bounds(4) x "
         "showTicks(2)} x {SVG, TikZ}; large: 300 labels / 120-label cluster (thorough: + 1000 / 200) and dense "
         "multi-layer sets; then seeded random data sets (<= 200 labels, spans 1 ms..500 y, years 1600-2300; bounded "
         "'overlap' layouts needing several layers cut to 50/90 labels for time) and options until the time budget")

DIRS = ["right", "up", "left", "down"]
ALGS = ["overlap", "simple", "none"]
BOUNDS = [None, {"minPos": None, "maxPos": None}, {"minPos": 0, "maxPos": 360}, {"minPos": -40, "maxPos": 140}]


# ----------------------------------------------------------------------------
# cases: JSON-able descriptions -> timelines
# ----------------------------------------------------------------------------
def materialize(case):
    return gen_clusters(case["gen"])[0] if "gen" in case else case["data"]


def build(case):
    """Every object handed to the library is new; options None means: call without options."""
    data = [dict(d) for d in materialize(case)]
    opts = copy.deepcopy(case.get("options"))
    kind = case.get("scale", "default")
    if kind != "default":
        opts = {} if opts is None else opts
        opts["scale"] = TimeScale() if kind == "time" else LinearScale()
    cls = TimelineSVG if case.get("backend", "svg") == "svg" else TimelineTex
    return cls(data) if opts is None else cls(data, opts)


def norm_time(t):
    if isinstance(t, DT):
        return t
    if isinstance(t, D):
        return DT(t.year, t.month, t.day)
    return t


def is_degenerate(case):
    if (case.get("options") or {}).get("domain"):
        return False
    ts = {norm_time(d["time"]) for d in materialize(case)}
    return len(ts) == 1


def direction_of(case):
    return (case.get("options") or {}).get("direction", "right")


def dot_coordinates(case, doc):
    """Positions of the dots along the axis, read from the exported document."""
    along_x = direction_of(case) in ("up", "down")
    out = []
    if case.get("backend", "svg") == "svg":
        root = ElementTree.fromstring(doc)
        for g in root.iter("g"):
            if g.get("class") == "dot-layer":
                for c in g.iter("circle"):
                    out.append(float(c.get("cx" if along_x else "cy")))
    else:
        tail = doc.split("% dots", 1)[1]
        for m in re.finditer(r"at \(([-+0-9.eE]+|nan|inf|-inf), ([-+0-9.eE]+|nan|inf|-inf)\) \{\};", tail):
            out.append(float(m.group(1) if along_x else m.group(2)))
    return out


def signature(e):
    site = "?"
    for fs in traceback.extract_tb(e.__traceback__):
        if "/labella/" in fs.filename:
            site = "%s:%s" % (fs.filename.rsplit("/", 1)[1], fs.name)
    return "%s@%s" % (type(e).__name__, site)


def check_case(run, case, nontrivial=True, key=None):
    run.case(key if key is not None else case, nontrivial=nontrivial)
    try:
        doc = build(case).export()
    except Exception as e:  # noqa  (RecursionError included: inside the claim it is a violation)
        sig = signature(e)
        seen = run.__dict__.setdefault("c11_sigs", {})
        seen[sig] = seen.get(sig, 0) + 1
        if seen[sig] <= 1 or run.replay:
            # one record per failure site, the first (= smallest enumerated) input; the rest is counted in a note
            run.violation("C11.exception", case, {"signature": sig, "message": str(e)[:200]})
        return None
    if is_degenerate(case):
        try:
            dots = dot_coordinates(case, doc)
        except Exception as e:  # noqa
            run.violation("C11.degenerate", case, "document not readable: %s" % e)
            return doc
        n = len(materialize(case))
        bad = [x for x in dots if not abs(x) <= 1e-9]
        if bad or len(dots) != n:
            run.violation("C11.degenerate", case, {"dots": dots[:10], "expected": "%d dots at 0" % n})
    return doc


def both(run, case, nontrivial=True):
    for be in ("svg", "tex"):
        c = dict(case, backend=be)
        check_case(run, c, nontrivial=nontrivial)


# ----------------------------------------------------------------------------
# large data sets with conflict clusters of a known size
# ----------------------------------------------------------------------------
def gen_clusters(p):
    """n labels of width w: clusters (sizes p['clusters']) of labels at (almost) one time, the other labels on a grid
    too sparse to conflict and outside the zone a spread cluster occupies -> every conflict cluster has exactly the
    stated size.  One axis unit per time unit (numbers) or per second (datetimes); returns (data, axis length)."""
    import random
    n, w, ns = p["n"], p.get("w", 4), p.get("ns", 3)
    per = w + 4 + ns  # label + padding + spacing
    pitch = 2 * per
    jitter = p.get("jitter", 0)
    clusters = list(p["clusters"])
    grid = n - sum(clusters)
    assert grid >= 0 and all(k <= 200 for k in clusters)
    share = grid // (len(clusters) + 1)
    xs = []
    x = pitch
    for k in clusters:
        for _ in range(share):
            xs.append(x)
            x += pitch
        half = k * per / 2.0 + jitter + 2 * per
        c = x + half
        xs.extend(c + ((j % (jitter + 1)) if jitter else 0) for j in range(k))
        x = c + half + pitch
    while len(xs) < n:
        xs.append(x)
        x += pitch
    L = x + pitch
    random.Random(p.get("shuffle", 1)).shuffle(xs)
    if p.get("kind", "linear") == "linear":
        data = [{"time": float(v), "width": w} for v in xs]
    else:
        t0 = DT(2016, 2, 28, 22, 0, 0)
        data = [{"time": t0 + TD(seconds=float(v)), "width": w} for v in xs]
    return data, L


def cluster_case(p, direction, algorithm, bounded):
    data, L = gen_clusters(p)
    n, w, ns = p["n"], p.get("w", 4), p.get("ns", 3)
    lab = {"algorithm": algorithm, "nodeSpacing": ns}
    if bounded:
        need = n * (w + 4) + (n - 1) * ns
        assert need <= 0.85 * L  # one layer: the cluster sizes stay what they are
        lab.update({"minPos": 0, "maxPos": L})
    opts = {"direction": direction, "labella": lab}
    opts["initialWidth" if direction in ("up", "down") else "initialHeight"] = int(L) + 40
    if p.get("kind", "linear") == "linear":
        opts["domain"] = [0, int(L)]
        scale = "linear"
    else:
        t0 = DT(2016, 2, 28, 22, 0, 0)
        opts["domain"] = [t0, t0 + TD(seconds=int(L))]
        scale = "default"
    return {"gen": p, "options": opts, "scale": scale}


# ----------------------------------------------------------------------------
# enumerated scope
# ----------------------------------------------------------------------------
ANCHORS = [DT(2015, 1, 29), DT(2015, 1, 30), DT(2015, 1, 31), DT(2015, 3, 31, 17, 45), DT(2015, 5, 31),
           DT(2015, 8, 31, 23, 59, 59, 999000), DT(2015, 10, 31), DT(2015, 12, 31, 23, 59, 59, 993000), DT(2016, 2, 29),
           DT(2016, 2, 28, 23, 59, 59, 995000), DT(2000, 2, 29, 12), DT(1900, 2, 28), DT(2015, 3, 14, 9, 26, 53, 589000),
           DT(1969, 12, 31, 23, 59, 59, 996000), DT(1799, 12, 31)]
DAY = 86400000
SPANS_MS = [1, 2, 5, 7, 8, 9, 10, 33, 50, 999, 1000, 30000, 60000, 17 * 60000, 3600000, 6 * 3600000, DAY - 1, DAY,
            2 * DAY, 7 * DAY, 30 * DAY, 31 * DAY, 90 * DAY, 365 * DAY, 366 * DAY, 3652 * DAY, 36524 * DAY, 91311 * DAY,
            146097 * DAY]


def three_times(t0, span_ms, kind, unsorted):
    ts = [t0, t0 + TD(milliseconds=span_ms // 3), t0 + TD(milliseconds=span_ms)]
    if kind == "date":
        ts = [t.date() for t in ts]
    elif kind == "mixed":
        ts = [ts[0].date(), ts[1], ts[2].date()]
    if unsorted:
        ts = [ts[2], ts[0], ts[1]]
    return [{"time": t, "width": 30 + 7 * k, "text": "e%d" % k} for k, t in enumerate(ts)]


def calendar_matrix(run):
    quick = run.tier == "quick"
    j = 0
    for a in ANCHORS:
        for span in SPANS_MS:
            kinds = ["datetime"] + (["date", "mixed"] if span >= DAY else [])
            for kind in kinds:
                j += 1
                data = three_times(a, span, kind, unsorted=bool(j % 2))
                if quick:
                    modes = [[None, {}, {"direction": DIRS[(j // 3) % 4]}][j % 3]]
                else:
                    modes = [None, {}] + [{"direction": d} for d in DIRS]
                for o in modes:
                    both(run, {"data": data, "options": o, "scale": "default"})
    run.exhaustive("calendar matrix: %d anchors x %d spans x kinds, options %s" %
                   (len(ANCHORS), len(SPANS_MS), "rotated" if quick else "omitted, {}, 4 directions"))


def base_shapes():
    S = []

    def add(name, times, scale="default", w=40, text=True):
        data = []
        for k, t in enumerate(times):
            d = {"time": t, "width": w + 3 * (k % 4)}
            if text:
                d["text"] = "%s%d" % (name, k)
            data.append(d)
        S.append((name, data, scale))
    add("one_date", [D(2015, 1, 31)])
    add("one_dt", [DT(2016, 2, 29, 13, 7, 5, 250000)], text=False)
    add("eq_dt", [DT(2015, 12, 31, 23, 59, 59)] * 3)
    add("eq_mixed", [D(2016, 2, 29), DT(2016, 2, 29), D(2016, 2, 29)])
    add("unsorted", [DT(2015, 7, 4, 12), DT(2015, 1, 31), DT(2015, 12, 31, 23, 59), DT(2015, 1, 31), DT(2015, 3, 30, 8),
                     DT(2015, 2, 28)])
    add("ms", [DT(2015, 6, 1, 0, 0, 0, 4000), DT(2015, 6, 1, 0, 0, 0, 0), DT(2015, 6, 1, 0, 0, 0, 8000)])
    add("month_end", [D(2015, 1, 31), D(2015, 3, 31), D(2015, 2, 28), D(2015, 1, 29)])
    add("centuries", [D(1712, 2, 29), D(2015, 12, 31), D(1800, 2, 28), D(1900, 3, 1), D(1999, 12, 31)])
    add("ints", [7, 0, 3, 3, 12, -5], scale="linear")
    add("floats", [0.5012, 0.5004, 0.5009], scale="linear", text=False)
    add("one_num", [5.0], scale="linear")
    add("eq_num", [42, 42, 42], scale="linear", text=False)
    t0 = DT(2016, 2, 27, 6)
    add("dense", [t0 + TD(hours=(k * k * 7) % 90, minutes=13 * k) for k in range(14)], w=26)
    return S


def option_matrix(run):
    n = 0
    for name, data, scale in base_shapes():
        plain = [None, {}] if scale == "default" else [{}]  # a caller-supplied scale needs an options dict
        for o in plain:
            both(run, {"data": data, "options": o, "scale": scale})
        for d, alg, b, ticks in itertools.product(DIRS, ALGS, BOUNDS, (True, False)):
            lab = {"algorithm": alg}
            if b is not None:
                lab.update(b)
            both(run, {"data": data, "options": {"direction": d, "labella": lab, "showTicks": ticks}, "scale": scale})
            n += 1
        if run.left() < run.budget * 0.2:
            run.note("option matrix cut by the time budget after shape %s" % name)
            return
    run.exhaustive("option matrix: %d shapes x ({omitted, {}} + 4 directions x 3 algorithms x 4 bounds x ticks on/off)"
                   % len(base_shapes()))


def large_sets(run):
    quick = run.tier == "quick"
    plans = [({"n": 300, "clusters": [120], "kind": "linear"}, "up", "overlap", False),
             ({"n": 300, "clusters": [120], "kind": "datetime", "jitter": 5}, "right", "overlap", True),
             ({"n": 300, "clusters": [120, 60], "kind": "linear", "jitter": 3}, "left", "none", False),
             ({"n": 300, "clusters": [120], "kind": "datetime"}, "down", "simple", True)]
    if not quick:
        plans += [({"n": 1000, "clusters": [200], "kind": "linear"}, "up", "overlap", False),
                  ({"n": 1000, "clusters": [200, 200, 150], "kind": "datetime", "jitter": 6}, "right", "overlap", True),
                  ({"n": 1000, "clusters": [200], "kind": "linear", "jitter": 2}, "down", "simple", True),
                  ({"n": 1000, "clusters": [200, 100], "kind": "datetime"}, "left", "none", False),
                  ({"n": 600, "clusters": [199, 200], "kind": "linear", "w": 11, "ns": 0}, "up", "overlap", False)]
    for p, d, alg, bounded in plans:
        both(run, cluster_case(p, d, alg, bounded))
    # dense sets that need several layers (<= 200 labels: no cluster can exceed 200)
    t0 = DT(2016, 2, 27, 6)
    for n, mx in ((60, 200),) if quick else ((60, 200), (90, 300), (200, 6000)):
        data = [{"time": t0 + TD(hours=(k * k * 7) % 190, minutes=7 * k), "width": 20 + (k % 3) * 8, "text": "x%d" % k}
                for k in range(n)]
        for d, alg in (("up", "overlap"), ("right", "simple")):
            both(run, {"data": data, "scale": "default",
                       "options": {"direction": d, "labella": {"algorithm": alg, "maxPos": mx}}})
    run.exhaustive("large sets: %s" % ", ".join("%d labels/clusters %s" % (p["n"], p["clusters"]) for p, _, _, _ in plans))


# ----------------------------------------------------------------------------
# random data sets
# ----------------------------------------------------------------------------
def log_span_ms(rng):
    lo, hi = 0.0, 13.2  # 10**13.2 ms ~ 500 years
    return max(1, int(10 ** rng.uniform(lo, hi)))


def rand_anchor(rng):
    y = rng.choice([rng.randint(1600, 2290), rng.choice([1900, 2000, 2015, 2016, 1970, 1999])])
    m = rng.randint(1, 12)
    last = (D(y + (m == 12), m % 12 + 1, 1) - TD(days=1)).day
    day = rng.choice([rng.randint(1, last), last, last - 1, min(29, last), 1])
    if rng.random() < 0.4:
        return DT(y, m, day)
    return DT(y, m, day, rng.randint(0, 23), rng.randint(0, 59), rng.randint(0, 59), rng.choice([0, 0, 999000, rng.randint(0, 999) * 1000]))


def rand_case(rng):
    kind = rng.choice(["datetime", "datetime", "date", "mixed", "linear"])
    n = rng.choice([1, 1, 2, 3, 4, 6, 10, 17, 30, 60, rng.randint(61, 200)])
    if kind == "linear":
        lo = rng.choice([0, -1000, 0.001, 1e6, 1955])
        span = 10 ** rng.uniform(-6, 9)
        integral = rng.random() < 0.3
        mk = lambda u: (int(round(lo + u * span)) if integral else lo + u * span)  # noqa: E731
    else:
        a = rand_anchor(rng)
        span = log_span_ms(rng)
        if kind != "datetime":
            span = max(span, DAY)
        span = min(span, int((DT(2300, 1, 1) - a) / TD(milliseconds=1)))
        mk = lambda u: a + TD(milliseconds=int(u * span))  # noqa: E731
    shape = rng.random()
    if shape < 0.15:
        us = [0.0] * n  # all equal
    elif shape < 0.45:
        c = rng.random()
        us = [min(1.0, max(0.0, c + rng.uniform(-0.02, 0.02))) for _ in range(n)]  # one dense group
    elif shape < 0.6:
        pts = [rng.random() for _ in range(3)]
        us = [rng.choice(pts) for _ in range(n)]  # few distinct times, many duplicates
    else:
        us = [rng.random() for _ in range(n)]
    if n > 1 and rng.random() < 0.5:
        us[rng.randrange(n)] = 0.0
        us[rng.randrange(n)] = 1.0
    ts = [mk(u) for u in us]
    if kind == "date":
        ts = [t.date() for t in ts]
    elif kind == "mixed":
        ts = [t.date() if rng.random() < 0.5 else t for t in ts]
    wide = rng.random() < 0.3
    data = []
    for k, t in enumerate(ts):
        d = {"time": t, "width": rng.choice([1, 8, 20, 35.5, 80]) if wide else rng.choice([5, 12, 20])}
        if rng.random() < 0.5:
            d["text"] = "r%d" % k
        data.append(d)
    scale = "linear" if kind == "linear" else rng.choice(["default", "default", "time"])
    mode = rng.random()
    if mode < 0.12 and scale == "default":
        options = None
    elif mode < 0.24:
        options = {}
    else:
        options = {}
        if rng.random() < 0.8:
            options["direction"] = rng.choice(DIRS)
        if rng.random() < 0.8:
            lab = {}
            if rng.random() < 0.7:
                lab["algorithm"] = rng.choice(ALGS)
            r = rng.random()
            big = n > 60
            if r < 0.25:
                lab["maxPos"] = rng.choice([360, 600, 1500] if big else [60, 140, 360, 1500])
            elif r < 0.45:
                lab["minPos"] = rng.choice([0, -100, 40])
                lab["maxPos"] = lab["minPos"] + rng.choice([400, 900] if big else [50, 200, 400])
            elif r < 0.6:
                lab["minPos"] = None
                lab["maxPos"] = rng.choice([None, 500 if big else 100])
            for nm, vals in (("nodeSpacing", [0, 1, 3, 10]), ("lineSpacing", [0, 2, 6]), ("density", [0.4, 0.85, 1.0]),
                             ("stubWidth", [0, 1, 2])):
                if rng.random() < 0.25:
                    lab[nm] = rng.choice(vals)
            options["labella"] = lab
        for nm, vals in (("showTicks", [False, True]), ("initialWidth", [150, 400, 1200]), ("initialHeight", [150, 700]),
                         ("layerGap", [0, 25, 100]), ("dotRadius", [0, 4]), ("showBorder", [True]),
                         ("margin", [{"left": 0, "right": 0, "top": 0, "bottom": 0}, {"left": 55, "right": 5, "top": 30, "bottom": 1}])):
            if rng.random() < 0.2:
                options[nm] = rng.choice(vals)
    return {"data": data, "options": options, "scale": scale}


def trim_for_time(case, cap):
    """Budget control only (not part of the oracle): the 'overlap' layering of a bounded axis that needs many layers
    costs ~n**4, so such data sets are cut to `cap` labels."""
    lab = (case["options"] or {}).get("labella", {})
    if len(case["data"]) <= cap or lab.get("algorithm", "overlap") != "overlap":
        return case
    if lab.get("maxPos") is None or lab.get("minPos", 0) is None:
        return case
    ns = lab.get("nodeSpacing", 3)
    need = sum(d["width"] + 4 + ns for d in case["data"])
    if need > 0.4 * (lab["maxPos"] - lab.get("minPos", 0)):
        case = dict(case, data=case["data"][:cap])
    return case


def explore_random(run):
    n = 0
    cap = 50 if run.tier == "quick" else 90
    while run.left() > 0:
        case = trim_for_time(rand_case(run.rng), cap)
        both(run, case)
        n += 1
    run.note("random: %d data sets" % n)


# ----------------------------------------------------------------------------
def body(run):
    t = run.left()
    calendar_matrix(run)
    option_matrix(run)
    large_sets(run)
    run.note("enumerated part: %d cases, %.1f s" % (run.evaluations, t - run.left()))
    explore_random(run)
    seen = run.__dict__.get("c11_sigs", {})
    for sig, k in sorted(seen.items()):
        run.note("C11.exception at %s: %d cases in total (first one recorded)" % (sig, k))


def replay(run, inp):
    check_case(run, inp)


if __name__ == "__main__":
    common.main("C11", SCOPE, body, replay)
