"""T2 driver for C12 (bounded): the linear scale is the affine map through its domain and range end points.

Oracle (from the statement; exact rationals for the affine map):
  points    scale(a) == r0 and scale(b) == r1 exactly; scale(x) = r0 + (x-a)/(b-a)*(r1-r0) to 1e-9 of the range
            magnitude (times 1+|t| outside the domain, t=(x-a)/(b-a)); strictly monotone (the sign of every difference
            that exceeds the tolerance is the sign of (r1-r0)/(b-a), no reversal beyond the tolerance); invert(scale(x)) ~ x
            and scale(invert(y)) ~ y to 1e-9 of the domain/range magnitude (amplified by magnitude/span of the
            intermediate interval: that is the float error of the round trip, not of the code);
  clamp     with clamp(True) every output lies in [min(r0,r1), max(r0,r1)] and equals the unclamped output for x inside
            the domain;
  history   after every call of a sequence of domain/range/clamp/nice/copy calls on a scale and its copies, EVERY live
            scale maps the end points of the domain it reports to the end points of the range it reports (==), behaves as
            the affine/clamped map of what it reports (clamp on or off), and no scale other than the receiver of a
            mutating call changes its observable state (domain(), range(), clamp(), mapped probe values); copy() changes
            nobody and yields an equal, independent scale.
"""
import itertools
import math
from fractions import Fraction as Fr

from . import common  # noqa: F401  (sets sys.path)
from labella.scale import LinearScale

SCOPE = ("points: all ordered pairs a != b of 19 (quick) / 27 (thorough) signed values (0, 1e-6 .. 1e9) as domains x 12 ranges "
         "(either order, tiny/huge/offset) x up to 15 probe points (ends, interior, one ulp inside/outside, outside, far outside; |x| in {0} u [1e-6,1e9]), unclamped and clamped; "
         "histories: ALL call sequences of length <= 3 (quick) / <= 4 (thorough) over the alphabet {domain x3, range x2, "
         "clamp(True), clamp(False), nice(), nice(3), copy()} x every live receiver, from a scale with a non-round domain; "
         "then seeded random points and random histories of length <= 12 until the time budget")

REL = 1e-9
# id of the listed known finding (if any) for clamped outputs that leave the range by no more than float rounding
# (r0*(1-t) + r1*t evaluated in floats can exceed an end of the range by an ulp for t in (0,1), clamped or not)
ROUNDING_FINDING = None

VALS_QUICK = [1e-6, 0.001, 0.3, 1.0, 7.0, 100.0, 12345.678, 1e6, 1e9]
VALS_THOROUGH = VALS_QUICK + [2.5e-6, 0.5, 3.0, 999.999]
RANGES = [[0, 1], [1, 0], [0, 960], [960.0, 0.0], [500.0, -500.0], [-1e9, 1e9], [1e-6, 2e-6], [1e9, 1e9 - 1.0], [10.5, 11.25],
          [-3.0, -0.001], [0.0, -1e-6], [123456.789, 1e-6]]


def signed(vals):
    return [0.0] + [s * v for v in vals for s in (1, -1)]


def x_ok(x):
    """The quantifier's x: finite, magnitude 0 or 1e-6..1e9."""
    return x == 0 or 1e-6 <= abs(x) <= 1e9


def probes(a, b):
    lo, hi = min(a, b), max(a, b)
    span = hi - lo
    pts = [a, b, lo + span / 2, lo + span / 3, lo + span * 0.9, math.nextafter(lo, math.inf), math.nextafter(hi, -math.inf),
           math.nextafter(lo, -math.inf), math.nextafter(hi, math.inf), lo - span / 4, hi + span / 4, lo - 3 * span, hi + 10 * span,
           0.0, 1e9 if hi < 1e9 else -1e9]
    return [p for p in pts if x_ok(p)]


# ----------------------------------------------------------------------------
# the exact affine map
# ----------------------------------------------------------------------------
class Affine(object):
    def __init__(self, a, b, r0, r1):
        self.a, self.b, self.r0, self.r1 = Fr(a), Fr(b), Fr(r0), Fr(r1)
        self.dspan = self.b - self.a
        self.rspan = self.r1 - self.r0
        self.dmag = max(abs(self.a), abs(self.b), abs(self.dspan))
        self.rmag = max(abs(self.r0), abs(self.r1), abs(self.rspan))

    def t(self, x):
        return (Fr(x) - self.a) / self.dspan

    def y(self, x):
        return self.r0 + self.t(x) * self.rspan

    def ytol(self, x):
        return Fr(REL) * self.rmag * (1 + abs(self.t(x)))

    def x_of(self, y):
        return self.a + (Fr(y) - self.r0) / self.rspan * self.dspan


def check_points(run, a, b, r0, r1, xs, tag="C12", inp_extra=None):
    """The input/output clauses on a fresh scale with domain [a,b], range [r0,r1]."""
    inp = {"kind": "points", "domain": [a, b], "range": [r0, r1], "xs": xs}
    if inp_extra:
        inp.update(inp_extra)
    ok, s = run.guard(lambda: LinearScale().domain([a, b]).range([r0, r1]), tag + ".exception", inp)
    if not ok:
        return
    ok, c = run.guard(lambda: LinearScale().domain([a, b]).range([r0, r1]).clamp(True), tag + ".exception", inp)
    if not ok:
        return
    A = Affine(a, b, r0, r1)

    def ev():
        return ([s(x) for x in xs], [s.scale(x) for x in xs], [c(x) for x in xs], s(a), s(b), c(a), c(b))

    ok, res = run.guard(ev, tag + ".exception", inp)
    if not ok:
        return
    ys, ys2, cs, ya, yb, ca, cb = res
    # end points, exactly
    if not (ya == r0 and yb == r1):
        run.violation(tag + ".endpoints", inp, {"scale(a)": ya, "scale(b)": yb})
    if not (ca == r0 and cb == r1):
        run.violation(tag + ".endpoints.clamped", inp, {"scale(a)": ca, "scale(b)": cb})
    if ys != ys2:
        run.violation(tag + ".call_vs_scale", inp, {"call": ys, "scale": ys2})
    # affine
    exact = [A.y(x) for x in xs]
    tols = [A.ytol(x) for x in xs]
    for x, y, e, tol in zip(xs, ys, exact, tols):
        if not (isinstance(y, (int, float)) and math.isfinite(y)) or abs(Fr(y) - e) > tol:
            run.violation(tag + ".affine", inp, {"x": x, "got": y, "exact": float(e), "tol": float(tol)})
            break
    # strictly monotone
    order = sorted(range(len(xs)), key=lambda i: xs[i])
    up = (A.rspan > 0) == (A.dspan > 0)
    for i, j in zip(order, order[1:]):
        if xs[i] == xs[j]:
            continue
        if not all(isinstance(v, (int, float)) and math.isfinite(v) for v in (ys[i], ys[j])):
            break
        d = Fr(ys[j]) - Fr(ys[i])
        de = exact[j] - exact[i]
        tol = tols[i] + tols[j]
        strict_needed = abs(de) > tol
        wrong = (d <= 0) if up else (d >= 0)
        if (strict_needed and wrong) or (not strict_needed and ((d < -tol) if up else (d > tol))):
            run.violation(tag + ".monotone", inp, {"x1": xs[i], "x2": xs[j], "y1": ys[i], "y2": ys[j], "increasing": up})
            break
    # invert is the inverse
    def inv():
        return [s.invert(y) for y in ys], [s(s.invert(y)) for y in ys]

    ok, res = run.guard(inv, tag + ".exception", inp)
    if ok:
        back, fwd = res
        for x, y, xb, yf in zip(xs, ys, back, fwd):
            amp = 1 + abs(A.t(x))
            tolx = Fr(REL) * amp * (A.dmag + abs(A.dspan) * A.rmag / abs(A.rspan))
            if not math.isfinite(xb) or abs(Fr(xb) - Fr(x)) > tolx:
                run.violation(tag + ".invert_scale", inp, {"x": x, "scale(x)": y, "invert(scale(x))": xb, "tol": float(tolx)})
                break
            toly = Fr(REL) * amp * (A.rmag + abs(A.rspan) * A.dmag / abs(A.dspan)) + Fr(REL) * amp * A.rmag
            if not math.isfinite(yf) or abs(Fr(yf) - Fr(y)) > toly:
                run.violation(tag + ".scale_invert", inp, {"y": y, "invert(y)": xb, "scale(invert(y))": yf, "tol": float(toly)})
                break
    # clamping
    rlo, rhi = min(r0, r1), max(r0, r1)
    lo, hi = min(a, b), max(a, b)
    for x, y, cy in zip(xs, ys, cs):
        if not (isinstance(cy, (int, float)) and rlo <= cy <= rhi):
            out_by = (rlo - cy) if cy < rlo else (cy - rhi)
            small = isinstance(cy, (int, float)) and out_by <= REL * float(A.rmag)
            if small:
                run.tolerated(tag + ".clamp.range.rounding")
                continue
            run.violation(tag + ".clamp.range", inp,
                          {"x": x, "clamped": cy, "range": [r0, r1], "outside_by": out_by, "inside_domain": lo <= x <= hi})
            break
        if lo <= x <= hi and cy != y:
            run.violation(tag + ".clamp.inside", inp, {"x": x, "clamped": cy, "unclamped": y})
            break


def one_points(run, a, b, r0, r1, xs):
    run.case(("P", a, b, r0, r1))
    check_points(run, a, b, r0, r1, xs)


# ----------------------------------------------------------------------------
# histories
# ----------------------------------------------------------------------------
START = [["domain", [0.13, 9.71]], ["range", [10.0, 500.0]]]
ALPHABET = [["domain", [-3.7, 12.25]], ["domain", [1000.5, 0.13]], ["domain", [2.5e-6, 1.1e-6]],
            ["range", [0, 960]], ["range", [50.5, -20.0]],
            ["clamp", True], ["clamp", False], ["nice", None], ["nice", 3], ["copy", None]]


def apply_call(pool, recv, op, arg):
    s = pool[recv]
    if op == "domain":
        s.domain(list(arg))
    elif op == "range":
        s.range(list(arg))
    elif op == "clamp":
        s.clamp(arg)
    elif op == "nice":
        if arg is None:
            s.nice()
        else:
            s.nice(arg)
    elif op == "copy":
        pool.append(s.copy())
    else:
        raise ValueError(op)


def probe_points(d):
    a, b = d[0], d[-1]
    lo, hi = min(a, b), max(a, b)
    span = hi - lo
    return [x for x in [a, b, lo + span * 0.25, lo + span * 0.75, lo - span * 0.5, hi + span * 2, 0.0, 1.0, -1000.0, 31.7] if x_ok(x)]


FIXED_PROBES = [0.0, 1.0, -1000.0, 31.7, 0.5, 2e-6, 640.0]


def snapshot(s):
    d = list(s.domain())
    r = list(s.range())
    return (d, r, s.clamp(), [s(x) for x in FIXED_PROBES + d], [s.invert(y) for y in (0.0, 1.0, 100.0, -7.5)])


def check_live(run, s, inp, idx):
    """A live scale behaves as the (clamped) affine map of the domain/range/clamp it REPORTS."""
    d = list(s.domain())
    r = list(s.range())
    cl = s.clamp()
    if len(d) != 2 or len(r) != 2:
        run.violation("C12.history.shape", inp, {"scale": idx, "domain": d, "range": r})
        return
    a, b = d
    r0, r1 = r
    obs = {"scale": idx, "domain": d, "range": r, "clamp": cl}
    if not (all(isinstance(v, (int, float)) and math.isfinite(v) for v in d) and a != b):
        run.violation("C12.history.degenerate", inp, obs)
        return
    ya, yb = s(a), s(b)
    if not (ya == r0 and yb == r1):
        run.violation("C12.history.endpoints", inp, dict(obs, **{"scale(a)": ya, "scale(b)": yb}))
        return
    A = Affine(a, b, r0, r1)
    rlo, rhi = min(r0, r1), max(r0, r1)
    lo, hi = min(a, b), max(a, b)
    for x in probe_points(d):
        y = s(x)
        inside = lo <= x <= hi
        if not (isinstance(y, (int, float)) and math.isfinite(y)):
            run.violation("C12.history.affine", inp, dict(obs, x=x, got=y))
            return
        if cl and not (rlo <= y <= rhi):
            out_by = (rlo - y) if y < rlo else (y - rhi)
            small = out_by <= REL * float(A.rmag)
            if small:
                run.tolerated("C12.history.clamp_range.rounding")
            else:
                run.violation("C12.history.clamp_range", inp, dict(obs, x=x, got=y, outside_by=out_by, inside_domain=inside))
                return
        if (inside or not cl) and abs(Fr(y) - A.y(x)) > A.ytol(x):
            # (a scale that reports clamp() False must not clamp: it is the affine map beyond the domain too)
            run.violation("C12.history.affine", inp, dict(obs, x=x, got=y, expected=float(A.y(x))))
            return


def run_history(run, start, calls, check_from=0):
    """Replays `calls` ([receiver, op, arg]) on a pool started by `start`; checks after each call from index check_from.

    Returns False if a call was not applicable (receiver does not exist)."""
    inp = {"kind": "history", "start": start, "calls": calls}
    pool = [LinearScale()]
    for op, arg in start:
        apply_call(pool, 0, op, arg)
    for k, (recv, op, arg) in enumerate(calls):
        if recv >= len(pool):
            return False
        checking = k >= check_from
        if checking:
            ok, before = run.guard(lambda: [snapshot(s) for s in pool], "C12.history.exception", dict(inp, at=k))
            if not ok:
                return True
        ok, _ = run.guard(lambda: apply_call(pool, recv, op, arg), "C12.history.exception", dict(inp, at=k))
        if not ok:
            return True
        if not checking:
            continue
        ok, after = run.guard(lambda: [snapshot(s) for s in pool], "C12.history.exception", dict(inp, at=k))
        if not ok:
            return True
        for j in range(len(before)):
            if (j != recv or op == "copy") and before[j] != after[j]:
                run.violation("C12.history.isolation", inp,
                              {"call": k, "receiver": recv, "op": [op, arg], "changed_scale": j, "before": before[j], "after": after[j]})
                return True
        if op == "copy" and after[-1] != before[recv]:
            run.violation("C12.history.copy_equal", inp, {"call": k, "original": before[recv], "copy": after[-1]})
            return True
        # the receiver reports what it was given
        s = pool[recv]
        if op == "domain" and list(s.domain()) != [float(v) for v in arg]:
            run.violation("C12.history.reports", inp, {"call": k, "op": [op, arg], "domain()": list(s.domain())})
        if op == "range" and list(s.range()) != list(arg):
            run.violation("C12.history.reports", inp, {"call": k, "op": [op, arg], "range()": list(s.range())})
        if op == "clamp" and s.clamp() != arg:
            run.violation("C12.history.reports", inp, {"call": k, "op": [op, arg], "clamp()": s.clamp()})
        linp = dict(inp, at=k)
        for j, sc in enumerate(pool):
            ok, _ = run.guard(lambda: check_live(run, sc, linp, j), "C12.history.exception", linp)
    return True


def enumerate_histories(run, depth):
    """All sequences of length <= depth; each node replays its prefix from scratch and checks its last call."""
    n = 0

    def rec(prefix, pool_size):
        nonlocal n
        if len(prefix) == depth:
            return True
        for recv in range(pool_size):
            for op, arg in ALPHABET:
                calls = prefix + [[recv, op, arg]]
                run_history(run, START, calls, check_from=len(calls) - 1)
                run.case(("H", tuple((c[0], c[1], str(c[2])) for c in calls)))
                n += 1
                if run.left() < run.budget * 0.3:
                    return False
                if not rec(calls, pool_size + (1 if op == "copy" else 0)):
                    return False
        return True

    return rec([], 1), n


def rand_val(rng):
    if rng.random() < 0.08:
        return 0.0
    v = 10.0 ** rng.uniform(-6, 9)
    if rng.random() < 0.5:
        v = float("%.*g" % (rng.randint(1, 4), v))
    v = min(max(v, 1e-6), 1e9)
    return v if rng.random() < 0.6 else -v


def rand_pair(rng, close=0.25):
    while True:
        a = rand_val(rng)
        if rng.random() < close:
            b = a + (abs(a) or 1.0) * 10.0 ** rng.uniform(-9, 0) * rng.choice([1, -1])
        else:
            b = rand_val(rng)
        if a != b and all(v == 0 or 1e-6 <= abs(v) <= 1e9 for v in (a, b)):
            return [a, b]


def rand_x(rng, a, b):
    r = rng.random()
    lo, hi = min(a, b), max(a, b)
    if r < 0.5:
        return lo + (hi - lo) * rng.random()
    if r < 0.75:
        return rng.choice([lo - (hi - lo) * rng.uniform(0, 5), hi + (hi - lo) * rng.uniform(0, 5)])
    return rand_val(rng)


def rand_history(rng):
    n = rng.randint(1, 12)
    calls = []
    size = 1
    for _ in range(n):
        recv = rng.randrange(size)
        r = rng.random()
        if r < 0.22:
            calls.append([recv, "domain", rand_pair(rng, close=0.1)])
        elif r < 0.4:
            rg = rand_pair(rng)
            if rng.random() < 0.3:
                rg = [int(v) for v in rg] if int(rg[0]) != int(rg[1]) else rg
            calls.append([recv, "range", rg])
        elif r < 0.55:
            calls.append([recv, "clamp", rng.random() < 0.5])
        elif r < 0.8:
            calls.append([recv, "nice", rng.choice([None, None, 1, 2, 3, 5, 10, 20, rng.randint(1, 100)])])
        else:
            if size < 8:
                calls.append([recv, "copy", None])
                size += 1
            else:
                calls.append([recv, "clamp", rng.random() < 0.5])
    start = [] if rng.random() < 0.3 else [["domain", rand_pair(rng, close=0.1)], ["range", rand_pair(rng)]]
    return start, calls


def body(run):
    quick = run.tier == "quick"
    vals = signed(VALS_QUICK if quick else VALS_THOROUGH)
    # histories first (the clause the tests cannot reach)
    depth = 3 if quick else 4
    complete, n = enumerate_histories(run, depth)
    if complete:
        run.exhaustive("histories: all %d call sequences of length <= %d over %d concrete calls x every live receiver" % (n, depth, len(ALPHABET)))
    else:
        run.note("history enumeration cut after %d sequences by the time budget" % n)
    # points
    npairs = 0
    complete = True
    for a in vals:
        for b in vals:
            if a == b:
                continue
            xs = probes(a, b)
            for r0, r1 in RANGES:
                one_points(run, a, b, r0, r1, xs)
            npairs += 1
        if run.left() < run.budget * 0.15:
            complete = False
            run.note("point grid cut at a=%r by the time budget" % a)
            break
    if complete:
        run.exhaustive("points: %d ordered domain pairs x %d ranges x <=15 probes, clamped and unclamped" % (npairs, len(RANGES)))
    while run.left() > 0:
        for _ in range(40):
            a, b = rand_pair(run.rng)
            r0, r1 = rand_pair(run.rng)
            xs = [a, b] + [x for x in (rand_x(run.rng, a, b) for _ in range(8)) if x_ok(x)]
            one_points(run, a, b, r0, r1, xs)
        for _ in range(40):
            start, calls = rand_history(run.rng)
            run_history(run, start, calls)
            run.case(("R", str(start), str(calls)))


def replay(run, inp):
    if inp.get("kind") == "history":
        run_history(run, inp["start"], inp["calls"])
        run.case("replay")
    else:
        a, b = inp["domain"]
        r0, r1 = inp["range"]
        one_points(run, float(a), float(b), r0, r1, inp["xs"])


if __name__ == "__main__":
    common.main("C12", SCOPE, body, replay)
