"""T2 driver for C18 (bounded): results do not depend on the process's local time zone.

The same list of queries (scale positions / inversions, nice domains, ticks + tick labels, calendar floor / ceil / round /
offset / range, whole exported SVG timelines) is evaluated by a worker (`python -m bounded.c18 --tz-worker`, queries as JSON
on stdin, one result string per query as JSON on stdout) in five subprocesses started with TZ=UTC, America/New_York,
Asia/Kolkata, Australia/Lord_Howe, Pacific/Chatham.  The oracle is the statement itself: the five result strings of every
query are identical.  The worker reports the UTC offsets the C library applies in January and July 2021; a zone that is not
effective (missing tzdata) would make the comparison vacuous and is a checker fault, not a pass.

datetime.time values (anchored to today's date; known finding D14) are not part of the scope.
"""
import hashlib
import json
import os
import subprocess
import sys
import time
from datetime import date, datetime, timedelta

from . import common
from .c17 import ONE_MS, DAY_MS, T_MIN, T_MAX, UNITS, APPROX_MS, ms_of, dt_of, o_floor, o_kth

ZONES = ["UTC", "America/New_York", "Asia/Kolkata", "Australia/Lord_Howe", "Pacific/Chatham"]
# (tm_gmtoff on 2021-01-15 12:00 UTC, on 2021-07-15 12:00 UTC)
ZONE_OFFSETS = {"UTC": (0, 0), "America/New_York": (-18000, -14400), "Asia/Kolkata": (19800, 19800),
                "Australia/Lord_Howe": (39600, 37800), "Pacific/Chatham": (49500, 45900)}

SCOPE = ("process zones {UTC, America/New_York, Asia/Kolkata, Australia/Lord_Howe, Pacific/Chatham} x queries: floor/ceil/round of all 7 units, "
         "offset (weeks 0..60, days 0..10, hours 0..30, months, years) and range (weeks over a year, days/hours/minutes over the change) at "
         "wall-clock instants every 15 min +-3 h (and +-1 ms) around the 2021 DST changes of New York (14 Mar, 7 Nov), Lord Howe (4 Apr, 3 Oct), "
         "Chatham (4 Apr, 26 Sep), pre-1970 instants (1900, 1905/06, 1918, 1942-45, 1969-12-31 23:59:59.999) and 2038/2100/2200; time scales "
         "(positions, invert), nice(m) and ticks(m) + labels for m in {default,2,3,5,10,20,50} on domains crossing those changes, whole years, "
         "pre-1970 and a span ladder 10 ms..200 years; TimelineSVG(data, options).export() for 6 datetime/date datasets x 4 directions with "
         "explicit widths; then seeded random queries (half of them near a DST change of one of the zones in 1900-2200) in batches")


# ----------------------------------------------------------------------------
# worker (runs under TZ=<zone>)
# ----------------------------------------------------------------------------
def _iso(x):
    return x.isoformat() if isinstance(x, (datetime, date)) else repr(x)


def _run_query(q):
    from labella.d3_time import d3_time
    from labella.scale import TimeScale
    k = q["k"]
    if k == "cal":
        x = d3_time[q["unit"]]
        op = q["op"]
        if op == "fcr":
            t = q["t"]
            return "|".join(_iso(f(t)) for f in (x.floor, x.ceil, x.round))
        if op == "offset":
            return ",".join(_iso(x.offset(q["t"], kk)) for kk in q["ks"])
        if op == "range":
            return ",".join(_iso(v) for v in x.range(q["start"], q["stop"], q["step"]))
        raise ValueError(op)
    if k == "scale":
        s = TimeScale().domain(q["domain"]).range(q["range"])
        ys = [s(t) for t in q["q"]]
        return ";".join([",".join(repr(y) for y in ys), ",".join(_iso(s.invert(y)) for y in ys),
                         ",".join(_iso(d) for d in s.domain())])
    if k == "nice":
        s = TimeScale().domain(q["domain"]).range([0, 960])
        s = s.nice() if q.get("m") is None else s.nice(q["m"])
        return ",".join(_iso(d) for d in s.domain()) + ";" + repr(s(q["domain"][0]))
    if k == "ticks":
        s = TimeScale().domain(q["domain"]).range([0, 960])
        tk = list(s.ticks() if q.get("m") is None else s.ticks(q["m"]))
        fmt = s.tickFormat()
        return ",".join(_iso(v) for v in tk) + ";" + ",".join(fmt(v) for v in tk) + ";" + ",".join(repr(s(v)) for v in tk)
    if k == "svg":
        from labella.timeline import TimelineSVG
        data = [dict(d) for d in q["data"]]
        out = TimelineSVG(data, dict(q["options"])).export()
        return out.decode("utf-8") if isinstance(out, bytes) else str(out)
    raise ValueError(k)


QUERY_TIMEOUT_S = 5.0      # a query that does not return under some zone is reported as such (result "EXC:Timeout")
MAX_TIMEOUTS = 3           # after that many the worker stops evaluating (results "SKIPPED") so that a batch stays bounded


class _Timeout(BaseException):
    pass


def _on_alarm(signum, frame):
    raise _Timeout()


def run_query(q):
    import signal
    signal.signal(signal.SIGALRM, _on_alarm)
    signal.setitimer(signal.ITIMER_REAL, QUERY_TIMEOUT_S)
    try:
        return _run_query(q)
    except _Timeout:
        return "EXC:Timeout: no result within %g s" % QUERY_TIMEOUT_S
    except RecursionError:
        return "EXC:RecursionError"
    except Exception as e:  # the exception text is part of the result: it must not depend on the zone either
        return "EXC:%s:%s" % (type(e).__name__, str(e)[:200])
    finally:
        signal.setitimer(signal.ITIMER_REAL, 0)


def worker():
    queries = common.unjson(json.load(sys.stdin))
    offs = [time.localtime(1610712000).tm_gmtoff, time.localtime(1626350400).tm_gmtoff]
    res = []
    timeouts = 0
    for q in queries:
        if timeouts >= MAX_TIMEOUTS:
            res.append("SKIPPED")
            continue
        r = run_query(q)
        if r.startswith("EXC:Timeout"):
            timeouts += 1
        res.append(r)
    sys.stdout.write(json.dumps({"tz_env": os.environ.get("TZ"), "offsets": offs, "results": res}))
    sys.stdout.flush()


# ----------------------------------------------------------------------------
# driver side
# ----------------------------------------------------------------------------
def run_in_zones(queries):
    """-> {zone: [result string per query]}; the five subprocesses run concurrently"""
    payload = json.dumps(common.jsonable(queries))
    procs = {}
    for z in ZONES:
        env = dict(os.environ)
        env["TZ"] = z
        env["LABELLA_REPO"] = common.REPO
        procs[z] = subprocess.Popen([sys.executable, "-m", "bounded.c18", "--tz-worker"], stdin=subprocess.PIPE,
                                    stdout=subprocess.PIPE, stderr=subprocess.PIPE, env=env,
                                    cwd=os.path.dirname(os.path.dirname(os.path.abspath(__file__))))
    import threading
    outs = {}

    def pump(z):
        try:
            outs[z] = procs[z].communicate(payload.encode("utf-8"), timeout=QUERY_TIMEOUT_S * (MAX_TIMEOUTS + 1) + 120)
        except subprocess.TimeoutExpired:
            procs[z].kill()
            outs[z] = procs[z].communicate()

    ths = [threading.Thread(target=pump, args=(z,)) for z in ZONES]
    for t in ths:
        t.start()
    for t in ths:
        t.join()
    res = {}
    for z in ZONES:
        out, err = outs[z]
        if procs[z].returncode != 0:
            raise RuntimeError("worker for TZ=%s failed (%s): %s" % (z, procs[z].returncode, err.decode("utf-8", "replace")[-800:]))
        d = json.loads(out.decode("utf-8"))
        if tuple(d["offsets"]) != ZONE_OFFSETS[z]:
            raise RuntimeError("TZ=%s is not effective in the worker (offsets %s, expected %s): the comparison would be vacuous"
                               % (z, d["offsets"], ZONE_OFFSETS[z]))
        if len(d["results"]) != len(queries):
            raise RuntimeError("worker for TZ=%s returned %d results for %d queries" % (z, len(d["results"]), len(queries)))
        res[z] = d["results"]
    return res


CLAUSE = {"cal": "C18.calendar", "scale": "C18.scale", "nice": "C18.nice", "ticks": "C18.ticks", "svg": "C18.timeline"}


def qkey(q):
    return (q["k"], hashlib.sha1(json.dumps(common.jsonable(q), sort_keys=True).encode("utf-8")).hexdigest()[:16])


def short(s):
    if len(s) <= 400:
        return s
    return {"sha256": hashlib.sha256(s.encode("utf-8")).hexdigest(), "len": len(s), "head": s[:160]}


def first_diff(a, b):
    n = min(len(a), len(b))
    i = next((j for j in range(n) if a[j] != b[j]), n)
    return {"at": i, "utc": a[max(0, i - 60): i + 60], "other": b[max(0, i - 60): i + 60]}


def evaluate(run, queries, count=True):
    res = run_in_zones(queries)
    nexc = 0
    for i, q in enumerate(queries):
        if count:
            run.case(qkey(q))
        vals = {z: res[z][i] for z in ZONES}
        if any(v == "SKIPPED" for v in vals.values()):
            run.c18_skipped = getattr(run, "c18_skipped", 0) + 1     # a worker gave up after repeated timeouts
            continue
        base = vals["UTC"]
        if base.startswith("EXC:"):
            nexc += 1
        diff = [z for z in ZONES if vals[z] != base]
        if diff:
            obs = {"differs_in": diff, "UTC": short(base)}
            for z in diff[:2]:
                obs[z] = short(vals[z])
                obs["first_difference_" + z] = first_diff(base, vals[z])
            run.violation(CLAUSE[q["k"]], q, obs)
    return nexc


# ----------------------------------------------------------------------------
# query construction
# ----------------------------------------------------------------------------
# wall-clock days/hours of the 2021 changes: (date, hour.minute of the local change)
CHANGES_2021 = [datetime(2021, 3, 14, 2, 0), datetime(2021, 11, 7, 2, 0),      # New York
                datetime(2021, 4, 4, 2, 0), datetime(2021, 10, 3, 2, 0),       # Lord Howe (30 min shift)
                datetime(2021, 4, 4, 3, 45), datetime(2021, 9, 26, 2, 45)]     # Chatham
OLD = [datetime(1900, 1, 1), datetime(1900, 1, 1, 0, 0, 0, 1000), datetime(1905, 12, 31, 23, 59, 59, 999000), datetime(1906, 1, 1, 0, 6, 32),
       datetime(1918, 3, 31, 2, 30), datetime(1918, 10, 27, 1, 30), datetime(1941, 10, 1, 0, 30), datetime(1942, 2, 9, 2, 30),
       datetime(1942, 9, 1, 0, 15), datetime(1945, 8, 14, 19, 0), datetime(1945, 9, 30, 1, 30), datetime(1945, 10, 15, 0, 30),
       datetime(1967, 4, 30, 2, 30), datetime(1969, 12, 31, 18, 59, 59, 999000), datetime(1969, 12, 31, 23, 59, 59, 999000),
       datetime(1970, 1, 1), datetime(1970, 1, 1, 5, 30), datetime(1970, 1, 1, 12, 45), datetime(1974, 1, 6, 2, 30), datetime(1981, 3, 1, 2, 15)]
LATE = [datetime(2038, 1, 19, 3, 14, 7, 999000), datetime(2038, 3, 14, 2, 30), datetime(2100, 3, 14, 2, 30), datetime(2100, 10, 3, 2, 15),
        datetime(2199, 11, 3, 1, 30), datetime(2200, 12, 31, 23, 59, 59, 999000)]


def zone_change_days(years):
    """wall-clock instants close to the UTC-offset changes of the zones (zoneinfo is used to FIND inputs, never as an oracle)"""
    try:
        from zoneinfo import ZoneInfo
    except Exception:
        return []
    out = []
    for zn in ZONES[1:]:
        try:
            z = ZoneInfo(zn)
        except Exception:
            continue
        for y in years:
            prev = None
            d = datetime(y, 1, 1, 12)
            while d.year == y:
                off = d.replace(tzinfo=z).utcoffset()
                if prev is not None and off != prev:
                    out.append(d.replace(hour=2, minute=0) - timedelta(days=1))   # the change happened in the night before
                    out.append(d.replace(hour=2, minute=0))
                prev = off
                d += timedelta(days=1)
    return sorted(set(out))


def cal_queries(instants, units=UNITS):
    return [{"k": "cal", "unit": u, "op": "fcr", "t": t} for t in instants for u in units]


def around(c, quick):
    """wall-clock instants around a change instant c"""
    out = []
    step = 30 if quick else 15
    for mins in range(-180, 181, step):
        out.append(c + timedelta(minutes=mins))
    for t in (c, c + timedelta(minutes=30), c + timedelta(hours=1)):
        out += [t - ONE_MS, t + ONE_MS]
    return out


def enumerated_queries(quick):
    qs = []
    # calendar rounding around the changes, old and late instants
    inst = []
    for c in CHANGES_2021:
        inst += around(c, quick)
    inst += OLD + LATE
    seen = set()
    inst = [t for t in inst if not (t in seen or seen.add(t))]
    qs += cal_queries(inst)
    # offsets: week stepping across every change of the year, days, hours, months, years
    for c in CHANGES_2021 + [OLD[4], OLD[7], OLD[14], LATE[2]]:
        sunday = o_floor("week", c - timedelta(days=21))
        qs.append({"k": "cal", "unit": "week", "op": "offset", "t": sunday, "ks": list(range(0, 61))})
        qs.append({"k": "cal", "unit": "day", "op": "offset", "t": o_floor("day", c - timedelta(days=3)), "ks": list(range(0, 11))})
        qs.append({"k": "cal", "unit": "hour", "op": "offset", "t": o_floor("day", c), "ks": list(range(0, 31))})
        qs.append({"k": "cal", "unit": "minute", "op": "offset", "t": o_floor("hour", c - timedelta(hours=1)), "ks": [0, 1, 29, 30, 59, 60, 61, 90, 119, 120, 400]})
        qs.append({"k": "cal", "unit": "month", "op": "offset", "t": o_floor("month", c - timedelta(days=40)), "ks": list(range(0, 14))})
        qs.append({"k": "cal", "unit": "year", "op": "offset", "t": o_floor("year", c), "ks": [0, 1, 2, 30, 70, 400]})
        # ranges
        qs.append({"k": "cal", "unit": "week", "op": "range", "start": datetime(c.year, 1, 1) - ONE_MS, "stop": datetime(c.year + 1, 1, 8), "step": 1})
        for step in (1, 2, 3):
            qs.append({"k": "cal", "unit": "day", "op": "range", "start": c - timedelta(days=5), "stop": c + timedelta(days=5), "step": step})
        for step in (1, 3, 6, 12):
            qs.append({"k": "cal", "unit": "hour", "op": "range", "start": o_floor("day", c) - timedelta(hours=5), "stop": o_floor("day", c) + timedelta(hours=30), "step": step})
        for step in (1, 5, 15, 30):
            qs.append({"k": "cal", "unit": "minute", "op": "range", "start": c - timedelta(hours=1, minutes=7), "stop": c + timedelta(hours=2), "step": step})
        qs.append({"k": "cal", "unit": "second", "op": "range", "start": c - timedelta(seconds=31), "stop": c + timedelta(seconds=31), "step": 15})
        qs.append({"k": "cal", "unit": "month", "op": "range", "start": datetime(c.year - 1, 11, 15), "stop": datetime(c.year + 1, 2, 1), "step": 3})
    # scales / nice / ticks
    doms = []
    for c in CHANGES_2021:
        doms += [[c - timedelta(days=2), c + timedelta(days=2)], [c - timedelta(hours=3), c + timedelta(hours=3, milliseconds=1)],
                 [c + timedelta(days=20), c - timedelta(days=20)]]
    doms += [[datetime(2021, 1, 1), datetime(2022, 1, 1)], [datetime(1900, 1, 1), datetime(1969, 12, 31, 23, 59, 59, 999000)],
             [datetime(1969, 12, 31, 12), datetime(1970, 1, 1, 12)], [datetime(2200, 12, 31, 23, 59, 59, 999000), datetime(1900, 1, 1)],
             [datetime(1941, 6, 1), datetime(1946, 3, 1, 5, 30)], [datetime(1905, 12, 30), datetime(1906, 1, 3)],
             [datetime(2021, 3, 7, 23), datetime(2021, 3, 21, 1)], [datetime(2021, 10, 30), datetime(2021, 11, 14)]]
    for a in (datetime(2021, 3, 13, 22, 15, 30, 250000), datetime(1969, 12, 31, 23, 59, 59, 990000), datetime(2021, 10, 2, 23, 59, 59, 999000)):
        for span in ([10, 1000, 90000, 5 * 3600000, 3 * DAY_MS, 45 * DAY_MS, 800 * DAY_MS, 200 * 365 * DAY_MS] if quick else
                     [10, 77, 1000, 7000, 90000, 1800000, 5 * 3600000, DAY_MS, 3 * DAY_MS, 9 * DAY_MS, 45 * DAY_MS, 200 * DAY_MS,
                      800 * DAY_MS, 5000 * DAY_MS, 40 * 365 * DAY_MS, 200 * 365 * DAY_MS]):
            b = a + timedelta(milliseconds=span)
            if b > T_MAX:
                b = a - timedelta(milliseconds=span)
            doms.append([a, b])
    for d0, d1 in doms:
        lo, hi = min(d0, d1), max(d0, d1)
        S = ms_of(hi) - ms_of(lo)
        pts = [lo, hi] + [dt_of(ms_of(lo) + (S * k) // 12) for k in range(1, 12)] + [min(T_MAX, hi + timedelta(hours=1)), max(T_MIN, lo - ONE_MS)]
        for rng_ in ([0, 960], [500.5, -500]):
            qs.append({"k": "scale", "domain": [d0, d1], "range": rng_, "q": pts})
        for m in (None, 2, 3, 5, 10, 20, 50):
            if S >= 10:
                qs.append({"k": "nice", "domain": [d0, d1], "m": m})
            qs.append({"k": "ticks", "domain": [d0, d1], "m": m})
    # timelines
    for data in DATASETS:
        for direction in ("right", "up", "left", "down"):
            qs.append({"k": "svg", "data": data, "options": {"direction": direction, "initialWidth": 804, "initialHeight": 420,
                                                             "labella": {"maxPos": 764 if direction in ("up", "down") else 380}}})
    return qs


def _ds(rows):
    return [{"time": t, "text": s, "width": w} for t, s, w in rows]


DATASETS = [
    _ds([(datetime(2021, 3, 13, 22, 0), "evening before", 90), (datetime(2021, 3, 14, 1, 59, 59, 999000), "last ms", 50),
         (datetime(2021, 3, 14, 2, 30), "does not exist in New York", 160), (datetime(2021, 3, 14, 3, 0), "three", 40),
         (datetime(2021, 3, 14, 12, 0), "noon", 35)]),
    _ds([(datetime(2021, 11, 6, 12), "Sat", 30), (datetime(2021, 11, 7, 1, 30), "twice in New York", 110), (datetime(2021, 11, 7, 2, 0), "two", 30),
         (datetime(2021, 11, 8, 0, 0), "Mon", 30), (datetime(2021, 11, 14, 0, 0), "next Sunday", 80)]),
    _ds([(datetime(1969, 7, 16, 13, 32), "launch", 50), (datetime(1969, 7, 20, 20, 17, 40), "landing", 55), (datetime(1969, 7, 21, 2, 56, 15), "step", 35),
         (datetime(1969, 7, 24, 16, 50, 35), "splashdown", 80), (datetime(1969, 12, 31, 23, 59, 59, 999000), "last ms of the sixties", 140),
         (datetime(1970, 1, 1, 0, 0), "epoch", 45)]),
    _ds([(datetime(2021, 10, 2, 23, 45), "before Lord Howe", 110), (datetime(2021, 10, 3, 2, 15), "skipped there", 90),
         (datetime(2021, 10, 3, 2, 30), "after", 40), (datetime(2021, 9, 26, 3, 0), "Chatham", 60), (datetime(2021, 4, 4, 1, 45), "autumn", 55)]),
    [{"time": date(1905, 12, 31), "text": "old", "width": 30}, {"time": date(1906, 1, 1), "text": "new offset in India", "width": 120},
     {"time": date(1942, 2, 9), "text": "war time", "width": 60}, {"time": date(1945, 9, 30), "text": "peace", "width": 45}, {"time": date(2021, 3, 14), "width": 20},
     {"time": date(2199, 12, 31), "text": "far", "width": 30}],
    _ds([(datetime(2024, 2, 28, 23, 0) + timedelta(minutes=17 * k), "e%d" % k, 25 + (k * 7) % 40) for k in range(24)]),
]


def random_queries(rng, n, change_days):
    qs = []
    lo, hi = ms_of(T_MIN), ms_of(T_MAX)

    def instant():
        r = rng.random()
        if r < 0.5 and change_days:
            c = rng.choice(change_days)
            t = c + timedelta(minutes=rng.choice([-121, -60, -31, -30, -1, 0, 1, 15, 29, 30, 31, 45, 59, 60, 61, 90, 105, 120, 180]),
                              milliseconds=rng.choice([0, 0, -1, 1, 500, 999]))
        elif r < 0.6:
            t = rng.choice(OLD + LATE) + timedelta(milliseconds=rng.randint(-5000, 5000))
        else:
            t = dt_of(rng.randint(lo, hi))
        return min(max(t, T_MIN), T_MAX)

    while len(qs) < n:
        r = rng.random()
        t = instant()
        if r < 0.35:
            qs += cal_queries([t], [rng.choice(UNITS), rng.choice(UNITS)])
        elif r < 0.45:
            u = rng.choice(UNITS)
            qs.append({"k": "cal", "unit": u, "op": "offset", "t": o_floor(u, t), "ks": sorted(rng.sample(range(0, 401), 8))})
        elif r < 0.55:
            u = rng.choice(UNITS)
            stop = min(t + timedelta(milliseconds=int(APPROX_MS[u] * rng.uniform(0, 40))), datetime(2201, 1, 1))
            qs.append({"k": "cal", "unit": u, "op": "range", "start": t, "stop": stop, "step": 1 if u == "week" else rng.randint(1, 12)})
        else:
            span = max(10, int(10 ** rng.uniform(1, 12.8)))
            a = ms_of(t) - rng.randint(0, span)
            a = max(lo, min(a, hi - span))
            if a + span > hi:
                continue
            d = [dt_of(a), dt_of(a + span)]
            if rng.random() < 0.4:
                d.reverse()
            m = rng.choice([None, None, 2, 3, 5, 7, 10, 12, 20, 33, 50])
            if r < 0.7:
                pts = [dt_of(rng.randint(a, a + span)) for _ in range(4)] + [t, d[0], d[1]]
                qs.append({"k": "scale", "domain": d, "range": [rng.choice([0, 20, -300.5]), rng.choice([960, 400, 1])], "q": pts})
            elif r < 0.82:
                qs.append({"k": "nice", "domain": d, "m": m})
            elif r < 0.95:
                qs.append({"k": "ticks", "domain": d, "m": m})
            else:
                k = rng.randint(2, 12)
                data = []
                for j in range(k):
                    row = {"time": dt_of(rng.randint(a, a + span)), "width": rng.choice([20, 35, 50, 80])}
                    if rng.random() < 0.8:
                        row["text"] = "item %d" % j
                    data.append(row)
                data.append({"time": t, "text": "near the change", "width": 95})
                qs.append({"k": "svg", "data": data, "options": {"direction": rng.choice(["right", "up", "left", "down"]),
                                                                 "initialWidth": rng.choice([400, 804]), "initialHeight": rng.choice([300, 420])}})
    return qs


def explore(run):
    quick = run.tier == "quick"
    qs = enumerated_queries(quick)
    t0 = time.time()
    nexc = evaluate(run, qs)
    dt = time.time() - t0
    kinds = {}
    for q in qs:
        kinds[q["k"]] = kinds.get(q["k"], 0) + 1
    run.exhaustive("%d enumerated queries %s in each of the 5 zones (%.1f s)" % (len(qs), json.dumps(kinds, sort_keys=True), dt))
    years = [1918, 1942, 1945, 1967, 1970, 1987, 2006, 2007, 2021, 2024, 2037, 2038, 2100, 2200] if quick else \
        list(range(1900, 2039)) + [2050, 2100, 2150, 2199, 2200]
    change_days = zone_change_days(years)
    run.note("%d wall-clock change days found through zoneinfo for the random part" % len(change_days))
    if not change_days:
        change_days = list(CHANGES_2021)
    batch = 400
    last = 1.0
    nb = 0
    while run.left() > last * 1.2:
        t0 = time.time()
        nexc += evaluate(run, random_queries(run.rng, batch, change_days))
        last = time.time() - t0
        nb += 1
        if last < 2.0 and batch < 3000:
            batch = int(batch * 1.5)
    run.note("%d random batches; %d queries raised (the same exception in every zone unless reported); %d queries not compared "
             "because a worker stopped after %d timeouts" % (nb, nexc, getattr(run, "c18_skipped", 0), MAX_TIMEOUTS))


def replay(run, inp):
    evaluate(run, [inp], count=False)


if __name__ == "__main__":
    if len(sys.argv) > 1 and sys.argv[1] == "--tz-worker":
        worker()
    else:
        common.main("C18", SCOPE, explore, replay)
