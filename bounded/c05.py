"""T2 driver for C05 (bounded, scope S-VPSC): the separation-constraint solver
returns a feasible, certified-optimal solution.

Problem solved by labella.vpsc.Solver:  minimise  sum_i w_i (x_i - d_i)^2
subject to  s_r x_r - s_l x_l >= g  for every constraint (l, r, g).

The oracle is written from the statement and is independent of the solver:

  C05.terminates / C05.exception   solve() returns (wall-clock watchdog)
  C05.feasible                     every constraint not flagged unsatisfiable holds
  C05.flagged_acyclic              on a DAG nothing may be flagged unsatisfiable
  C05.cost                         reported cost == cost of the reported positions (exact rationals)
  C05.optimal                      (DAG) cost <= optimum, where the optimum is computed in exact
                                   rationals (fractions.Fraction) by
        m <= 8 constraints : enumeration of all active sets + exact KKT solve
        larger             : an exact primal active-set method; its result is SELF-CERTIFIED by
                             weak duality: a primal feasible y with cost U and multipliers
                             lambda >= 0 with dual value g(lambda) = L (closed form, separable)
                             and L == U exactly.  g(lambda) is a lower bound for every lambda >= 0,
                             so  cost - g(lambda) <= 1e-6 (1 + cost)  certifies the solver's cost.
                             The solver's positions are used only as a hint for the first
                             working set; a wrong hint costs iterations, never soundness.
  cyclic instances                 terminates + every non-flagged constraint holds.

Violations found in the random part are delta-debugged (variables / constraints dropped while the same clause
still fails) before they are recorded, so the recorded `input` is a small failing instance that replays.

FINDING on the tree as delivered (kept, not loosened): Solver.solve() stops when the cost is stationary, but a
split followed by a re-merge across a *different* tight constraint leaves the cost unchanged while the active
tree changed; one more satisfy() would reach the optimum.  Smallest witness (unit weights and scales):
  desired [2,4,0,1,1,0], constraints [[0,2,1],[1,2,0],[1,3,1],[1,4,0],[2,4,0],[3,5,0]]
  -> reported cost 18.8333 at (1/6,7/6,7/6,13/6,7/6,13/6); feasible (1/3,1,4/3,2,4/3,2) costs 56/3 = 18.6667.
About 0.7 % of the random instances hit it (C05.optimal); nothing else fails.

Substituting y_i = s_i x_i turns the problem into  min sum W_i (y_i - D_i)^2,  y_r - y_l >= g  with
W_i = w_i / s_i^2 and D_i = s_i d_i; all oracle arithmetic is done there, exactly.
"""
import hashlib
import json
import math
import signal
import time
from fractions import Fraction as Fr

from . import common  # noqa: F401  (sets sys.path)
from labella import vpsc

PROP = "C05"
SCOPE = ("S-VPSC: n<=2 complete, n=3 (quick) / n<=4 (thorough) strided: desired {0,1,2,3} x gaps {0,1,2.5} x weights "
         "{1,0.01,1e10} x scales {1,0.5,2} x every DAG edge set (low->high index) x {plain, duplicate edge, duplicate "
         "with other gap, redundant transitive edge}; contradictory 2-/3-cycles mixed with ordinary constraints; then "
         "seeded random DAG and cyclic instances with 1..60 variables until the time budget")

DESIRED = [0, 1, 2, 3]
GAPS = [0, 1, 2.5]
WEIGHTS = [1, 0.01, 1e10]
SCALES = [1, 0.5, 2]
SMALL_M = 8


# ----------------------------------------------------------------------------
# running the code under test, with a watchdog
# ----------------------------------------------------------------------------
class _Timeout(BaseException):
    pass


def _on_alarm(signum, frame):
    raise _Timeout()


def _solve(inst):
    vs = [vpsc.Variable(d, w, s) for d, w, s in zip(inst["desired"], inst["weights"], inst["scales"])]
    cs = [vpsc.Constraint(vs[l], vs[r], g) for l, r, g in inst["constraints"]]
    solver = vpsc.Solver(vs, cs)
    cost = solver.solve()
    return vs, cs, cost


def solve_watched(inst, limit):
    """-> ('ok', (vs, cs, cost)) | ('timeout', None) | ('exception', text)"""
    old = signal.signal(signal.SIGALRM, _on_alarm)
    try:
        try:
            signal.setitimer(signal.ITIMER_REAL, limit)
            try:
                res = _solve(inst)
            finally:
                signal.setitimer(signal.ITIMER_REAL, 0)
            return "ok", res
        except _Timeout:
            return "timeout", None
        except RecursionError:
            return "exception", "RecursionError"
        except Exception as e:  # noqa
            return "exception", "%s: %s" % (type(e).__name__, str(e)[:200])
    finally:
        signal.signal(signal.SIGALRM, old)


# ----------------------------------------------------------------------------
# exact oracle (y-space)
# ----------------------------------------------------------------------------
def is_acyclic(n, cons):
    indeg = [0] * n
    out = [[] for _ in range(n)]
    for l, r, _ in cons:
        if l == r:
            return False
        out[l].append(r)
        indeg[r] += 1
    stack = [i for i in range(n) if indeg[i] == 0]
    seen = 0
    while stack:
        i = stack.pop()
        seen += 1
        for j in out[i]:
            indeg[j] -= 1
            if indeg[j] == 0:
                stack.append(j)
    return seen == n


def to_y(inst):
    """Exact transformed problem: (n, W, D, cons) with duplicates merged (largest gap wins: the others are implied)."""
    d = [Fr(x) for x in inst["desired"]]
    w = [Fr(x) for x in inst["weights"]]
    s = [Fr(x) for x in inst["scales"]]
    n = len(d)
    W = [w[i] / (s[i] * s[i]) for i in range(n)]
    D = [s[i] * d[i] for i in range(n)]
    best = {}
    for l, r, g in inst["constraints"]:
        g = Fr(g)
        if (l, r) not in best or g > best[(l, r)]:
            best[(l, r)] = g
    cons = [(l, r, g) for (l, r), g in sorted(best.items())]
    return n, W, D, cons


def cost_y(W, D, y):
    return sum(W[i] * (y[i] - D[i]) ** 2 for i in range(len(y)))


def feasible_y(cons, y):
    return all(y[r] - y[l] >= g for l, r, g in cons)


def dual_value(n, W, D, cons, lam):
    """g(lambda) = min_y sum W (y-D)^2 - sum lambda_c (y_r - y_l - g_c): separable, closed form.  lam: {index: value>=0}"""
    q = [Fr(0)] * n
    tot = Fr(0)
    for k, v in lam.items():
        l, r, g = cons[k]
        q[r] += v
        q[l] -= v
        tot += v * g
    for i in range(n):
        if q[i]:
            tot += -q[i] * D[i] - q[i] * q[i] / (4 * W[i])
    return tot


def _gauss(M, b):
    """Solve M x = b exactly; None when singular."""
    k = len(b)
    A = [list(M[i]) + [b[i]] for i in range(k)]
    for c in range(k):
        p = None
        for r in range(c, k):
            if A[r][c] != 0:
                p = r
                break
        if p is None:
            return None
        A[c], A[p] = A[p], A[c]
        piv = A[c][c]
        for r in range(c + 1, k):
            if A[r][c] != 0:
                f = A[r][c] / piv
                for cc in range(c, k + 1):
                    A[r][cc] -= f * A[c][cc]
    x = [Fr(0)] * k
    for r in range(k - 1, -1, -1):
        acc = A[r][k]
        for cc in range(r + 1, k):
            acc -= A[r][cc] * x[cc]
        x[r] = acc / A[r][r]
    return x


def brute_opt(n, W, D, cons):
    """Enumerate active sets; exact KKT.  -> (y, cost) of THE optimum (unique in y) or None."""
    m = len(cons)
    for mask in range(1 << m):
        S = [k for k in range(m) if (mask >> k) & 1]
        ks = len(S)
        # M = A W^-1 A^T ,  rhs = 2 (g - A D)
        M = [[Fr(0)] * ks for _ in range(ks)]
        rhs = []
        for a in range(ks):
            la, ra, ga = cons[S[a]]
            rhs.append(2 * (ga - (D[ra] - D[la])))
            for b in range(ks):
                lb, rb, _ = cons[S[b]]
                v = Fr(0)
                if ra == rb:
                    v += 1 / W[ra]
                if la == lb:
                    v += 1 / W[la]
                if ra == lb:
                    v -= 1 / W[ra]
                if la == rb:
                    v -= 1 / W[la]
                M[a][b] = v
        lam = _gauss(M, rhs) if ks else []
        if lam is None or any(v < 0 for v in lam):
            continue
        y = list(D)
        for a in range(ks):
            l, r, _ = cons[S[a]]
            y[r] += lam[a] / (2 * W[r])
            y[l] -= lam[a] / (2 * W[l])
        if feasible_y(cons, y):
            return y, cost_y(W, D, y)
    return None


def _forest(n, cons, work):
    """DFS over the working-set forest -> (order, parent[(node, edge, sign)], off, root_of)."""
    adj = [[] for _ in range(n)]
    for k in work:
        l, r, g = cons[k]
        adj[l].append((r, g, k))
        adj[r].append((l, -g, k))
    off = [None] * n
    parent = [None] * n
    root_of = [None] * n
    order = []
    for root in range(n):
        if off[root] is not None:
            continue
        off[root] = Fr(0)
        root_of[root] = root
        stack = [root]
        while stack:
            i = stack.pop()
            order.append(i)
            for j, dg, k in adj[i]:
                if off[j] is None:
                    off[j] = off[i] + dg
                    parent[j] = (i, k)
                    root_of[j] = root
                    stack.append(j)
    return order, parent, off, root_of


def _eqp(n, W, D, cons, work):
    order, parent, off, root_of = _forest(n, cons, work)
    num = {}
    den = {}
    for i in range(n):
        rt = root_of[i]
        num[rt] = num.get(rt, 0) + W[i] * (D[i] - off[i])
        den[rt] = den.get(rt, 0) + W[i]
    z = [num[root_of[i]] / den[root_of[i]] + off[i] for i in range(n)]
    return z, order, parent


def _multipliers(n, W, D, cons, y, order, parent):
    """Unique multipliers of a forest working set at its equality-constrained optimum y (leaf elimination)."""
    acc = [2 * W[i] * (y[i] - D[i]) for i in range(n)]
    lam = {}
    for i in reversed(order):
        if parent[i] is None:
            continue
        p, k = parent[i]
        l, r, _ = cons[k]
        # stationarity at i: acc_i = sign_k(i) * lam_k   (children already eliminated)
        v = acc[i] if i == r else -acc[i]
        lam[k] = v
        # remove lam_k's contribution at the parent
        if p == r:
            acc[p] -= v
        else:
            acc[p] += v
    return lam


def active_set_opt(n, W, D, cons, hint=None, max_iter=None):
    """Exact primal active-set method.  -> (y, lam, iterations) with y primal feasible, lam >= 0 on a forest, or None."""
    m = len(cons)
    y = None
    work = set()
    if hint is not None:
        # hint = indices guessed active: equality-constrained optimum on a spanning forest of them
        order, parent, off, root_of = _forest(n, cons, hint)
        tree = set(parent[i][1] for i in range(n) if parent[i] is not None)
        z, _, _ = _eqp(n, W, D, cons, tree)
        if feasible_y(cons, z):
            y, work = z, tree
    if y is None:
        # cold start: longest-path potentials (feasible on any DAG), empty working set
        indeg = [0] * n
        out = [[] for _ in range(n)]
        for l, r, g in cons:
            out[l].append((r, g))
            indeg[r] += 1
        y = [Fr(0)] * n
        stack = [i for i in range(n) if indeg[i] == 0]
        while stack:
            i = stack.pop()
            for j, g in out[i]:
                if y[i] + g > y[j]:
                    y[j] = y[i] + g
                indeg[j] -= 1
                if indeg[j] == 0:
                    stack.append(j)
        work = set()
    if max_iter is None:
        max_iter = 60 + 20 * (n + m)
    for it in range(max_iter):
        z, order, parent = _eqp(n, W, D, cons, work)
        if z == y:
            lam = _multipliers(n, W, D, cons, y, order, parent)
            neg = [k for k in work if lam[k] < 0]
            if not neg:
                return y, lam, it
            if it < max_iter // 2:
                drop = min(neg, key=lambda k: (lam[k], k))
            else:
                drop = min(neg)  # Bland's rule once degeneracy is suspected
            work.discard(drop)
            continue
        alpha = Fr(1)
        block = None
        for k in range(m):
            if k in work:
                continue
            l, r, g = cons[k]
            dl = (z[r] - y[r]) - (z[l] - y[l])
            if dl < 0:
                a = (y[r] - y[l] - g) / (-dl)
                if a < alpha:
                    alpha, block = a, k
        if block is None:
            y = z
        else:
            y = [y[i] + alpha * (z[i] - y[i]) for i in range(n)]
            work.add(block)
    return None


def exact_optimum(n, W, D, cons, hint, stats):
    """-> (lower bound L, how) with L the exact optimum, or None when no certificate could be built."""
    m = len(cons)
    if m <= SMALL_M:
        res = brute_opt(n, W, D, cons)
        stats["brute"] += 1
        if res is None:
            return None
        if stats["brute"] % 16 == 1:
            # oracle self-check: the two independent exact methods must agree (a disagreement is a driver fault)
            alt = active_set_opt(n, W, D, cons, hint=hint)
            if alt is not None and (alt[0] != res[0] or dual_value(n, W, D, cons, alt[1]) != res[1]):
                raise AssertionError("C05 oracle self-check failed on %r" % ((n, W, D, cons),))
            stats["crosschecked"] += 1
        return res[1], "brute"
    res = active_set_opt(n, W, D, cons, hint=hint)
    if res is None:
        res = active_set_opt(n, W, D, cons, hint=None, max_iter=200 + 60 * (n + m))
        stats["cold"] += 1
    if res is None:
        return None
    y, lam, it = res
    stats["iters"] += it
    # self-certification by weak duality: U = cost of a feasible point, L = dual value of lam >= 0, L == U
    if not feasible_y(cons, y) or any(v < 0 for v in lam.values()):
        return None
    U = cost_y(W, D, y)
    L = dual_value(n, W, D, cons, lam)
    if L != U:
        return None
    stats["certified"] += 1
    return L, "dual"


# ----------------------------------------------------------------------------
# one instance
# ----------------------------------------------------------------------------
def new_stats():
    return {"brute": 0, "crosschecked": 0, "certified": 0, "cold": 0, "iters": 0, "nocert": 0, "acyclic": 0, "cyclic": 0,
            "flagged": 0, "maxn": 0, "maxm": 0, "displaced": 0}


def case_key(inst):
    n = len(inst["desired"])
    m = len(inst["constraints"])
    if n <= 4 and m <= 8:
        return ("V", tuple(inst["desired"]), tuple(inst["weights"]), tuple(inst["scales"]),
                tuple(tuple(c) for c in inst["constraints"]))
    h = hashlib.sha1(json.dumps(common.jsonable(inst), sort_keys=True).encode()).hexdigest()[:16]
    return "V n=%d m=%d %s" % (n, m, h)


def evaluate(inst, stats):
    """Evaluate the statement on one instance.  -> (canonical instance, key, nontrivial, [(clause, observed)], notes)"""
    out = []
    notes = []
    n = len(inst["desired"])
    cons_in = [list(c) for c in inst["constraints"]]
    inst = {"desired": list(inst["desired"]), "weights": list(inst["weights"]), "scales": list(inst["scales"]),
            "constraints": cons_in}
    m = len(cons_in)
    acyclic = is_acyclic(n, cons_in)
    stats["acyclic" if acyclic else "cyclic"] += 1
    stats["maxn"] = max(stats["maxn"], n)
    stats["maxm"] = max(stats["maxm"], m)
    key = case_key(inst)

    # 1. terminates, no exception
    limit = 2.0 if n <= 6 else 5.0
    status, res = solve_watched(inst, limit)
    if status == "timeout":
        out.append(("C05.terminates", "solve() still running after %.0f s (%d variables, %d constraints)" % (limit, n, m)))
        return inst, key, True, out, notes
    if status == "exception":
        out.append(("C05.exception", res))
        return inst, key, True, out, notes
    vs, cs, cost = res
    try:
        pos = [float(v.position()) for v in vs]
        cost_f = float(cost)
    except Exception as e:  # noqa
        out.append(("C05.exception", "reading the result: %s: %s" % (type(e).__name__, str(e)[:200])))
        return inst, key, True, out, notes
    displaced = any(pos[i] != inst["desired"][i] for i in range(n))
    nontrivial = m > 0 and (not acyclic or displaced)
    if not all(math.isfinite(p) for p in pos):
        out.append(("C05.feasible", {"positions_not_finite": pos}))
        return inst, key, nontrivial, out, notes
    if acyclic and displaced:
        stats["displaced"] += 1

    # 2 / 5. feasibility of every constraint that is not flagged
    flagged = []
    sc = inst["scales"]
    for k, c in enumerate(cs):
        l, r, g = cons_in[k]
        if c.unsatisfiable:
            flagged.append(k)
            continue
        a = sc[r] * pos[r]
        b = sc[l] * pos[l]
        slack = a - b - g
        tol = 1e-6 * (1 + abs(g) + abs(a) + abs(b))
        if not (slack >= -tol):
            out.append(("C05.feasible", {"constraint": [l, r, g], "index": k, "slack": slack, "tol": tol,
                                         "pos_left": pos[l], "pos_right": pos[r], "acyclic": acyclic}))
            break  # one per instance is enough
    if flagged:
        stats["flagged"] += 1
        if acyclic:
            out.append(("C05.flagged_acyclic", {"flagged": [cons_in[k] for k in flagged], "positions": pos}))

    # 3. reported cost == cost of the reported positions (exact sum over the floats)
    if not math.isfinite(cost_f):
        out.append(("C05.cost", {"reported": repr(cost)}))
        return inst, key, nontrivial, out, notes
    exact = sum(Fr(inst["weights"][i]) * (Fr(pos[i]) - Fr(inst["desired"][i])) ** 2 for i in range(n))
    exact_f = float(exact)
    if abs(cost_f - exact_f) > 1e-9 + 1e-9 * abs(exact_f):
        out.append(("C05.cost", {"reported": cost_f, "of_positions": exact_f, "positions": pos}))

    # 4. optimality (acyclic instances only)
    if not acyclic:
        return inst, key, nontrivial, out, notes
    nn, W, D, cons = to_y(inst)
    hint = []
    for k, (l, r, g) in enumerate(cons):
        a = sc[r] * pos[r]
        b = sc[l] * pos[l]
        if abs(a - b - float(g)) <= 1e-7 * (1 + abs(float(g)) + abs(a) + abs(b)):
            hint.append(k)
    opt = exact_optimum(nn, W, D, cons, hint, stats)
    if opt is None:
        stats["nocert"] += 1
        notes.append("C05: no optimality certificate built for n=%d m=%d (%s) - skipped" % (n, len(cons), key if n > 4 else inst))
        return inst, key, nontrivial, out, notes
    L, how = opt
    Lf = float(L)
    if how == "brute":
        ok = cost_f <= Lf * (1 + 1e-6) + 1e-6
    else:
        ok = cost_f - Lf <= 1e-6 * (1 + cost_f)
    if not ok:
        obs = {"reported_cost": cost_f, "optimum": Lf, "excess": cost_f - Lf, "oracle": how, "positions": pos}
        more = more_rounds(inst)
        if more is not None:
            obs["cost_after_more_satisfy_rounds"] = more
            okm = (more <= Lf * (1 + 1e-6) + 1e-6) if how == "brute" else (more - Lf <= 1e-6 * (1 + more))
            # D16 (known finding): solve() stops on cost stationarity although the active set still changes; the
            # SAME solver reaches the optimum when satisfy() is simply called again.  Only that region is excused.
            obs["known"] = "D16" if okm else None
        out.append(("C05.optimal", obs))
    return inst, key, nontrivial, out, notes


def more_rounds(inst, rounds=60):
    """cost after calling satisfy() again on the solver that solve() left behind (None if that raises)"""
    try:
        vs = [vpsc.Variable(d, w, s) for d, w, s in zip(inst["desired"], inst["weights"], inst["scales"])]
        cs = [vpsc.Constraint(vs[l], vs[r], g) for l, r, g in inst["constraints"]]
        solver = vpsc.Solver(vs, cs)
        best = solver.solve()
        for _ in range(rounds):
            solver.satisfy()
            best = min(best, solver.cost())
        return float(best)
    except Exception:  # noqa
        return None


def _without_var(inst, i):
    new = {k: [x for j, x in enumerate(inst[k]) if j != i] for k in ("desired", "weights", "scales")}
    new["constraints"] = [[l - (l > i), r - (r > i), g] for l, r, g in inst["constraints"] if l != i and r != i]
    return new


def shrink(inst, clause, deadline):
    """Delta-debugging: drop variables / constraints while `clause` still fails (the result is itself a failing input)."""

    def fails(cand):
        if time.time() > deadline:
            return False
        return any(c == clause for c, _ in evaluate(cand, new_stats())[3])

    changed = True
    while changed and time.time() < deadline:
        changed = False
        i = 0
        while i < len(inst["desired"]) and len(inst["desired"]) > 1:
            cand = _without_var(inst, i)
            if fails(cand):
                inst, changed = cand, True
            else:
                i += 1
        k = 0
        while k < len(inst["constraints"]):
            cand = dict(inst)
            cand["constraints"] = inst["constraints"][:k] + inst["constraints"][k + 1:]
            if fails(cand):
                inst, changed = cand, True
            else:
                k += 1
    return inst


def one(run, inst, stats, minimise=False):
    inst, key, nontrivial, viols, notes = evaluate(inst, stats)
    run.case(key, nontrivial=nontrivial)
    for t in notes:
        if len(run.notes) < 3:
            run.note(t)
    for clause, observed in viols:
        kn = observed.get("known") if isinstance(observed, dict) else None
        if kn:   # a listed known finding: record it (no shrinking, it is not what we are hunting)
            run.violation(clause, inst, observed, known=kn)
            continue
        recorded = len(run.viol.get((clause, None), []))
        if minimise and clause != "C05.terminates" and recorded < run.MAX_PER_CLAUSE and len(inst["desired"]) > 4:
            small = shrink(inst, clause, time.time() + min(8.0, max(1.0, run.left())))
            again = [o for c, o in evaluate(small, new_stats())[3] if c == clause]
            if again:
                obs = again[0]
                if isinstance(obs, dict):
                    obs = dict(obs)
                    obs["shrunk_from"] = {"variables": len(inst["desired"]), "constraints": len(inst["constraints"])}
                run.violation(clause, small, obs, known=obs.get("known") if isinstance(obs, dict) else None)
                continue
        run.violation(clause, inst, observed)


# ----------------------------------------------------------------------------
# enumerated scope
# ----------------------------------------------------------------------------
def all_pairs(n):
    return [(i, j) for i in range(n) for j in range(i + 1, n)]


def dag_spaces(n):
    """(edges, variant) spaces: every edge set on n labelled vertices oriented low->high, and the extras."""
    pairs = all_pairs(n)
    for mask in range(1 << len(pairs)):
        E = [pairs[k] for k in range(len(pairs)) if (mask >> k) & 1]
        yield E, "plain"
        if E:
            yield E, "dup"
            yield E, "dup_other_gap"
            if any(a[1] == b[0] for a in E for b in E):
                yield E, "transitive"


def build(n, E, variant, idx):
    """Decode idx (mixed radix) into an instance of the space (n, E, variant)."""
    gaps = []
    for _ in E:
        idx, k = divmod(idx, len(GAPS))
        gaps.append(GAPS[k])
    des = []
    for _ in range(n):
        idx, k = divmod(idx, len(DESIRED))
        des.append(DESIRED[k])
    scl = []
    for _ in range(n):
        idx, k = divmod(idx, len(SCALES))
        scl.append(SCALES[k])
    wts = []
    for _ in range(n):
        idx, k = divmod(idx, len(WEIGHTS))
        wts.append(WEIGHTS[k])
    cons = [[l, r, g] for (l, r), g in zip(E, gaps)]
    if variant == "dup":
        cons.append(list(cons[0]))
    elif variant == "dup_other_gap":
        l, r, g = cons[0]
        cons.append([l, r, GAPS[(GAPS.index(g) + 1) % len(GAPS)]])
    elif variant == "transitive":
        done = False
        for a in cons:
            for b in cons:
                if a[1] == b[0]:
                    cons.append([a[0], b[1], a[2] + b[2]])  # implied by a and b (scales telescope): redundant
                    done = True
                    break
            if done:
                break
    return {"desired": des, "weights": wts, "scales": scl, "constraints": cons}


def space_size(n, ne):
    return (len(GAPS) ** ne) * (len(DESIRED) * len(SCALES) * len(WEIGHTS)) ** n


def stride_for(size, quota):
    if size <= quota:
        return 1
    st = -(-size // quota)
    while st % 2 == 0 or st % 3 == 0:
        st += 1
    return st


def cyclic_templates(nmax):
    """Edge templates containing a 2- or 3-cycle on the first vertices, mixed with 0..2 ordinary edges."""
    out = []
    for cyc in ([(0, 1), (1, 0)], [(0, 1), (1, 2), (2, 0)], [(0, 2), (2, 1), (1, 0)]):
        k = len(cyc)
        for n in range(k, nmax + 1):
            others = [(i, j) for i in range(n) for j in range(n) if i != j and max(i, j) >= k]
            out.append((n, k, list(cyc)))
            for a in range(len(others)):
                out.append((n, k, cyc + [others[a]]))
                for b in range(a + 1, len(others)):
                    out.append((n, k, cyc + [others[a], others[b]]))
    return out


def enumerated(run, stats):
    quick = run.tier == "quick"
    scale = max(0.25, run.budget / (20.0 if quick else 60.0))
    cut = run.budget * 0.35
    offset_seed = run.seed
    nmax = 3 if quick else 4
    # quota = instances per (edge set, variant) space
    quota = {1: 10 ** 9, 2: 10 ** 9, 3: int((1100 if quick else 1500) * scale), 4: int(90 * scale)}
    complete = True
    for n in range(1, nmax + 1):
        count = 0
        strided = False
        for E, variant in dag_spaces(n):
            size = space_size(n, len(E))
            st = stride_for(size, quota[n])
            strided = strided or st > 1
            idx = offset_seed % st
            while idx < size and run.left() >= cut:
                one(run, build(n, E, variant, idx), stats)
                count += 1
                idx += st
            if run.left() < cut:
                break
        if run.left() < cut:
            run.note("enumerated DAG scope cut at n=%d by the time budget" % n)
            complete = False
            break
        if strided:
            run.note("S-VPSC(n=%d): %d instances, strided (<= %d per edge-set/variant space, offset seed %% stride)" % (n, count, quota[n]))
        else:
            run.exhaustive("S-VPSC(n=%d): all %d instances: desired %s x gaps %s x weights %s x scales %s x every DAG edge set "
                           "x {plain, dup, dup_other_gap, transitive}" % (n, count, DESIRED, GAPS, WEIGHTS, SCALES))
    # cyclic part
    cq = int((260 if quick else 120) * scale)
    ccount = 0
    for n, k, E in cyclic_templates(nmax):
        size = space_size(n, len(E))
        st = stride_for(size, cq)
        idx = offset_seed % st
        while idx < size and run.left() >= cut * 0.8:
            inst = build(n, E, "plain", idx)
            idx += st
            if sum(c[2] for c in inst["constraints"][:k]) <= 0:
                continue  # the cycle must be contradictory (positive total gap)
            one(run, inst, stats)
            ccount += 1
        if run.left() < cut * 0.8:
            run.note("enumerated cyclic scope cut by the time budget")
            complete = False
            break
    run.note("S-VPSC cyclic: %d instances with a contradictory 2-/3-cycle (+0..2 ordinary edges), n<=%d, strided" % (ccount, nmax))
    return complete


# ----------------------------------------------------------------------------
# seeded random instances
# ----------------------------------------------------------------------------
def random_instance(rng, cyclic):
    band = rng.random()
    if band < 0.3:
        n = rng.randint(1, 6)
    elif band < 0.65:
        n = rng.randint(7, 20)
    else:
        n = rng.randint(21, 60)
    if cyclic:
        n = max(n, 2)
    # desired positions (with ties)
    mode = rng.randrange(6)
    if mode == 0:
        des = [rng.randint(0, 3) for _ in range(n)]
    elif mode == 1:
        R = rng.choice([10, 100])
        des = [rng.randint(0, R) for _ in range(n)]
    elif mode == 2:
        des = [rng.randint(0, 40) / 2.0 for _ in range(n)]
    elif mode == 3:
        des = [round(rng.uniform(-50, 500), 3) for _ in range(n)]
    elif mode == 4:
        v = rng.choice([0, 7, 2.5])
        des = [v] * n
    else:
        des = [rng.uniform(0, 20) for _ in range(n)]
    if rng.random() < 0.5:
        des.sort()
    # weights
    wm = rng.random()
    if wm < 0.3:
        wts = [1] * n
    elif wm < 0.6:
        wts = [10 ** rng.uniform(-2, 10) for _ in range(n)]
    elif wm < 0.85:
        wts = [rng.choice(WEIGHTS) for _ in range(n)]
    else:
        wts = [1e10 if rng.random() < 0.15 else 1 for _ in range(n)]
    # scales
    if rng.random() < 0.5:
        scl = [1] * n
    else:
        scl = [rng.choice([0.5, 1, 2, 4]) for _ in range(n)]
    # gaps
    gm = rng.randrange(5)

    def gap():
        if gm == 0:
            return rng.randint(0, 3)
        if gm == 1:
            return rng.randint(0, 8) / 2.0
        if gm == 2:
            return rng.uniform(0, 5)
        if gm == 3:
            return 0
        return 3.5

    # DAG edges i -> j, i < j
    style = rng.randrange(3)
    edges = []
    if style == 0:
        p = min(1.0, rng.choice([1.0 / n, 2.0 / n, 4.0 / n, 0.15, 0.4, 0.8]))
        for i in range(n):
            for j in range(i + 1, n):
                if rng.random() < p:
                    edges.append((i, j))
    elif style == 1:
        edges = [(i, i + 1) for i in range(n - 1)]
        p = rng.choice([0.0, 1.0 / n, 0.1])
        for i in range(n):
            for j in range(i + 2, n):
                if rng.random() < p:
                    edges.append((i, j))
    else:
        reach = rng.choice([2, 3, 5])
        for i in range(n):
            for j in range(i + 1, min(n, i + 1 + reach)):
                if rng.random() < 0.6:
                    edges.append((i, j))
    if len(edges) > 400:
        edges = rng.sample(edges, 400)
    cons = [[l, r, gap()] for l, r in edges]
    # duplicates
    if cons and rng.random() < 0.5:
        for _ in range(rng.randint(1, 3)):
            l, r, g = rng.choice(cons)
            cons.append([l, r, g if rng.random() < 0.5 else gap()])
    # redundant transitive edges
    if cons and rng.random() < 0.5:
        byleft = {}
        for c in cons:
            byleft.setdefault(c[0], []).append(c)
        for _ in range(rng.randint(1, 3)):
            a = rng.choice(cons)
            nxt = byleft.get(a[1])
            if nxt:
                b = rng.choice(nxt)
                tot = a[2] + b[2]
                cons.append([a[0], b[1], rng.choice([tot, tot, tot / 2.0, 0])])
    if cyclic:
        # back edges closing a contradictory cycle (positive total gap)
        for _ in range(rng.randint(1, 3)):
            if cons and rng.random() < 0.8:
                a = rng.choice(cons)
                path = [a]
                nxt = [c for c in cons if c[0] == a[1] and c[1] > c[0]]
                if nxt and rng.random() < 0.5:
                    path.append(rng.choice(nxt))
                if path[-1][1] == path[0][0]:
                    continue
                tot = sum(c[2] for c in path)
                g = gap()
                if tot + g <= 0:
                    g = 1
                cons.append([path[-1][1], path[0][0], g])
            else:
                i, j = rng.sample(range(n), 2)
                cons.append([i, j, gap() + 1])
                cons.append([j, i, gap()])
    if rng.random() < 0.5:
        rng.shuffle(cons)
    return {"desired": des, "weights": wts, "scales": scl, "constraints": cons}


# ----------------------------------------------------------------------------
# entry points
# ----------------------------------------------------------------------------
def explore(run):
    stats = new_stats()
    enumerated(run, stats)
    e_stats = dict(stats)
    run.note("enumerated part took %.1f s" % (run.budget - run.left()))
    nrand = 0
    while run.left() > 0:
        cyclic = run.rng.random() < 0.25
        inst = random_instance(run.rng, cyclic)
        one(run, inst, stats, minimise=True)
        nrand += 1
    run.note("enumerated: %d acyclic + %d cyclic instances; random: %d acyclic + %d cyclic (max %d variables, %d constraints)"
             % (e_stats["acyclic"], e_stats["cyclic"], stats["acyclic"] - e_stats["acyclic"],
                stats["cyclic"] - e_stats["cyclic"], stats["maxn"], stats["maxm"]))
    run.note("optimality oracle: %d by active-set enumeration (%d cross-checked against the active-set method), %d by exact "
             "dual certificate (%d cold restarts, %d active-set iterations), %d without certificate (skipped); "
             "%d acyclic instances with displaced variables; %d instances with flagged constraints"
             % (stats["brute"], stats["crosschecked"], stats["certified"], stats["cold"], stats["iters"], stats["nocert"],
                stats["displaced"], stats["flagged"]))


def replay(run, inp):
    one(run, inp, new_stats())


if __name__ == "__main__":
    common.main(PROP, SCOPE, explore, replay)
