"""T2 driver for C19 (bounded): tex.uni2tex over code points in context + seeded random strings.

Oracle, from the statement (never from the implementation):
  C19.no-raise      uni2tex(s) returns a str for every string s
  C19.ascii         ASCII input is returned unchanged
  -- for inputs without a backslash (TeX specials pass through by design, so an input that already
     spells an accent command is outside the structural / round-trip clauses):
  C19.only-accents  every backslash of the output opens a well-formed `\\X{c}` group (X one of the 15 TeX
                    accent letters, c ONE character) and the output aligns with the input: a plain output
                    character is the next input character; a group \\X{c} stands either for the two input
                    characters c, MARK[X], or for ONE input character canonically equivalent to c+MARK[X]
                    (a precomposed character); nothing is dropped, added or reordered
  C19.base          the character an accent command is applied to is a base character, not itself a
                    combining mark (general category M*)
  C19.roundtrip     NFD(decode(out)) == NFD(s), decode turning \\X{c} back into c + MARK[X]
The TeX<->Unicode accent table below is the standard one (LaTeX2e accent commands), written out here.
"""
import unicodedata

from . import common  # noqa: F401  (sets sys.path)
from labella.tex import uni2tex

SCOPE = ("every code point 0..0x10FFFF except surrogates (quick: BMP + first 0x2000 of planes 1..16) alone, after 'a', "
         "before 'a'; followed by each of the 15 TeX-accent combining marks (quick: all < U+3000 + every 8th of the rest; "
         "thorough: all, while time lasts); then seeded random strings mixing ASCII incl. TeX specials, precomposed "
         "letters, combining sequences (two marks, mark first/last), compatibility characters, spacing diacritics, CJK, "
         "Hangul, emoji")

# TeX accent command letter -> combining mark (standard table)
MARK = {
    "`": 0x0300,  # grave
    "'": 0x0301,  # acute
    "^": 0x0302,  # circumflex
    '"': 0x0308,  # diaeresis
    "H": 0x030B,  # double acute (Hungarian umlaut)
    "~": 0x0303,  # tilde
    "c": 0x0327,  # cedilla
    "k": 0x0328,  # ogonek
    "=": 0x0304,  # macron
    "b": 0x0331,  # macron (bar) below
    ".": 0x0307,  # dot above
    "d": 0x0323,  # dot below
    "r": 0x030A,  # ring above
    "u": 0x0306,  # breve
    "v": 0x030C,  # caron (hacek)
}
MARKCH = {k: chr(v) for k, v in MARK.items()}
MARKS = [chr(v) for v in sorted(MARK.values())]
NFD = lambda t: unicodedata.normalize("NFD", t)  # noqa: E731


def cps(s):
    return [ord(c) for c in s]


def tokens(out):
    """Parse the output: list of plain characters (str) and groups (X, c). None if a backslash is not a group."""
    toks = []
    i, n = 0, len(out)
    while i < n:
        ch = out[i]
        if ch == "\\":
            if i + 4 < n and out[i + 1] in MARK and out[i + 2] == "{" and out[i + 4] == "}":
                toks.append((out[i + 1], out[i + 3]))
                i += 5
                continue
            return None
        toks.append(ch)
        i += 1
    return toks


def decode(toks):
    return "".join(t if isinstance(t, str) else t[1] + MARKCH[t[0]] for t in toks)


def strip_wrappers(toks):
    return "".join(t if isinstance(t, str) else t[1] for t in toks)


def align(s, toks):
    """None if the output differs from s only by accent commands standing for accented characters,
    else a description of the first mismatch."""
    i, n = 0, len(s)
    for k, t in enumerate(toks):
        if i >= n:
            return "output token %d (%r) has no input character left" % (k, t)
        if isinstance(t, str):
            if s[i] != t:
                return "output char U+%04X at token %d but input char U+%04X at %d" % (ord(t), k, ord(s[i]), i)
            i += 1
            continue
        x, c = t
        m = MARKCH[x]
        if s[i] == c and i + 1 < n and s[i + 1] == m:
            i += 2
        elif s[i] != c and NFD(s[i]) == NFD(c + m):
            i += 1
        else:
            return ("accent command \\%s{U+%04X} at token %d does not stand for the input at %d (U+%04X%s)"
                    % (x, ord(c), k, i, ord(s[i]), " U+%04X" % ord(s[i + 1]) if i + 1 < n else ""))
    if i != n:
        return "input characters from %d on are missing from the output" % i
    return None


def check_output(run, s, out):
    """All clauses except no-raise, for an output that differs from the input (slow path)."""
    inp = {"cps": cps(s)}
    if not isinstance(out, str):
        run.violation("C19.no-raise", inp, "returned %s, not str" % type(out).__name__)
        return
    if out == s:
        return
    if s.isascii():
        run.violation("C19.ascii", inp, {"out": cps(out)})
        return
    if "\\" in s:
        return
    toks = tokens(out)
    if toks is None:
        run.violation("C19.only-accents", inp, {"out": cps(out), "why": "a backslash that is not \\X{c} with X a TeX accent"})
        return
    why = align(s, toks)
    if why is not None:
        run.violation("C19.only-accents", inp, {"out": cps(out), "why": why, "stripped": cps(strip_wrappers(toks))})
    for t in toks:
        if not isinstance(t, str) and unicodedata.category(t[1])[0] == "M":
            run.violation("C19.base", inp, {"out": cps(out), "why": "accent \\%s applied to the combining mark U+%04X (%s), not to a base character"
                                            % (t[0], ord(t[1]), unicodedata.category(t[1]))})
            break
    if NFD(decode(toks)) != NFD(s):
        run.violation("C19.roundtrip", inp, {"out": cps(out), "decoded_nfd": cps(NFD(decode(toks))), "input_nfd": cps(NFD(s))})


def check(run, s):
    """Evaluate every clause on s. Returns True when the conversion changed something."""
    try:
        out = uni2tex(s)
    except Exception as e:  # noqa  -- exception freedom is the first clause
        run.violation("C19.no-raise", {"cps": cps(s)}, "%s: %s" % (type(e).__name__, str(e)[:200]))
        return False
    if out == s:
        return False
    check_output(run, s, out)
    return True


def replay(run, inp):
    s = "".join(chr(c) for c in inp["cps"])
    run.case(("replay", tuple(inp["cps"])), nontrivial=check(run, s))


# ----------------------------------------------------------------------------
# enumerated scope
# ----------------------------------------------------------------------------
def code_points(tier):
    if tier == "thorough":
        for c in range(0x110000):
            if not 0xD800 <= c <= 0xDFFF:
                yield c
    else:
        for c in range(0x10000):
            if not 0xD800 <= c <= 0xDFFF:
                yield c
        for plane in range(1, 17):
            for c in range(plane << 16, (plane << 16) + 0x2000):
                yield c


def enumerate_contexts(run):
    """cp alone, 'a'+cp, cp+'a'. Bulk accounting: the cases are distinct by construction."""
    n = changed = 0
    for c in code_points(run.tier):
        ch = chr(c)
        for s in (ch, "a" + ch, ch + "a"):
            n += 1
            if check(run, s):
                changed += 1
    run.evaluations += n
    run.nontrivial += changed
    what = "all non-surrogate code points" if run.tier == "thorough" else "BMP + first 0x2000 code points of planes 1-16 (non-surrogate)"
    run.exhaustive("%s x {alone, after 'a', before 'a'}: %d strings, %d rewritten" % (what, n, changed))


def enumerate_marks(run, reserve):
    """cp followed by each of the 15 marks (and 'a', cp, mark: the mark's own base is then cp, not 'a')."""
    n = changed = 0
    complete = True
    for c in code_points(run.tier):
        if run.tier != "thorough" and c >= 0x3000 and c % 8:
            continue
        if (c & 0xFF) == 0 and run.left() < reserve:
            complete = False
            break
        ch = chr(c)
        for m in MARKS:
            n += 1
            if check(run, ch + m):
                changed += 1
        n += 1
        if check(run, "a" + ch + MARKS[c % 15] + "a"):
            changed += 1
    run.evaluations += n
    run.nontrivial += changed
    txt = "code point + each of the 15 accent marks (%s): %d strings, %d rewritten" % (
        "all non-surrogate code points" if run.tier == "thorough" else "all < U+3000, every 8th above", n, changed)
    if complete:
        run.exhaustive(txt)
    else:
        run.note("time budget cut the mark sweep at U+%04X: %s" % (c, txt))


# ----------------------------------------------------------------------------
# random strings
# ----------------------------------------------------------------------------
def pools():
    ascii_plain = [chr(c) for c in range(0x20, 0x7F) if chr(c) != "\\"]
    specials = list("#$%&_{}~^'`\"=.") + list("Hckbdruv")
    canon, other_pre = [], []
    for c in list(range(0xC0, 0x250)) + list(range(0x370, 0x500)) + list(range(0x1E00, 0x2000)) + [0x212A, 0x212B, 0x2126, 0x0344, 0x0958, 0xFB1D, 0xFB2A]:
        d = unicodedata.decomposition(chr(c))
        if d and not d.startswith("<"):
            (canon if len(d.split()) == 2 else other_pre).append(chr(c))
    other_marks = [chr(c) for c in (0x0305, 0x0309, 0x030D, 0x0313, 0x0316, 0x031B, 0x0324, 0x0330, 0x0338, 0x0340, 0x0341,
                                    0x0344, 0x0345, 0x0483, 0x05B0, 0x064B, 0x093C, 0x094D, 0x20D7, 0x3099, 0xFE0F, 0x200D, 0x1F3FB)]
    compat = [chr(c) for c in ([0x2026, 0x00A0, 0x00BC, 0x00BD, 0x00BE, 0x2153, 0x215B, 0x00B2, 0x00B3, 0x00B9, 0x2070, 0x2074, 0x207F,
                                 0xFB00, 0xFB01, 0xFB02, 0xFB03, 0xFB06, 0x0132, 0x01C4, 0x2122, 0x2460, 0x3392, 0xFF21, 0xFF41, 0x2002, 0x202F,
                                 0x00A8, 0x00AF, 0x00B4, 0x00B8, 0x00AA, 0x00BA, 0x017F, 0x1E9B, 0x2103]
                                + list(range(0x02D8, 0x02DE)))]
    cjk = [chr(c) for c in (0x4E00, 0x4E2D, 0x6587, 0x65E5, 0x672C, 0x8A9E, 0x9FA5, 0x3042, 0x304C, 0x30AC, 0x30D1, 0x3001, 0xF900, 0xFA10,
                            0x2F800, 0x20000, 0xAC00, 0xAC01, 0xD7A3, 0x1100, 0x1161, 0x11A8)]
    emoji = [chr(c) for c in (0x1F600, 0x1F44D, 0x1F468, 0x1F469, 0x1F467, 0x2764, 0x2603, 0x1F1F3, 0x1F1F1, 0x1F3F4, 0xE0067, 0x1F9D1, 0x00A9, 0x203C)]
    misc = [chr(c) for c in (0x0, 0x9, 0xA, 0xD, 0x7F, 0x85, 0xAD, 0x200B, 0x2028, 0xFEFF, 0xFFFD, 0xFFFE, 0xFFFF, 0x10FFFF, 0xE000, 0x0378, 0x0131, 0x0237, 0x00DF, 0x00F8)]
    return {"ascii": ascii_plain, "special": specials, "canon": canon, "pre": other_pre, "mark": MARKS, "omark": other_marks,
            "compat": compat, "cjk": cjk, "emoji": emoji, "misc": misc}


def random_string(rng, P):
    kind = rng.random()
    n = rng.choice((1, 2, 2, 3, 3, 4, 5, 6, 8, 12, 20, 40))
    out = []
    backslash = kind < 0.08
    for _ in range(n):
        r = rng.random()
        if r < 0.22:
            out.append(rng.choice(P["ascii"]))
        elif r < 0.30:
            out.append(rng.choice(P["special"]))
        elif r < 0.44:
            out.append(rng.choice(P["canon"]))
        elif r < 0.47:
            out.append(rng.choice(P["pre"]))
        elif r < 0.64:
            out.append(rng.choice(P["mark"]))
        elif r < 0.69:
            out.append(rng.choice(P["omark"]))
        elif r < 0.78:
            out.append(rng.choice(P["compat"]))
        elif r < 0.84:
            out.append(rng.choice(P["cjk"]))
        elif r < 0.89:
            out.append(rng.choice(P["emoji"]))
        elif r < 0.92:
            out.append(rng.choice(P["misc"]))
        elif r < 0.96:  # a combining sequence: base + 1..3 marks
            out.append(rng.choice(P["ascii"] + P["canon"] + P["cjk"]))
            out.extend(rng.choice(P["mark"] + P["mark"] + P["omark"]) for _ in range(rng.randint(1, 3)))
        elif r < 0.98:  # any code point
            c = rng.randrange(0x110000)
            out.append(chr(c if not 0xD800 <= c <= 0xDFFF else 0xE9))
        elif backslash:
            out.append(rng.choice(("\\", "\\'{e}", "\\", "\\c{", "\\\\")))
        else:
            out.append(rng.choice(P["mark"]))
    if rng.random() < 0.15:
        out.insert(0, rng.choice(P["mark"]))
    if rng.random() < 0.15:
        out.append(rng.choice(P["mark"]))
    s = "".join(out)
    if not backslash:
        s = s.replace("\\", "")
    return s


FIXED = [
    "", "a", "\u00e9", "\u00e9x", "\u0301", "\u0301e", "e\u0301", "e\u0301x", "xe\u0301", "\u00e9\u0302", "\u1ebf", "\u2026", "\u00a0",
    "Se\u00f1or \u00bd \ufb01n\u2026", "e\u0323\u0301", "e\u0301\u0323", "a\u0316\u0301", "\u0344", "a\u0344", "\u00e4\u0301",
    "\u1ea5", "\u1ead", "\u01d8", "{\u0301}", "}\u0308", "$\u0302$", "na\u00efve caf\u00e9 #1 & 50% _x_ ~ ^",
    "\u0439", "\u0451", "\u03ac", "\u0958", "\uac01", "\u00a8\u00af\u00b4\u00b8\u02d8\u02d9\u02da\u02db\u02dc\u02dd",
    "\u212b\u2126\u212a", "\u4e2d\u6587\u0301", "\U0001F468\u200d\U0001F469\u200d\U0001F467", "\U0001F44D\U0001F3FB\u0301",
    "a\\'{e}", "\\", "\\\u0301", "\u00e9\\", "\u0131\u0301", " \u0301", "a\u0301\u0301", "a\u0301\u0302\u0303",
]


def body(run):
    for s in FIXED:
        run.case(("fixed", s), nontrivial=check(run, s))
    enumerate_contexts(run)
    # leave at least a quarter of the budget (max 30 s) to the random strings
    enumerate_marks(run, reserve=min(30.0, run.budget * 0.25))
    run.note("enumerated part done at %.1f s" % (run.budget - run.left()))
    P = pools()
    rng = run.rng
    k = 0
    while True:
        if (k & 0xFF) == 0 and run.left() <= 0:
            break
        k += 1
        s = random_string(rng, P)
        run.case(s, nontrivial=check(run, s))
    run.note("%d random strings" % k)


if __name__ == "__main__":
    common.main("C19", SCOPE, body, replay)
