"""T2 driver for C15 (bounded): the time scale is affine in elapsed time and invertible.

Oracle (exact rationals over integer milliseconds since the naive epoch, independent calendar of c17.py):
  want(t) = r0 + (r1 - r0) * (ms(t) - ms(d0)) / (ms(d1) - ms(d0)),   u(t) = (ms(t) - ms(d0)) / (ms(d1) - ms(d0))
  tol(t)  = 1e-9 * R * max(1, |u(t)|)  with R = max(|r0|, |r1|)  ("up to floating-point error" = relative 1e-9 of the
            range magnitude; float error of an extrapolation grows with the extrapolation factor |u|)
  endpoints   |scale(d0) - r0| <= tol, |scale(d1) - r1| <= tol
  affine      |scale(t) - want(t)| <= tol(t) for t inside and outside the domain
  durations   |(scale(a+d) - scale(a)) - (scale(b+d) - scale(b))| <= sum of the four tolerances
  monotone    for t1 < t2: never reversed by more than the tolerances, and STRICTLY ordered along the range direction
              whenever the exact distance exceeds what double rounding can hide (16 * 2^-52 * R * max(1,|u1|,|u2|);
              the evaluation a*(1-u)+b*u has a forward error below 6 * 2^-52 * R * max(1,|u|) per value)
  linear      |scale(t) - LinearScale(domain=[ms(d0), ms(d1)], range)(ms(t))| <= tol(t)
  invert      t inside the domain: |invert(scale(t)) - t| <= 1 ms -- evaluated when doubles can resolve 1 ms at all:
              span_ms * (R / |r1 - r0|) * 8 * 2^-52 <= 0.5 (a range like [1000, 1001] over 300 years cannot; counted in a note)
"""
from datetime import datetime, timedelta
from fractions import Fraction as Fr

from . import common  # noqa: F401
from .c17 import ONE_MS, DAY_MS, T_MIN, T_MAX, ms_of, us_of, dt_of

SCOPE = ("the scale with domain [d0, d1] and range [r0, r1] reached through 5 call histories in rotation (fresh; a scale used on another domain - mapped "
         "and inverted - then re-configured by domain()+range(), range()+domain(), domain() only, or a copy() of it): every ordered pair of distinct instants from 14 (quick) / 22 (thorough) special naive "
         "instants 1900..2200 (epoch +-1 ms, leap days, year ends, 2038, DST-looking wall times, both ends of the period) x 12 ranges (both "
         "orientations, offset, negative, sub-unit, [1000,1001], [0,1e6]) x ~20 query instants (ends, +-1 ms around them, interior fractions, "
         "outside by 1 ms / 1 span / 10 spans, period ends) + equal-duration pairs; then seeded random domains (uniform and log-uniform spans "
         "1 ms..300 years), random ranges and queries; invert only where doubles can resolve 1 ms (see module docstring)")

EPS = 2.0 ** -52

RANGES = [(0, 1), (0, 100), (0, 960), (960, 0), (-500, 500), (50, 750), (0, -360), (1, 0), (0.001, 0.002), (20.5, 779.25),
          (1000, 1001), (0, 1e6)]

POINTS = [
    datetime(1900, 1, 1), datetime(1969, 12, 31, 23, 59, 59, 999000), datetime(1970, 1, 1), datetime(1970, 1, 1, 0, 0, 0, 1000),
    datetime(2000, 2, 29, 12), datetime(2021, 3, 14, 2, 30), datetime(2024, 2, 29, 23, 59, 59, 999000), datetime(2024, 3, 1),
    datetime(2038, 1, 19, 3, 14, 7), datetime(2100, 2, 28, 23, 59, 59, 999000), datetime(2200, 12, 31, 23, 59, 59, 999000),
    datetime(1900, 1, 1, 0, 0, 0, 1000), datetime(1949, 7, 2, 6, 7, 8, 9000), datetime(2021, 11, 7, 1, 30),
    # thorough only
    datetime(1900, 2, 28), datetime(1916, 2, 29, 1), datetime(1999, 12, 31, 23, 59, 59, 999000), datetime(2000, 1, 1),
    datetime(2021, 10, 3, 2, 15), datetime(2099, 12, 31), datetime(2200, 1, 1), datetime(1968, 12, 29, 12),
]


HISTORIES = ["fresh", "used-then-domain-then-range", "used-then-range-then-domain", "used-then-domain-only", "copy-of-used"]


def make_scale(d0, d1, r0, r1, hist=0):
    """the scale under test, reached through a call history: the statement is about the scale's CURRENT domain and range,
    whatever it mapped or inverted before (hist > 0: a scale that has been used on another domain first)"""
    from labella.scale import TimeScale
    if not hist:
        return TimeScale().domain([d0, d1]).range([r0, r1])
    e0, e1 = datetime(1987, 3, 14, 6), datetime(1991, 11, 2, 18, 30)
    q0, q1 = -17.0, 923.0
    if hist == 3:
        s = TimeScale().range([r0, r1]).domain([e0, e1])
        s(e0), s.invert(r0), s.invert((r0 + r1) / 2)
        return s.domain([d0, d1])
    s = TimeScale().domain([e0, e1]).range([q0, q1])
    s(e0), s(e1), s.invert(q0), s.invert(100.0)
    if hist == 4:
        s = s.copy()
        s.invert(q1)
    if hist == 2:
        s.range([r0, r1])
        s.invert(r0)
        return s.domain([d0, d1])
    s.domain([d0, d1])
    s.invert(q0)
    return s.range([r0, r1])


def make_linear(x0, x1, r0, r1):
    from labella.scale import LinearScale
    return LinearScale().domain([x0, x1]).range([r0, r1])


def check_scale(run, d0, d1, r0, r1, queries, durs=(), hist=0):
    """queries: instants; durs: triples (a, b, delta_ms) comparing the images of [a, a+delta] and [b, b+delta]"""
    inp = {"domain": [d0, d1], "range": [r0, r1], "queries": list(queries), "durs": [list(x) for x in durs],
           "hist": hist, "history": HISTORIES[hist]}
    m0, m1 = ms_of(d0), ms_of(d1)
    S = m1 - m0
    R = max(abs(r0), abs(r1))
    fr0, fr1 = Fr(r0), Fr(r1)
    w = fr1 - fr0
    sgn = (1 if w > 0 else -1) * (1 if S > 0 else -1)
    ok, s = run.guard(lambda: make_scale(d0, d1, r0, r1, hist), "C15.exception", inp)
    if not ok:
        return
    ok, lin = run.guard(lambda: make_linear(m0, m1, r0, r1), "C15.exception", inp)
    if not ok:
        return

    def u_of(t):
        return Fr(ms_of(t) - m0, S)

    def want(t):
        return fr0 + w * u_of(t)

    def tol(t):
        return 1e-9 * R * max(1.0, abs(float(u_of(t))))

    cache = {}

    def val(t):
        if t not in cache:
            ok_, v = run.guard(lambda: s(t), "C15.exception", dict(inp, t=t))
            if ok_ and not isinstance(v, (int, float)):
                run.violation("C15.affine", dict(inp, t=t), {"not_a_number": repr(v)})
                ok_ = False
            if ok_ and v != v:
                run.violation("C15.affine", dict(inp, t=t), {"nan": True})
                ok_ = False
            cache[t] = v if ok_ else None
        return cache[t]

    # end points
    for d, r, name in ((d0, r0, "first"), (d1, r1, "second")):
        v = val(d)
        if v is not None and abs(v - r) > 1e-9 * R:
            run.violation("C15.endpoints", dict(inp, t=d), {"which": name, "got": v, "want": r})
    lo, hi = min(d0, d1), max(d0, d1)
    conditioned = abs(S) * (R / abs(float(w))) * 8 * EPS <= 0.5
    if not conditioned:
        run.c15_illcond = getattr(run, "c15_illcond", 0) + 1
    for t in queries:
        v = val(t)
        if v is None:
            continue
        e = want(t)
        if abs(float(Fr(v) - e)) > tol(t):
            run.violation("C15.affine", dict(inp, t=t), {"got": v, "want": float(e), "u": float(u_of(t)), "tol": tol(t)})
        ok_, lv = run.guard(lambda: lin(ms_of(t)), "C15.exception", dict(inp, t=t))
        if ok_ and abs(lv - v) > tol(t):
            run.violation("C15.linear", dict(inp, t=t), {"time_scale": v, "linear_scale_of_ms": lv, "ms": ms_of(t)})
        if lo <= t <= hi and conditioned:
            ok_, back = run.guard(lambda: s.invert(v), "C15.exception", dict(inp, t=t))
            if ok_:
                if not isinstance(back, datetime):
                    run.violation("C15.invert", dict(inp, t=t), {"not_a_datetime": repr(back)})
                elif abs(us_of(back) - us_of(t)) > 1000:
                    run.violation("C15.invert", dict(inp, t=t), {"scale": v, "back": back, "off_us": us_of(back) - us_of(t)})
    # monotone along the range direction
    qs = sorted(set(queries), key=ms_of)
    for a, b in zip(qs, qs[1:]):
        va, vb = val(a), val(b)
        if va is None or vb is None:
            continue
        step = (vb - va) * sgn                       # must be > 0
        exact = float((want(b) - want(a)) * sgn)     # > 0 by construction
        U = max(1.0, abs(float(u_of(a))), abs(float(u_of(b))))
        if step < -(tol(a) + tol(b)):
            run.violation("C15.monotone", dict(inp, t=a, t2=b), {"scale_t": va, "scale_t2": vb, "direction": sgn})
        elif exact > 16 * EPS * R * U and not step > 0:
            run.violation("C15.monotone_strict", dict(inp, t=a, t2=b),
                          {"scale_t": va, "scale_t2": vb, "direction": sgn, "exact_distance": exact, "resolvable_above": 16 * EPS * R * U})
    # equal durations -> equal lengths
    for a, b, dms in durs:
        a2, b2 = a + timedelta(milliseconds=dms), b + timedelta(milliseconds=dms)
        vs = [val(x) for x in (a, a2, b, b2)]
        if any(x is None for x in vs):
            continue
        la, lb = vs[1] - vs[0], vs[3] - vs[2]
        tt = tol(a) + tol(a2) + tol(b) + tol(b2)
        if abs(la - lb) > tt:
            run.violation("C15.durations", dict(inp, t=a, t2=b, delta_ms=dms), {"len_a": la, "len_b": lb, "tol": tt})


def clipdt(ms):
    return dt_of(min(max(ms, ms_of(T_MIN)), ms_of(T_MAX)))


def std_queries(d0, d1, rng=None):
    m0, m1 = ms_of(d0), ms_of(d1)
    lo, hi = min(m0, m1), max(m0, m1)
    S = hi - lo
    ms = [m0, m1, lo + 1, hi - 1, lo + S // 2, lo + S // 4, lo + (3 * S) // 4, lo + S // 7, hi - S // 1000,
          lo - 1, hi + 1, lo - S, hi + S, lo - 10 * S, hi + 10 * S, ms_of(T_MIN), ms_of(T_MAX), lo + (S * 618) // 1000]
    if rng is not None:
        ms += [rng.randint(lo, hi) for _ in range(3)] + [rng.randint(ms_of(T_MIN), ms_of(T_MAX)) for _ in range(2)]
    qs = []
    for x in ms:
        t = clipdt(x)
        if t not in qs:
            qs.append(t)
    # equal-duration pairs: inside/inside, inside/outside
    durs = []
    for dms in sorted({1, max(1, S // 7), min(DAY_MS, max(1, S // 2))}):
        a = clipdt(lo)
        b = clipdt(lo + S // 3)
        c = clipdt(hi + S // 5 + 1)
        if ms_of(c) + dms <= ms_of(T_MAX) and ms_of(b) + dms <= ms_of(T_MAX):
            durs.append((a, b, dms))
            durs.append((b, c, dms))
    return qs, durs


def one(run, d0, d1, r0, r1, rng=None):
    run.case((ms_of(d0), ms_of(d1), r0, r1))
    qs, durs = std_queries(d0, d1, rng)
    check_scale(run, d0, d1, r0, r1, qs, durs, hist=run.evaluations % len(HISTORIES))


def random_range(rng):
    r = rng.random()
    if r < 0.3:
        a, b = 0, rng.choice([1, 100, 400, 960, 1920, 1e4, 0.5])
    elif r < 0.6:
        a = rng.randint(-1000, 1000)
        b = a + rng.choice([-1, 1]) * rng.choice([1, 10, 100, 360, 1000, 5000]) * rng.choice([1, 1, 0.5, 2.25])
    elif r < 0.8:
        a, b = round(rng.uniform(-2000, 2000), 3), round(rng.uniform(-2000, 2000), 3)
    else:
        sc = 10 ** rng.randint(-6, 9)
        a, b = rng.uniform(-1, 1) * sc, rng.uniform(-1, 1) * sc
    if rng.random() < 0.25:
        a, b = b, a
    if a == b:
        b = a + 1
    return a, b


def random_domain(rng):
    lo, hi = ms_of(T_MIN), ms_of(T_MAX)
    if rng.random() < 0.4:
        a, b = rng.randint(lo, hi), rng.randint(lo, hi)
    else:
        span = max(1, int(10 ** rng.uniform(0, 12.97)))
        span = min(span, hi - lo)
        a = rng.randint(lo, hi - span)
        b = a + span
    if a == b:
        b = a + 1 if a < hi else a - 1
    if rng.random() < 0.5:
        a, b = b, a
    return dt_of(a), dt_of(b)


def explore(run):
    quick = run.tier == "quick"
    pts = POINTS[:14] if quick else POINTS
    cut = False
    n = 0
    for d0 in pts:
        for d1 in pts:
            if d0 == d1:
                continue
            for r0, r1 in RANGES:
                one(run, d0, d1, r0, r1)
            n += 1
        if run.left() < run.budget * 0.3:
            cut = True
            run.note("enumerated pairs cut by the time budget after %d ordered pairs" % n)
            break
    if not cut:
        run.exhaustive("all %d ordered pairs of distinct special instants x %d ranges x standard queries" % (n, len(RANGES)))
    rng = run.rng
    while run.left() > 0:
        for _ in range(50):
            d0, d1 = random_domain(rng)
            r0, r1 = random_range(rng)
            one(run, d0, d1, r0, r1, rng)
    run.note("%d of %d (domain, range) cases cannot resolve 1 ms in doubles: round trip not evaluated there"
             % (getattr(run, "c15_illcond", 0), run.evaluations))


def replay(run, inp):
    d0, d1 = inp["domain"]
    r0, r1 = inp["range"]
    qs = list(inp.get("queries") or [])
    for k in ("t", "t2"):
        if inp.get(k) is not None and inp[k] not in qs:
            qs.append(inp[k])
    durs = [tuple(x) for x in (inp.get("durs") or [])]
    check_scale(run, d0, d1, r0, r1, qs, durs, hist=int(inp.get("hist") or 0))


if __name__ == "__main__":
    common.main("C15", SCOPE, explore, replay)
