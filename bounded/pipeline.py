"""Bounded stand-in for the export pipeline: scope S-PIPE (C07, C08, C09).

The oracles are written from the property statements and look ONLY at
  * the caller's original data and options,
  * the exported text (SVG parsed with xml.etree, TikZ parsed with regexes),
  * the objects the statements themselves name: the scale of the timeline after construction
    (domain, ticks(), tickFormat()) and the stub chain node.getPathFromRoot() / node.layerIndex.

  C07  one dot/link/box per datum (identified by a per-datum colour, i.e. read off the drawing), dots and
       ticks at one increasing affine map of time computed here in exact rationals, link continuity and
       way-points, box size, verbatim text, tick texts
  C08  drawn boxes pairwise disjoint, on the named side, >= layerGap-1 from the axis, layers nested outwards
  C09  SVG and TikZ pictures equal element by element inside the main layer

Coordinates of both back-ends are brought to ONE convention (x to the right, y downwards, origin = origin of
the main layer); for TikZ the unit vectors are read from the tikzpicture options.
"""
import copy
import datetime
import re
from fractions import Fraction as Fr
from xml.etree import ElementTree as ET

from . import common  # noqa: F401  (sets sys.path)
from labella.timeline import TimelineSVG, TimelineTex
from labella.scale import LinearScale
from labella.tex import uni2tex

ITEM_HEIGHT = 13.0  # documented: a datum with an explicit width has the fixed text height 13
DEFAULT_MARGIN = {"left": 20, "right": 20, "top": 20, "bottom": 20}
DEFAULT_PADDING = {"left": 2, "right": 2, "top": 3, "bottom": 2}
COLOUR_KEYS = ("dotColor", "linkColor", "labelBgColor", "labelTextColor", "borderColor")
EPOCH = datetime.datetime(1970, 1, 1)


# ----------------------------------------------------------------------------
# colour functions (named, so that a case stays JSON-able)
# ----------------------------------------------------------------------------
def idcol(k):
    """A 24-bit colour unique per datum id (multiplication by an odd number is a bijection mod 2**24)."""
    return (k * 2654435761 + 0x123456) & 0xFFFFFF


def triple(v):
    return ((v >> 16) & 255, (v >> 8) & 255, v & 255)


COLOUR_FNS = {
    "byid": lambda d: "#%06x" % idcol(d["id"]),
    "byidU": lambda d: "#%06X" % idcol(d["id"] + 7919),
    "byid3": lambda d: "#%03x" % ((d["id"] * 37 + 5) & 0xFFF),
    "parity": lambda d: "#c33" if d["id"] % 2 else "#1F77B4",
    "bytext": lambda d: "#0a0" if d.get("text") else "0000AA",
}


# ----------------------------------------------------------------------------
# case -> real call
# ----------------------------------------------------------------------------
def real_options(jopts):
    o = copy.deepcopy(jopts)
    kind = o.pop("scale", "time")
    if kind == "linear":
        o["scale"] = LinearScale()
    for k in COLOUR_KEYS:
        v = o.get(k)
        if isinstance(v, str) and v.startswith("fn:"):
            o[k] = COLOUR_FNS[v[3:]]
    return o


def real_data(jdata):
    out = []
    for k, d in enumerate(jdata):
        e = {"time": d["time"], "width": d["width"], "id": k}
        if "text" in d and d["text"] is not None:
            e["text"] = d["text"]
        out.append(e)
    return out


def render(case, backend):
    """Build the timeline on private copies and export it (no file name: nothing is written or compiled)."""
    data = real_data(case["data"])
    opts = real_options(case["options"])
    cls = TimelineSVG if backend == "svg" else TimelineTex
    tl = cls(data, opts)
    out = tl.export()
    return tl, out


def with_id_colours(case):
    c = {"data": case["data"], "options": dict(case["options"])}
    c["options"].update({"dotColor": "fn:byid", "linkColor": "fn:byid", "labelBgColor": "fn:byid"})
    return c


def opt(case, name, default):
    v = case["options"].get(name)
    return default if v is None else v


def axis_length(case):
    o = case["options"]
    m = o.get("margin", DEFAULT_MARGIN)
    if o.get("direction", "right") in ("up", "down"):
        return o.get("initialWidth", 400) - m["left"] - m["right"]
    return o.get("initialHeight", 400) - m["top"] - m["bottom"]


# ----------------------------------------------------------------------------
# SVG parser
# ----------------------------------------------------------------------------
NUM = r"[-+]?(?:\d+\.?\d*|\.\d+)(?:[eE][-+]?\d+)?"
TRANSLATE_RE = re.compile(r"^\s*translate\(\s*(%s)\s*(?:[, ]\s*(%s)\s*)?\)\s*$" % (NUM, NUM))
RGB_RE = re.compile(r"^rgb\(\s*(\d+)\s*,\s*(\d+)\s*,\s*(\d+)\s*\)$")


def new_pic(backend):
    return {"backend": backend, "errors": [], "main_shift": None, "axis": [], "ticks": [], "links": [], "labels": [],
            "dots": []}


def _style(s):
    out = {}
    for part in (s or "").split(";"):
        if ":" in part:
            k, v = part.split(":", 1)
            out[k.strip()] = v.strip()
    return out


def _rgb(s, pic, what):
    m = RGB_RE.match(s or "")
    if not m:
        pic["errors"].append("%s: colour %r is not rgb(r, g, b)" % (what, s))
        return None
    return tuple(int(g) for g in m.groups())


def _translate(s, pic):
    if s is None:
        return (0.0, 0.0), ("0", "0")
    m = TRANSLATE_RE.match(s)
    if not m:
        pic["errors"].append("unsupported transform %r" % s)
        return (0.0, 0.0), ("0", "0")
    a, b = m.group(1), m.group(2) or "0"
    return (float(a), float(b)), (a, b)


def _num(el, name, pic, default="0"):
    s = el.get(name, default)
    try:
        return float(s)
    except ValueError:
        pic["errors"].append("<%s %s=%r> is not a number" % (el.tag, name, s))
        return float("nan")


def parse_path(d, pic):
    """'M x y (C 6 numbers | L 2 numbers)*' -> start point and segments (each starts where the previous ended)."""
    toks = (d or "").split()
    i = 0
    start = None
    segs = []
    cur = None
    arity = {"M": 2, "C": 6, "L": 2}
    while i < len(toks):
        cmd = toks[i]
        if cmd not in arity:
            pic["errors"].append("path: unexpected token %r in %r" % (cmd, d[:80]))
            return None
        raw = toks[i + 1:i + 1 + arity[cmd]]
        try:
            nums = [float(x) for x in raw]
        except ValueError:
            nums = []
        if len(nums) != arity[cmd]:
            pic["errors"].append("path: command %s lacks its %d numbers in %r" % (cmd, arity[cmd], d[:80]))
            return None
        i += 1 + arity[cmd]
        pts = [(nums[k], nums[k + 1]) for k in range(0, len(nums), 2)]
        if cmd == "M":
            if start is not None or segs:
                pic["errors"].append("path: a second move-to breaks the path %r" % d[:80])
                return None
            start = pts[0]
            cur = start
        else:
            if cur is None:
                pic["errors"].append("path: does not begin with a move-to: %r" % d[:80])
                return None
            segs.append({"kind": cmd, "start": cur, "pts": pts, "explicit_start": False})
            cur = pts[-1]
    if start is None:
        pic["errors"].append("path: empty")
        return None
    return {"start": start, "segs": segs}


def parse_svg(raw):
    pic = new_pic("svg")
    try:
        root = ET.fromstring(raw)
    except ET.ParseError as e:
        pic["errors"].append("not well-formed XML: %s" % e)
        return pic
    mains = [g for g in root.iter("g") if g.get("class") == "main-layer"]
    if root.tag != "svg" or len(mains) != 1:
        pic["errors"].append("expected one <svg> with one main-layer, got root %r and %d" % (root.tag, len(mains)))
        return pic
    main = mains[0]
    pic["main_shift"] = _translate(main.get("transform"), pic)[0]

    def walk(el, off):
        for ch in el:
            cls = ch.get("class")
            if ch.tag == "g":
                t, ts = _translate(ch.get("transform"), pic)
                o2 = (off[0] + t[0], off[1] + t[1])
                if cls == "tick":
                    texts = ch.findall("text")
                    if len(texts) != 1 or len(ch.findall("line")) != 1:
                        pic["errors"].append("tick without exactly one line and one text")
                    pic["ticks"].append({"pos": o2, "text": (texts[0].text or "") if texts else None})
                elif cls == "label-g":
                    rects = [r for r in ch if r.tag == "rect"]
                    texts = [r for r in ch if r.tag == "text"]
                    if len(rects) != 1 or len(texts) > 1 or len(ch) != len(rects) + len(texts):
                        pic["errors"].append("label-g with %d rect / %d text / %d children" % (len(rects), len(texts), len(ch)))
                        continue
                    r = rects[0]
                    st = _style(r.get("style"))
                    lab = {"origin": (o2[0] + _num(r, "x", pic), o2[1] + _num(r, "y", pic)), "origin_s": ts,
                           "size": (_num(r, "width", pic), _num(r, "height", pic)),
                           "size_s": (r.get("width"), r.get("height")),
                           "bg": _rgb(st.get("fill"), pic, "label fill"),
                           "border": _rgb(st.get("stroke"), pic, "label stroke") if "stroke" in st else None,
                           "text": None, "textcolor": None}
                    if texts:
                        lab["text"] = texts[0].text or ""
                        lab["textcolor"] = _rgb(_style(texts[0].get("style")).get("fill"), pic, "label text fill")
                    pic["labels"].append(lab)
                else:
                    walk(ch, o2)
            elif ch.tag == "line" and cls == "timeline":
                pic["axis"].append({"p1": (off[0] + _num(ch, "x1", pic), off[1] + _num(ch, "y1", pic)),
                                    "p2": (off[0] + _num(ch, "x2", pic), off[1] + _num(ch, "y2", pic))})
            elif ch.tag == "path" and cls == "link":
                p = parse_path(ch.get("d"), pic)
                if p is not None:
                    if off != (0.0, 0.0):
                        pic["errors"].append("link inside a translated group")
                    p["color"] = _rgb(_style(ch.get("style")).get("stroke"), pic, "link stroke")
                    pic["links"].append(p)
            elif ch.tag == "circle" and cls == "dot":
                pic["dots"].append({"pos": (off[0] + _num(ch, "cx", pic), off[1] + _num(ch, "cy", pic)),
                                    "r": _num(ch, "r", pic),
                                    "color": _rgb(_style(ch.get("style")).get("fill"), pic, "dot fill")})
            else:
                pic["errors"].append("unexpected element <%s class=%r> in the main layer" % (ch.tag, cls))

    walk(main, (0.0, 0.0))
    return pic


# ----------------------------------------------------------------------------
# TikZ parser
# ----------------------------------------------------------------------------
MARKERS = ("% shift for the margin", "% main layer", "% axis", "% axis layer", "% link layer", "% label layer", "% dots")
COLORDEF_RE = re.compile(r"^\\definecolor\{(dotColor|labelBgColor|labelTextColor|linkColor|borderColor)([A-Z]+)\}"
                         r"\{HTML\}\{([^}]*)\}$", re.M)
TEXTDEF_RE = re.compile(r"^\\def\\text([A-Z]+)\{(.*)\}$", re.M)
PICTURE_RE = re.compile(r"\\begin\{tikzpicture\}\[x=(%s)bp,y=(%s)bp\]" % (NUM, NUM))
SHIFT_RE = re.compile(r"^\\begin\{scope\}\[shift=\{\((%s), (%s)\)\}\]$" % (NUM, NUM))
AXIS_RE = re.compile(r"\\draw\[([^\]]*)\] \((%s), (%s)\) -- \((%s), (%s)\);" % (NUM, NUM, NUM, NUM))
TICK_RE = re.compile(r"\\begin\{scope\}\[shift=\{\((%s), (%s)\)\}\]\n"
                     r"\\draw\[([^\]]*)\] \(([^)]*)\) -- \(([^)]*)\)\n"
                     r"node\[anchor=(\w+)\] \{(.*)\};\n\\end\{scope\}" % (NUM, NUM))
LINK_RE = re.compile(r"\\draw\[color=linkColor(?P<id>[A-Z]+), (?P<th>[^\]]*)\] \((?P<sx>%(n)s), (?P<sy>%(n)s)\) "
                     r"(?:\.\. controls\n\((?P<ax>%(n)s), (?P<ay>%(n)s)\) and \((?P<bx>%(n)s), (?P<by>%(n)s)\) "
                     r"\.\. \((?P<cx>%(n)s), (?P<cy>%(n)s)\);|-- \((?P<lx>%(n)s), (?P<ly>%(n)s)\);)" % {"n": NUM})
LABEL_RE = re.compile(r"\\begin\{scope\}\[shift=\{\((?P<x>%(n)s), (?P<y>%(n)s)\)\}\]\n"
                      r"(?:\\fill\[color=labelBgColor(?P<bg1>[A-Z]+), rounded corners=2pt\]"
                      r"|\\draw\[(?P<bth>[^\]]*?), borderColor(?P<bd>[A-Z]+), fill=labelBgColor(?P<bg2>[A-Z]+), "
                      r"rounded corners=2pt\])\n"
                      r"\((?P<x0>%(n)s), (?P<y0>%(n)s)\) rectangle \((?P<w>%(n)s), (?P<h>%(n)s)\) "
                      r"node\[midway, yshift=-\.75bp,\s*anchor=center, text=labelTextColor(?P<tc>[A-Z]+)\] "
                      r"\{\\strut (?P<txt>.*)\};\n\\end\{scope\}" % {"n": NUM})
DOT_RE = re.compile(r"\\draw node \[circle, inner sep=0pt, minimum size=(%s)bp, \nfill=dotColor([A-Z]+)\] at "
                    r"\((%s), (%s)\) \{\};" % (NUM, NUM, NUM))


def html_triple(code, pic, what):
    """Independent conversion of a \\definecolor HTML code (RRGGBB) to an integer triple."""
    if code is None or not re.match(r"^[0-9A-Fa-f]{6}$", code):
        pic["errors"].append("%s: HTML colour code %r is not six hex digits" % (what, code))
        return None
    digits = "0123456789abcdef"
    v = [digits.index(c) for c in code.lower()]
    return (16 * v[0] + v[1], 16 * v[2] + v[3], 16 * v[4] + v[5])


def parse_tikz(tex):
    pic = new_pic("tikz")
    err = pic["errors"]
    head, sep, body = tex.partition("\\begin{document}")
    if not sep:
        err.append("no \\begin{document}")
        return pic
    colours = {}
    for m in COLORDEF_RE.finditer(head):
        key = (m.group(1), m.group(2))
        if key in colours:
            err.append("colour %s%s defined twice" % key)
        colours[key] = m.group(3)
    texts = {}
    for m in TEXTDEF_RE.finditer(head):
        if m.group(1) in texts:
            err.append("\\text%s defined twice" % m.group(1))
        texts[m.group(1)] = m.group(2)
    pic["texts"] = texts
    m = PICTURE_RE.search(body)
    if not m:
        err.append("tikzpicture without [x=..bp,y=..bp]")
        return pic
    ux, uy = float(m.group(1)), float(m.group(2))

    def P(xs, ys):  # picture coordinates -> x right, y DOWN (TikZ's own y axis points up)
        return (float(xs) * ux, -float(ys) * uy)

    def colour(kind, ident, what):
        if (kind, ident) not in colours:
            err.append("%s: colour %s%s is not defined" % (what, kind, ident))
            return None
        return html_triple(colours[(kind, ident)], pic, what)

    lines = body.split("\n")
    where = {}
    for idx, ln in enumerate(lines):
        if ln in MARKERS:
            if ln in where:
                err.append("marker %r twice" % ln)
            where[ln] = idx
    order = sorted(where.values())

    def section(name):
        if name not in where:
            return None
        a = where[name]
        later = [i for i in order if i > a]
        b = later[0] if later else len(lines)
        return "\n".join(lines[a + 1:b])

    for need in ("% main layer", "% axis", "% link layer", "% label layer", "% dots"):
        if need not in where:
            err.append("section %r missing" % need)
    if err:
        return pic
    ms = SHIFT_RE.match(lines[where["% main layer"] + 1])
    if not ms:
        err.append("main layer without a shift")
    else:
        pic["main_shift"] = P(ms.group(1), ms.group(2))
    # axis line
    sec = section("% axis")
    for m in AXIS_RE.finditer(sec):
        pic["axis"].append({"p1": P(m.group(2), m.group(3)), "p2": P(m.group(4), m.group(5))})
    if sec.count("\\draw") != len(pic["axis"]):
        err.append("axis section: unparsed \\draw")
    # ticks
    sec = section("% axis layer")
    if sec is not None:
        for m in TICK_RE.finditer(sec):
            pic["ticks"].append({"pos": P(m.group(1), m.group(2)), "text": m.group(7)})
        if sec.count("\\draw") != len(pic["ticks"]) or sec.count("node[") != len(pic["ticks"]):
            err.append("axis layer: %d \\draw but %d ticks parsed" % (sec.count("\\draw"), len(pic["ticks"])))
    # links: consecutive \draw statements with one colour name form one link
    sec = section("% link layer")
    nparsed = 0
    seen = []
    for m in LINK_RE.finditer(sec):
        nparsed += 1
        g = m.groupdict()
        st = P(g["sx"], g["sy"])
        if g["lx"] is not None:
            seg = {"kind": "L", "start": st, "pts": [P(g["lx"], g["ly"])], "explicit_start": True}
        else:
            seg = {"kind": "C", "start": st, "pts": [P(g["ax"], g["ay"]), P(g["bx"], g["by"]), P(g["cx"], g["cy"])],
                   "explicit_start": True}
        if seen and seen[-1] == g["id"]:
            pic["links"][-1]["segs"].append(seg)
        else:
            if g["id"] in seen:
                err.append("link %s drawn in two separate runs" % g["id"])
            seen.append(g["id"])
            pic["links"].append({"start": st, "segs": [seg], "id": g["id"],
                                 "color": colour("linkColor", g["id"], "link")})
    if sec.count("\\draw") != nparsed:
        err.append("link layer: %d \\draw but %d parsed" % (sec.count("\\draw"), nparsed))
    # labels
    sec = section("% label layer")
    for m in LABEL_RE.finditer(sec):
        g = m.groupdict()
        bgid = g["bg1"] or g["bg2"]
        o = P(g["x"], g["y"])
        c0 = P(g["x0"], g["y0"])
        c1 = P(g["w"], g["h"])
        x0, y0 = o[0] + min(c0[0], c1[0]), o[1] + min(c0[1], c1[1])
        lab = {"origin": (x0, y0), "origin_s": (g["x"], g["y"]), "size": (abs(c1[0] - c0[0]), abs(c1[1] - c0[1])),
               "size_s": (g["w"], g["h"]),
               "bg": colour("labelBgColor", bgid, "label"), "id": bgid,
               "border": colour("borderColor", g["bd"], "label border") if g["bd"] else None,
               "text": None, "textcolor": colour("labelTextColor", g["tc"], "label text"), "textid": None}
        if g["txt"] != "":
            mt = re.match(r"^\\text([A-Z]+)$", g["txt"])
            if not mt or mt.group(1) not in texts:
                err.append("label text %r is not a defined \\text macro" % g["txt"])
            else:
                lab["textid"] = mt.group(1)
                lab["text"] = texts[mt.group(1)]
        pic["labels"].append(lab)
    if sec.count("rectangle") != len(pic["labels"]) or sec.count("\\begin{scope}[") != len(pic["labels"]):
        err.append("label layer: %d rectangles but %d parsed" % (sec.count("rectangle"), len(pic["labels"])))
    # dots
    sec = section("% dots")
    for m in DOT_RE.finditer(sec):
        pic["dots"].append({"pos": P(m.group(3), m.group(4)), "size": float(m.group(1)), "id": m.group(2),
                            "color": colour("dotColor", m.group(2), "dot")})
    if sec.count("\\draw") != len(pic["dots"]):
        err.append("dots: %d \\draw but %d parsed" % (sec.count("\\draw"), len(pic["dots"])))
    return pic


def parse(backend, out):
    return parse_svg(out) if backend == "svg" else parse_tikz(out)


# ----------------------------------------------------------------------------
# geometry helpers
# ----------------------------------------------------------------------------
class Ctx(object):
    def __init__(self, case, backend, tl, pic):
        self.case = case
        self.backend = backend
        self.tl = tl
        self.pic = pic
        self.inp = {"data": case["data"], "options": case["options"], "backend": backend}
        self.direction = case["options"].get("direction", "right")
        self.horizontal = self.direction in ("up", "down")  # the AXIS is horizontal
        self.sign = -1.0 if self.direction in ("up", "left") else 1.0
        self.L = axis_length(case)
        self.n = len(case["data"])
        self.tol = 1e-6 * max(1.0, abs(self.L)) + 6e-7  # 1e-6 relative + the 6 decimals of "%f"

    def along(self, p):
        return p[0] if self.horizontal else p[1]

    def across(self, p):
        return p[1] if self.horizontal else p[0]

    def out(self, p):
        """distance from the axis towards the side named by the direction"""
        return self.sign * self.across(p)

    def pt(self, along, outward):
        a = self.sign * outward
        return (along, a) if self.horizontal else (a, along)

    def box(self, lab):
        """(along0, along1, out0, out1) of a drawn box"""
        x0, y0 = lab["origin"]
        x1, y1 = x0 + lab["size"][0], y0 + lab["size"][1]
        if self.horizontal:
            a0, a1, c0, c1 = x0, x1, y0, y1
        else:
            a0, a1, c0, c1 = y0, y1, x0, x1
        o = sorted((self.sign * c0, self.sign * c1))
        return (a0, a1, o[0], o[1])


def exact_time(t):
    """The datum's time exactly as supplied, as a rational (microseconds since a fixed epoch / the number itself)."""
    if isinstance(t, datetime.datetime):
        d = t - EPOCH
    elif isinstance(t, datetime.date):
        d = datetime.datetime(t.year, t.month, t.day) - EPOCH
    else:
        return Fr(t)
    return Fr((d.days * 86400 + d.seconds) * 10 ** 6 + d.microseconds)


def affine_map(ctx):
    """The ONE affine map of the statement: axis domain -> [0, axis length]; None when the domain is a point."""
    given = ctx.case["options"].get("domain")
    dom = given if given else ctx.tl.options["scale"].domain()
    d0, d1 = exact_time(dom[0]), exact_time(dom[-1])
    if d0 == d1:
        return None, dom
    L = Fr(ctx.L)
    return (lambda t: float((exact_time(t) - d0) / (d1 - d0) * L)), dom


def near(p, q, tol):
    return abs(p[0] - q[0]) <= tol and abs(p[1] - q[1]) <= tol


def _ordered(ids):
    return sorted(ids, key=lambda v: (v is None, 0 if v is None else v))


def associate(ctx, run, prop):
    """datum id -> its dot, link, label (read off the drawing through the per-datum colours) and its node."""
    pic, n = ctx.pic, ctx.n
    o = ctx.case["options"]
    by_colour = all(o.get(k) == "fn:byid" for k in ("dotColor", "linkColor", "labelBgColor"))
    if not (len(pic["dots"]) == len(pic["links"]) == len(pic["labels"]) == n):
        run.violation(prop + ".count", ctx.inp, {"data": n, "dots": len(pic["dots"]), "links": len(pic["links"]),
                                                  "labels": len(pic["labels"])})
        return None
    nodes = list(ctx.tl.nodes)
    node_ids = []
    for nd in nodes:
        try:
            node_ids.append(nd.data.data["id"])
        except Exception:
            node_ids.append(None)
    if _ordered(node_ids) != list(range(n)):
        run.violation(prop + ".count", ctx.inp, {"labels_of_the_engine": node_ids, "data": n})
        return None
    out = {k: {"node": nodes[node_ids.index(k)]} for k in range(n)}
    if by_colour:
        col2id = {triple(idcol(k)): k for k in range(n)}
        for kind, field in (("dots", "color"), ("links", "color"), ("labels", "bg")):
            ids = [col2id.get(e[field]) for e in pic[kind]]
            if _ordered(ids) != list(range(n)):
                run.violation(prop + ".count", ctx.inp, {"kind": kind, "datum_of_each_element": ids})
                return None
            for e, k in zip(pic[kind], ids):
                out[k][kind[:-1]] = e
    else:  # no identifying colours: elements are taken in the order of the engine's labels
        for kind in ("dots", "links", "labels"):
            for e, k in zip(pic[kind], node_ids):
                out[k][kind[:-1]] = e
    return out


# ----------------------------------------------------------------------------
# C07
# ----------------------------------------------------------------------------
def check_c07(run, ctx):
    pic, case, inp = ctx.pic, ctx.case, ctx.inp
    once = set()

    def bad(clause, observed):
        if clause not in once:  # one report per clause and case
            once.add(clause)
            run.violation("C07." + clause, inp, observed)

    if pic["errors"]:
        bad("structure", pic["errors"][:3])
        return
    tol = ctx.tol
    L = ctx.L
    # the axis line spans [0, L]
    if len(pic["axis"]) != 1 or not near(pic["axis"][0]["p1"], (0, 0), 0) or not near(pic["axis"][0]["p2"], ctx.pt(L, 0), 1e-9):
        bad("axis_line", {"drawn": pic["axis"], "axis_length": L})
    assoc = associate(ctx, run, "C07")
    if assoc is None:
        return
    A, dom = affine_map(ctx)
    pad = dict(DEFAULT_PADDING)
    pad = case["options"].get("labelPadding", pad)
    gap = opt(case, "layerGap", 60)
    thick = max(ctx.box(l)[3] - ctx.box(l)[2] for l in pic["labels"])  # layer thickness = max label thickness
    strict_padding_ok = True
    for k, d in enumerate(case["data"]):
        e = assoc[k]
        dot, link, lab, node = e["dot"], e["link"], e["label"], e["node"]
        # --- dot: on the axis line, at the affine image of the datum's own time
        pos = ctx.along(dot["pos"])
        if abs(ctx.across(dot["pos"])) > 0 or not (-tol <= pos <= L + tol):
            bad("dot_on_axis", {"datum": k, "dot": dot["pos"], "axis_length": L})
        if A is not None and abs(pos - A(d["time"])) > tol:
            bad("dot_at_time", {"datum": k, "time": d["time"], "dot": dot["pos"], "expected": A(d["time"]), "domain": dom})
        # --- link: continuous, from the dot through the stubs to the box
        pts = [link["start"]]
        for s in link["segs"]:
            if s["start"] != pts[-1]:
                bad("link_continuous", {"datum": k, "segment_starts": s["start"], "previous_ended": pts[-1]})
            pts.append(s["pts"][-1])
        if not near(link["start"], dot["pos"], tol):
            bad("link_starts_at_dot", {"datum": k, "link_start": link["start"], "dot": dot["pos"]})
        hops = node.getPathFromRoot()
        want = []
        for j, stub in enumerate(hops[:-1]):
            off = j * (gap + thick) + gap
            want.append(ctx.pt(stub.currentPos, off))
            want.append(ctx.pt(stub.currentPos, off + thick))
        i = 1
        missing = None
        for w in want:  # in this order, between the dot and the end
            while i < len(pts) - 1 and not near(pts[i], w, tol):
                i += 1
            if i >= len(pts) - 1:
                missing = w
                break
            i += 1
        if missing is not None:
            bad("link_through_stubs", {"datum": k, "path_points": pts, "stub_way_points": want, "missing": missing})
        b = ctx.box(lab)
        mid = ctx.pt((b[0] + b[1]) / 2.0, b[2])
        if len(pts) < 2 or not near(pts[-1], mid, 1.0 + 1e-9):
            bad("link_ends_at_box", {"datum": k, "link_end": pts[-1], "middle_of_axis_facing_edge": mid, "box": lab})
        # --- box size: the datum's size plus padding
        W = d["width"]
        has_text = bool(d.get("text"))
        lr, tb = pad["left"] + pad["right"], pad["top"] + pad["bottom"]
        w, h = lab["size"]
        rel = 1e-9 * (1 + abs(w) + abs(h))
        if ctx.horizontal:
            ok = abs(w - (W + lr)) <= rel and abs(h - (ITEM_HEIGHT + tb)) <= rel
        else:
            # direction convention: a text label keeps its text horizontal (width across the axis), a label without
            # text is turned with the axis (width along the axis).  The statement does not say which pair of padding
            # sides goes with which dimension of a turned label: either pairing is accepted, the strict one is noted.
            dw, dh = (w - W, h - ITEM_HEIGHT) if has_text else (w - ITEM_HEIGHT, h - W)
            ok = (abs(dw - lr) <= rel and abs(dh - tb) <= rel) or (abs(dw - tb) <= rel and abs(dh - lr) <= rel)
            if ok and not (abs(dw - lr) <= rel and abs(dh - tb) <= rel):
                strict_padding_ok = False
        if not ok:
            bad("box_size", {"datum": k, "width": W, "padding": pad, "drawn_size": lab["size"], "text": has_text})
        # --- text verbatim
        if ctx.backend == "svg":
            if has_text:
                if lab["text"] != d["text"]:
                    bad("text", {"datum": k, "text": d["text"], "drawn": lab["text"]})
            elif lab["text"]:
                bad("text", {"datum": k, "text": d.get("text"), "drawn": lab["text"]})
        else:
            if has_text:
                if lab["text"] != uni2tex(d["text"]):
                    bad("text", {"datum": k, "text": d["text"], "uni2tex": uni2tex(d["text"]), "macro_body": lab["text"]})
            elif lab["text"]:
                bad("text", {"datum": k, "text": d.get("text"), "macro_body": lab["text"]})
    if not strict_padding_ok:
        run.pad_rotated = getattr(run, "pad_rotated", 0) + 1
    # --- ticks
    scale = ctx.tl.options["scale"]
    if not opt(case, "showTicks", True):
        if pic["ticks"]:
            bad("ticks_hidden", {"drawn": len(pic["ticks"])})
        return
    ticks = list(scale.ticks())
    fmt = scale.tickFormat()
    if len(ticks) != len(pic["ticks"]):
        bad("tick_count", {"ticks_of_the_scale": len(ticks), "drawn": len(pic["ticks"])})
        return
    ttol = tol if ctx.backend == "svg" else 1.0 + tol  # TikZ truncates tick origins to integers
    for tv, tk in zip(ticks, pic["ticks"]):
        if tk["text"] != fmt(tv):
            bad("tick_text", {"tick": tv, "formatted": fmt(tv), "drawn": tk["text"]})
        p = ctx.along(tk["pos"])
        if abs(ctx.across(tk["pos"])) > 0 or not (-ttol <= p <= L + ttol):
            bad("tick_on_axis", {"tick": tv, "drawn": tk["pos"], "axis_length": L})
        if A is not None and abs(p - A(tv)) > ttol:
            bad("tick_at_time", {"tick": tv, "drawn": tk["pos"], "expected": A(tv), "domain": dom})
        if abs(p - scale(tv)) > ttol:
            bad("tick_at_scale", {"tick": tv, "drawn": tk["pos"], "scale": scale(tv)})


# ----------------------------------------------------------------------------
# C08
# ----------------------------------------------------------------------------
def c08_applies(case):
    ns = case["options"].get("labella", {}).get("nodeSpacing", 3)
    return ns >= 3 and opt(case, "layerGap", 60) >= 1


def check_c08(run, ctx):
    pic, case, inp = ctx.pic, ctx.case, ctx.inp
    if pic["errors"]:
        run.violation("C08.structure", inp, pic["errors"][:3])
        return
    assoc = associate(ctx, run, "C08")
    if assoc is None:
        return
    gap = opt(case, "layerGap", 60)
    eps = 1e-9
    boxes = []
    for k in range(ctx.n):
        boxes.append((k, assoc[k]["node"].layerIndex, ctx.box(assoc[k]["label"])))
    seen = set()
    for k, layer, b in boxes:
        if b[2] < gap - 1 - eps and "side" not in seen:
            seen.add("side")
            run.violation("C08.side_and_gap", inp, {"datum": k, "layer": layer, "box(along0,along1,out0,out1)": b,
                                                    "layerGap": gap, "direction": ctx.direction})
    for i in range(len(boxes)):
        ka, la, a = boxes[i]
        for j in range(i + 1, len(boxes)):
            kb, lb, b = boxes[j]
            if (min(a[1], b[1]) - max(a[0], b[0]) > eps and min(a[3], b[3]) - max(a[2], b[2]) > eps
                    and "disjoint" not in seen):
                seen.add("disjoint")
                run.violation("C08.disjoint", inp, {"a": ka, "b": kb, "box_a": a, "box_b": b, "layers": [la, lb]})
            if la != lb and "layers" not in seen:
                (ln, nb), (lf, fb) = sorted(((la, a), (lb, b)), key=lambda x: x[0])
                if fb[2] < nb[3] - eps:
                    seen.add("layers")
                    run.violation("C08.layers_nested", inp, {"a": ka, "b": kb, "near_layer": ln, "near_box": nb,
                                                             "far_layer": lf, "far_box": fb})


# ----------------------------------------------------------------------------
# C09
# ----------------------------------------------------------------------------
def check_c09(run, case, svg, tikz, report=None):
    """svg, tikz: parsed pictures of the SAME case.  report(clause, observed) defaults to a violation."""
    inp = {"data": case["data"], "options": case["options"], "backend": "both"}
    once = set()

    def bad(clause, observed):
        if clause in once:
            return
        once.add(clause)
        if report is not None:
            report(clause, observed)
        else:
            run.violation("C09." + clause, inp, observed)

    if svg["errors"] or tikz["errors"]:
        bad("structure", {"svg": svg["errors"][:3], "tikz": tikz["errors"][:3]})
        return
    if svg["main_shift"] != tikz["main_shift"]:
        bad("main_layer_origin", {"svg": svg["main_shift"], "tikz": tikz["main_shift"]})
    if len(svg["axis"]) != 1 or len(tikz["axis"]) != 1 or svg["axis"][0] != tikz["axis"][0]:
        bad("axis_line", {"svg": svg["axis"], "tikz": tikz["axis"]})
    for kind in ("ticks", "links", "labels", "dots"):
        if len(svg[kind]) != len(tikz[kind]):
            bad("count_" + kind, {"svg": len(svg[kind]), "tikz": len(tikz[kind])})
            return
    show_border = bool(case["options"].get("showBorder", False))
    for i, (a, b) in enumerate(zip(svg["labels"], tikz["labels"])):
        if a["origin"] != b["origin"] or a["origin"] != (int(a["origin"][0]), int(a["origin"][1])):
            bad("label_origin", {"label": i, "svg": a["origin_s"], "tikz": b["origin_s"]})
        if a["size"] != b["size"]:
            bad("label_size", {"label": i, "svg": a["size_s"], "tikz": b["size_s"]})
        if a["bg"] != b["bg"]:
            bad("label_bg_colour", {"label": i, "svg": a["bg"], "tikz": b["bg"]})
        if (a["border"] is None) != (b["border"] is None) or (a["border"] is not None) != show_border:
            bad("border_shown", {"label": i, "svg": a["border"], "tikz": b["border"], "showBorder": show_border})
        elif a["border"] != b["border"]:
            bad("border_colour", {"label": i, "svg": a["border"], "tikz": b["border"]})
        if (a["text"] is None) != (b["text"] is None):
            bad("label_text", {"label": i, "svg": a["text"], "tikz": b["text"]})
        elif a["text"] is not None:
            if uni2tex(a["text"]) != b["text"]:
                bad("label_text", {"label": i, "svg": a["text"], "uni2tex": uni2tex(a["text"]), "tikz": b["text"]})
            if a["textcolor"] != b["textcolor"]:
                bad("label_text_colour", {"label": i, "svg": a["textcolor"], "tikz": b["textcolor"]})
    for i, (a, b) in enumerate(zip(svg["links"], tikz["links"])):
        pa = [a["start"]] + [(s["kind"], s["pts"]) for s in a["segs"]]
        pb = [b["start"]] + [(s["kind"], s["pts"]) for s in b["segs"]]
        cont = all(b["segs"][j]["start"] == b["segs"][j - 1]["pts"][-1] for j in range(1, len(b["segs"])))
        if pa != pb or not cont:
            bad("link_points", {"link": i, "svg": pa, "tikz": pb, "tikz_continuous": cont})
        if a["color"] != b["color"]:
            bad("link_colour", {"link": i, "svg": a["color"], "tikz": b["color"]})
    for i, (a, b) in enumerate(zip(svg["dots"], tikz["dots"])):
        if not near(a["pos"], b["pos"], 5e-7 + 1e-9):  # TikZ prints six decimals (half a unit of the 6th + float noise)
            bad("dot_position", {"dot": i, "svg": a["pos"], "tikz": b["pos"]})
        if a["color"] != b["color"]:
            bad("dot_colour", {"dot": i, "svg": a["color"], "tikz": b["color"]})
        if b["size"] != 2 * a["r"]:
            bad("dot_size", {"dot": i, "svg_radius": a["r"], "tikz_diameter": b["size"]})
    for i, (a, b) in enumerate(zip(svg["ticks"], tikz["ticks"])):
        if not (abs(a["pos"][0] - b["pos"][0]) < 1 and abs(a["pos"][1] - b["pos"][1]) < 1):
            bad("tick_position", {"tick": i, "svg": a["pos"], "tikz": b["pos"]})
        if a["text"] != b["text"]:
            bad("tick_text", {"tick": i, "svg": a["text"], "tikz": b["text"]})


# ----------------------------------------------------------------------------
# scope S-PIPE: generators
# ----------------------------------------------------------------------------
DIRECTIONS = ["up", "down", "left", "right"]
KINDS = ["date", "datetime", "mixed", "linear"]
SHAPES = ["single", "same2", "unsorted", "dense", "wide"]
D = datetime.date
DT = datetime.datetime

TEXTS = {
    "plain": ["Label", "Second label", "x", "A longer label text", "42", " padded "],
    "xml": ["<b>&amp;</b>", "a < b && c > d", "\"quoted\" 'single'", "]]> <!-- x -->", "&#233; &lt;", "<?xml?>&"],
    "nonascii": ["Caf\u00e9 Z\u00fcrich", "na\u00efve fa\u00e7ade", "\u65e5\u672c\u8a9e \u30c6\u30ad\u30b9\u30c8",
                 "\u0395\u03bb\u03bb\u03b7\u03bd\u03b9\u03ba\u03ac", "e\u0301 combining", "\u00df\u00f8\u2192\u221e",
                 "smile \U0001F600", "\u00c5ngstr\u00f6m \u0159"],
}
WIDTHS = [30, 50, 37.5, 12, 80, 21.25, 44, 60.5]


def matrix_times(kind, shape):
    if kind == "linear":
        return {"single": [5], "same2": [2.5, 2.5], "unsorted": [17, -3, 8.25, 0, 41, 8.25],
                "dense": [100 + (k % 4) * 0.75 + (k // 4) * 0.1 for k in range(12)],
                "wide": [-1e6, -1, 0, 3.5, 2.5e6]}[shape]
    if kind == "date":
        return {"single": [D(2015, 3, 14)], "same2": [D(2015, 3, 14), D(2015, 3, 14)],
                "unsorted": [D(2015, 3, 20), D(2015, 3, 2), D(2015, 4, 11), D(2015, 3, 9), D(2015, 3, 2), D(2015, 1, 31)],
                "dense": [D(2015, 3, 10 + (k % 3)) for k in range(12)],
                "wide": [D(1931, 5, 2), D(1969, 12, 31), D(1970, 1, 1), D(2024, 2, 29), D(2087, 11, 30)]}[shape]
    if kind == "datetime":
        return {"single": [DT(2015, 3, 14, 15, 9, 26)], "same2": [DT(2015, 3, 14, 15, 9, 26), DT(2015, 3, 14, 15, 9, 26)],
                "unsorted": [DT(2015, 3, 14, 23, 59, 59), DT(2015, 3, 14, 0, 0, 1), DT(2015, 3, 15, 12, 30),
                             DT(2015, 3, 14, 6, 45, 10, 500000), DT(2015, 3, 13, 18, 0, 0)],
                "dense": [DT(2015, 3, 14, 9, (k * 7) % 60, (k * 13) % 60) for k in range(12)],
                "wide": [DT(1950, 6, 1, 13, 0), DT(1999, 12, 31, 23, 59, 59), DT(2000, 1, 1, 0, 0, 0),
                         DT(2038, 1, 19, 3, 14, 7)]}[shape]
    # mixed: dates and datetimes together, not in order
    return {"single": [DT(2015, 3, 14, 12, 0, 0)], "same2": [D(2015, 3, 14), DT(2015, 3, 14, 0, 0, 0)],
            "unsorted": [DT(2015, 3, 20, 18, 0), D(2015, 3, 2), DT(2015, 3, 9, 7, 30), D(2015, 4, 11), D(2015, 3, 2),
                         DT(2015, 3, 2, 23, 59, 59)],
            "dense": [(D(2015, 3, 10 + (k % 2)) if k % 3 == 0 else DT(2015, 3, 10 + (k % 2), (k * 5) % 24, (k * 11) % 60))
                      for k in range(12)],
            "wide": [D(1931, 5, 2), DT(1969, 12, 31, 23, 59, 59, 999000), D(1970, 1, 1), DT(2024, 2, 29, 12, 0),
                     D(2087, 11, 30)]}[shape]


def texts_for(mode, n, shift=0):
    out = []
    for k in range(n):
        if mode == "none":
            out.append(None)
        elif mode == "mixed":
            r = (k + shift) % 4
            pool = TEXTS["plain"] + TEXTS["xml"] + TEXTS["nonascii"]
            out.append([None, pool[(k * 5 + shift) % len(pool)], "", pool[(k * 3 + 1 + shift) % len(pool)]][r])
        else:
            pool = TEXTS[mode]
            out.append(pool[(k + shift) % len(pool)])
    return out


def cover_domain(times):
    """An explicit domain covering the data, deliberately NOT on tick boundaries."""
    if isinstance(times[0], (int, float)):
        return [min(times) - 1.7, max(times) + 2.3]
    ts = [t if isinstance(t, DT) else DT(t.year, t.month, t.day) for t in times]
    return [min(ts) - datetime.timedelta(hours=5, minutes=17), max(ts) + datetime.timedelta(days=1, seconds=3)]


VARIANTS = [
    ("default", {}, "plain"),
    ("gap1", {"layerGap": 1}, "xml"),
    ("gap10-pad0", {"layerGap": 10, "labelPadding": {"left": 0, "right": 0, "top": 0, "bottom": 0}}, "nonascii"),
    ("pad-asym", {"labelPadding": {"left": 5, "right": 1, "top": 7, "bottom": 4}}, "mixed"),
    ("no-ticks", {"showTicks": False}, "none"),
    ("domain", {"domain": "cover"}, "plain"),
    ("wide-canvas", {"initialWidth": 800, "initialHeight": 300, "domain": "cover"}, "xml"),
    ("odd-canvas", {"initialWidth": 317, "initialHeight": 951, "margin": {"left": 5, "right": 11, "top": 0, "bottom": 33}},
     "nonascii"),
    ("engine-simple", {"labella": {"nodeSpacing": 5, "algorithm": "simple", "maxPos": 150}}, "plain"),
    ("engine-density", {"labella": {"nodeSpacing": 3, "density": 0.5, "stubWidth": 2, "maxPos": 260, "minPos": 10}},
     "mixed"),
    ("engine-none", {"labella": {"nodeSpacing": 8, "algorithm": "none"}, "layerGap": 10}, "none"),
    ("engine-unbounded", {"labella": {"minPos": None, "maxPos": 120, "nodeSpacing": 4}, "layerGap": 1, "domain": "cover"},
     "xml"),
    ("colours-1", {"dotColor": "#abc", "linkColor": "#A1B2C3", "labelBgColor": ["#1f77b4", "#F70", "2ca02c"],
                   "labelTextColor": "fn:bytext", "borderColor": "fn:parity", "showBorder": True}, "mixed"),
    ("colours-2", {"dotColor": ["#111", "#222222"], "linkColor": "fn:byid3", "labelBgColor": "fn:byidU",
                   "labelTextColor": "#FfF", "borderColor": "#0a0", "showBorder": True, "layerGap": 10}, "nonascii"),
    ("colours-3", {"dotColor": "fn:parity", "linkColor": ["#e377c2"], "labelBgColor": "#7f7f7f", "labelTextColor":
                   ["#000", "#FFFFFF"], "borderColor": ["#f00", "#00ff00", "#00F"], "showBorder": False, "dotRadius": 5},
     "plain"),
]


def make_case(direction, kind, shape, variant):
    name, delta, tmode = variant
    times = matrix_times(kind, shape)
    n = len(times)
    vi = [v[0] for v in VARIANTS].index(name)
    txt = texts_for(tmode, n, shift=vi)
    data = []
    for k, t in enumerate(times):
        d = {"time": t, "width": WIDTHS[(k + vi) % len(WIDTHS)]}
        if txt[k] is not None:
            d["text"] = txt[k]
        data.append(d)
    o = copy.deepcopy(delta)
    o["direction"] = direction
    o["scale"] = "linear" if kind == "linear" else "time"
    if o.get("domain") == "cover":
        o["domain"] = cover_domain(times)
    if shape == "dense":
        lab = dict(o.get("labella", {}))
        lab.setdefault("maxPos", 200)  # forces several layers
        o["labella"] = lab
    return {"data": data, "options": o}


def random_case(rng, integer_canvas=True):
    direction = rng.choice(DIRECTIONS)
    kind = rng.choice(KINDS)
    n = rng.choice([1, 2, 2, 3, 4, 5, 6, 8, 12, 15, 25, 40])
    if kind == "linear":
        base = rng.choice([0, 0, -50, 1000, 2.5])
        span = rng.choice([1e-2, 1, 10, 100, 1000, 1e6])
        times = [rng.choice([round(base + rng.uniform(0, span), 4), base + rng.randint(0, 20) * span / 20.0]) for _ in range(n)]
        if rng.random() < 0.3:
            times = [float(t) if rng.random() < 0.5 else t for t in times]
    else:
        base = DT(rng.choice([1905, 1969, 1970, 1999, 2015, 2016, 2024, 2090]), rng.randint(1, 12), rng.randint(1, 28))
        span_s = rng.choice([10, 60, 3600, 86400, 7 * 86400, 31 * 86400, 400 * 86400, 20 * 366 * 86400, 150 * 366 * 86400])
        times = []
        for _ in range(n):
            if kind == "date" or (kind == "mixed" and rng.random() < 0.5):
                t = (base + datetime.timedelta(days=rng.randint(0, max(2, span_s // 86400)))).date()
            else:
                t = base + datetime.timedelta(seconds=rng.randint(0, span_s), milliseconds=rng.choice([0, 0, 250, 999, 1]),
                                              hours=rng.choice([0, 0, 5, 13, 23]))
            times.append(t)
    if n > 1 and rng.random() < 0.35:  # duplicates
        for _ in range(rng.randint(1, max(1, n // 3))):
            times[rng.randrange(n)] = times[rng.randrange(n)]
    if rng.random() < 0.15:
        times.sort(key=exact_time)
    pool = TEXTS["plain"] + TEXTS["xml"] + TEXTS["nonascii"]
    tstyle = rng.choice(["all", "none", "mixed", "mixed"])
    data = []
    for t in times:
        d = {"time": t, "width": rng.choice([rng.randint(5, 120), round(rng.uniform(4, 120), 2), rng.choice(WIDTHS)])}
        if tstyle == "all" or (tstyle == "mixed" and rng.random() < 0.6):
            d["text"] = rng.choice(pool) if rng.random() < 0.9 else ""
        data.append(d)
    o = {"direction": direction, "scale": "linear" if kind == "linear" else "time"}
    if rng.random() < 0.8:
        o["layerGap"] = rng.choice([1, 1, 2, 10, 60, 12.5, 1.25, rng.randint(1, 80)])
    if rng.random() < 0.6:
        o["labelPadding"] = {s: rng.choice([0, 1, 2, 3, 5, 8, 0.5]) for s in ("left", "right", "top", "bottom")}
    if rng.random() < 0.3:
        o["showTicks"] = False
    if rng.random() < 0.4:
        o["domain"] = cover_domain(times)
    if rng.random() < 0.7:
        o["initialWidth"] = rng.randint(150, 1200)
        o["initialHeight"] = rng.randint(150, 1200)
        if not integer_canvas:
            o["initialWidth"] += rng.choice([0.5, 0.25, 0.9])
            o["initialHeight"] += rng.choice([0.5, 0.75, 0.1])
    elif not integer_canvas:
        o["initialWidth"] = 400.5
        o["initialHeight"] = 380.75
    if rng.random() < 0.3:
        o["margin"] = {s: rng.randint(0, 40) for s in ("left", "right", "top", "bottom")}
    if rng.random() < 0.8:
        L = axis_length({"options": o})
        lab = {"nodeSpacing": rng.choice([3, 3, 3, 4, 5, 10, 3.5])}
        if rng.random() < 0.7:
            lab["maxPos"] = rng.choice([L, L, L / 2.0, 100, 200, max(50, int(L * 0.75)), None])
        if rng.random() < 0.3:
            lab["minPos"] = rng.choice([0, None, -20, 15])
        if rng.random() < 0.5:
            lab["algorithm"] = rng.choice(["overlap", "simple", "none"])
        if rng.random() < 0.3:
            lab["density"] = rng.choice([0.85, 0.5, 1.0, 0.3])
        if rng.random() < 0.3:
            lab["stubWidth"] = rng.choice([1, 0, 2, 3])
        o["labella"] = lab
    if rng.random() < 0.6:
        for key in COLOUR_KEYS:
            r = rng.random()
            if r < 0.25:
                o[key] = "#%03x" % rng.randrange(0x1000)
            elif r < 0.5:
                o[key] = rng.choice(["#%06x", "#%06X", "%06x"]) % rng.randrange(0x1000000)
            elif r < 0.7:
                o[key] = [rng.choice(["#%03X", "#%06x"]) % rng.randrange(0x1000) for _ in range(rng.randint(1, 4))]
            elif r < 0.9:
                o[key] = "fn:" + rng.choice(sorted(COLOUR_FNS))
        o["showBorder"] = rng.random() < 0.5
    if rng.random() < 0.15:
        o["dotRadius"] = rng.choice([1, 2, 4.5, 6])
    return {"data": data, "options": o}


# ----------------------------------------------------------------------------
# evaluation of one case
# ----------------------------------------------------------------------------
def one(run, props, case, backends=("svg", "tikz")):
    prop = sorted(props)[0]
    if props & {"C07", "C08"}:
        case = with_id_colours(case)  # identity of every drawn element is read off the drawing itself
    pics = {}
    tls = {}
    raised = {}
    for be in backends:
        inp = {"data": case["data"], "options": case["options"], "backend": be}
        try:
            tl, out = render(case, be)
        except RecursionError:
            raised[be] = "RecursionError"
            continue
        except Exception as e:  # noqa
            raised[be] = "%s: %s" % (type(e).__name__, str(e)[:200])
            continue
        tls[be] = tl
        pics[be] = parse(be, out)
    # a point domain (one instant) makes the affine clause vacuous: counted as a trivial case
    nontrivial = len({exact_time(d["time"]) for d in case["data"]}) > 1 or bool(case["options"].get("domain"))
    if prop == "C08" and not c08_applies(case):
        nontrivial = False
    run.case(case, nontrivial=nontrivial)
    if prop == "C07":
        for be, msg in raised.items():
            run.violation("C07.exception", {"data": case["data"], "options": case["options"], "backend": be}, msg)
        for be in pics:
            check_c07(run, Ctx(case, be, tls[be], pics[be]))
    elif prop == "C08":
        if raised:
            run.raised = getattr(run, "raised", 0) + 1  # exception freedom of the export is C07's / C11's business
        if c08_applies(case):
            for be in pics:
                check_c08(run, Ctx(case, be, tls[be], pics[be]))
    else:
        if len(raised) == 1 and len(backends) == 2:
            run.violation("C09.one_backend_fails", {"data": case["data"], "options": case["options"], "backend": "both"}, raised)
        elif raised:
            run.raised = getattr(run, "raised", 0) + 1
        if "svg" in pics and "tikz" in pics:
            check_c09(run, case, pics["svg"], pics["tikz"])


def noninteger_subscope(run, count):
    """C09 side scope: non-integer canvas sizes ('%i' vs str() of the axis length). Recorded as a note only."""
    differ = 0
    other = 0
    tried = 0
    example = None
    for k in range(count):
        case = random_case(run.rng, integer_canvas=False)
        case["options"].pop("margin", None)
        try:
            ps = parse_svg(render(case, "svg")[1])
            pt = parse_tikz(render(case, "tikz")[1])
        except Exception:  # noqa
            continue
        tried += 1
        found = []
        check_c09(run, case, ps, pt, report=lambda clause, obs: found.append((clause, obs)))
        for clause, obs in found:
            if clause == "axis_line":
                differ += 1
                if example is None:
                    example = {"initialWidth": case["options"].get("initialWidth"),
                               "initialHeight": case["options"].get("initialHeight"),
                               "direction": case["options"]["direction"],
                               "svg_axis_end": obs["svg"][0]["p2"] if obs["svg"] else None,
                               "tikz_axis_end": obs["tikz"][0]["p2"] if obs["tikz"] else None}
            else:
                other += 1
    run.note("non-integer initialWidth/initialHeight sub-scope (design limit, not counted): %d cases, SVG and TikZ axis "
             "length differ in %d, other element classes differ in %d; example %s"
             % (tried, differ, other, common.json.dumps(common.jsonable(example))))


def merged_variant(v1, v2):
    """Two option variants together (thorough tier): the later one wins on a clash, engine options are united."""
    d = copy.deepcopy(v1[1])
    for k, v in copy.deepcopy(v2[1]).items():
        if k == "labella" and "labella" in d:
            d["labella"].update(v)
        else:
            d[k] = v
    return (v1[0], d, v2[2])


STRADDLE_WIDTHS = [47.6, 46.2, 30.4, 12.8, 21.25]


def straddle_cases():
    """Labels crowded at the very start of the axis with no (or a negative) lower position bound and fractional
    widths: label centres land on both sides of zero, where rounding of positions and truncation of the drawn
    coordinates act in opposite directions."""
    for direction in DIRECTIONS:
        for mn in (None, -100):
            for w1 in STRADDLE_WIDTHS:
                for w2 in STRADDLE_WIDTHS:
                    # the default canvas gives an axis of length 360: with domain [0, 360] a datum sits at its time
                    for times in ([0, 1], [0, 0.3], [0, 1.7], [0, 0.5, 1]):
                        ws = [w1, w2, w1][: len(times)]
                        yield {"data": [{"time": float(t), "width": w} for t, w in zip(times, ws)],
                               "options": {"direction": direction, "scale": "linear", "domain": [0, 360],
                                           "labella": {"minPos": mn, "nodeSpacing": 3}}}


def explore(run, props):
    prop = sorted(props)[0]
    quick = run.tier == "quick"
    nv = len(VARIANTS)
    count = 0
    cut = False
    ns = 0
    for k, case in enumerate(straddle_cases()):
        if quick and k % 2 and prop != "C08":
            continue
        one(run, props, case)
        ns += 1
    run.exhaustive("straddle-zero sub-scope: %d cases (2-3 labels at the axis start, fractional widths %s, minPos None/-100, "
                   "4 directions)" % (ns, STRADDLE_WIDTHS))
    cells = [(d, k, s) for d in DIRECTIONS for k in KINDS for s in SHAPES]
    for direction, kind, shape in cells:
        for v in VARIANTS:
            one(run, props, make_case(direction, kind, shape, v))
            count += 1
        if run.left() < run.budget * 0.35:
            cut = True
            break
    if cut:
        run.note("enumerated matrix cut by the time budget after %d cases" % count)
    else:
        run.exhaustive("S-PIPE matrix: 4 directions x 4 scale kinds x 5 dataset shapes x %d option variants = %d cases, "
                       "both back-ends" % (nv, count))
    if not quick and not cut:
        pairs = 0
        for i in range(nv):
            for j in range(nv):
                if i == j:
                    continue
                for direction, kind, shape in cells:
                    if (DIRECTIONS.index(direction) + KINDS.index(kind) + SHAPES.index(shape) + i + j) % 4:
                        continue  # a quarter of the cells per ordered pair
                    one(run, props, make_case(direction, kind, shape, merged_variant(VARIANTS[i], VARIANTS[j])))
                    pairs += 1
                if run.left() < run.budget * 0.35:
                    cut = True
                    break
            if cut:
                break
        run.note("ordered pairs of option variants merged: %d cases%s" % (pairs, " (cut by the time budget)" if cut else ""))
    if prop == "C09":
        noninteger_subscope(run, 12 if quick else 60)
    while run.left() > 0:
        one(run, props, random_case(run.rng))
    if getattr(run, "raised", 0):
        run.note("%d cases where the export raised were skipped here (exception freedom is reported by C07/C11)" % run.raised)
    if getattr(run, "pad_rotated", 0):
        run.note("%d left/right cases with text and asymmetric padding: the box is width+top+bottom by 13+left+right "
                 "(padding sides follow the turned layout, the text does not); accepted, the statement leaves the pairing open"
                 % run.pad_rotated)


def replay(run, props, inp):
    case = {"data": inp["data"], "options": inp["options"]}
    be = inp.get("backend")
    if "C09" in props or be not in ("svg", "tikz"):
        one(run, props, case)
    else:
        one(run, props, case, backends=(be,))
