"""T2 driver for C14 (bounded): nice() only widens a domain, by less than two tick steps, to round end points.

Linear scales (domains and counts as in C13): with [a',b'] = LinearScale().domain([a,b]).nice(m).domain()
  * never inward (min' <= min, max' >= max), orientation kept (sign(b'-a') == sign(b-a));
  * each end moves outward by < 2*S, S the tick step of the RESULTING domain for the same m (documented step rule,
    exact rationals, c13.rule_steps; on an exact threshold either neighbour step is accepted);
  * each new end is a multiple of S/10 (relative 1e-9).
Time scales (naive datetimes of ms resolution, 1900..2200, spans 10 ms .. 200 years, either orientation,
TimeScale().domain([t0,t1]).nice() / .nice(m)):
  * never inward, orientation kept;
  * each end moves outward by < 2 tick steps of the ORIGINAL domain's ticks (largest gap between consecutive ticks of
    ticks()/ticks(m); with fewer than two ticks the nominal interval of the d3 time-tick table, applied with calendar
    arithmetic);
  * each new end is aligned to the calendar at least as coarsely as those ticks (finest non-zero calendar field over the
    ticks; week ticks: a Sunday or a first of the month, at midnight; sub-second ticks: within 1 ms of a millisecond).
Everything is computed with datetime/timedelta/Fraction here; nothing is taken from labella/d3_time.py.
"""
import calendar
import datetime as dtm
import math
from fractions import Fraction as Fr

from . import common  # noqa: F401  (sets sys.path)
from . import c13
from labella.scale import LinearScale, TimeScale

SCOPE = ("linear: the C13 grid (all ordered pairs of a signed value grid inside the quantifier, threshold/multiple domains) x "
         "counts {default,1,2,3,4,5,7,10,20,50,100} (quick) / default+1..100 (thorough); time: 22 (quick) / 34 (thorough) anchor "
         "instants (leap days, month/year ends, Sundays, 1900 and 2200 limits) x 30 spans from 10 ms to 200 years x both "
         "orientations x counts {default,1,2,3,5,10,20,50}; then seeded random linear and time domains until the time budget")

M_LINEAR_QUICK = [None, 1, 2, 3, 4, 5, 7, 10, 20, 50, 100]
M_TIME = [None, 1, 2, 3, 5, 10, 20, 50]

# id of the listed known finding (if any) for failures of the linear clauses that are no larger than float rounding:
# floor(x/step)*step / ceil(x/step)*step evaluated in floats can land one ulp inside the old end, and can step a full
# step away from an end that already is a multiple of the step -- in both passes, i.e. two full steps.
ROUNDING_FINDING = None

T_MIN = dtm.datetime(1900, 1, 1)
T_MAX = dtm.datetime(2200, 12, 31, 23, 59, 59, 999000)
MS = dtm.timedelta(milliseconds=1)


# ----------------------------------------------------------------------------
# linear
# ----------------------------------------------------------------------------
def check_linear(run, a, b, m):
    inp = {"kind": "linear", "domain": [a, b], "m": m}
    ok, res = run.guard(lambda: (LinearScale().domain([a, b]).nice() if m is None
                                 else LinearScale().domain([a, b]).nice(m)).domain(), "C14.linear.exception", inp)
    if not ok:
        return False
    if len(res) != 2 or any(not isinstance(v, (int, float)) or not math.isfinite(v) for v in res):
        run.violation("C14.linear.finite", inp, {"result": res})
        return False
    a2, b2 = res
    lo, hi = min(a, b), max(a, b)
    lo2, hi2 = min(a2, b2), max(a2, b2)
    obs = {"result": [a2, b2]}
    if (a < b) != (a2 < b2) or a2 == b2:
        run.violation("C14.linear.orientation", inp, obs)
        return False
    cands = c13.rule_steps(lo2, hi2, m)
    S0 = float(c13.step_value(cands[0]))
    # the statement is evaluated exactly on the float values; a failure that is no larger than float rounding
    # (relative 1e-9 of the end point / the step) is recorded under its own clause so that it can be triaged apart
    for name, v, v2, inward in (("low", lo, lo2, lo2 - lo), ("high", hi, hi2, hi - hi2)):
        if inward > 0:
            small = inward <= 1e-9 * max(abs(v), S0)
            if small:
                run.tolerated("C14.linear.inward.rounding")
            else:
                run.violation("C14.linear.inward", inp,
                              dict(obs, end=name, inward_by=inward, ulps=inward / math.ulp(v) if v else None))
    worst = None
    for st in cands:
        S = c13.step_value(st)
        bad = []
        for name, v, moved in (("low", lo, Fr(lo) - Fr(lo2)), ("high", hi, Fr(hi2) - Fr(hi))):
            if moved >= 2 * S:
                small = moved - 2 * S <= Fr(1e-9 * max(abs(v), float(S)))
                bad.append(("C14.linear.moved.rounding" if small else "C14.linear.moved",
                            {"end": name, "moved": float(moved), "step": float(S), "moved_in_steps": float(moved / S)}))
        unit = S / 10
        for name, v in (("low", lo2), ("high", hi2)):
            n = round(Fr(v) / unit)
            if abs(Fr(v) - n * unit) > Fr(1, 10 ** 9) * max(abs(Fr(v)), unit):
                bad.append(("C14.linear.round", {"end": name, "value": v, "step": float(S), "nearest": float(n * unit)}))
        if not bad:
            worst = None
            break
        worst = worst or bad
    if worst:
        for clause, o in worst:
            o.update(obs)
            if clause.endswith(".rounding"):
                run.tolerated(clause)
            else:
                run.violation(clause, inp, o, known=d17_region(clause, lo, hi, lo2, hi2, m, cands))
    return (a2, b2) != (a, b)


def d17_region(clause, lo, hi, lo2, hi2, m, cands):
    """Known finding D17: nice() rounds to the tick step S0 of the ORIGINAL domain (as d3 does).  When the widened domain's
    own step is 4 * S0 (S0 = 5*10^k -> 2*10^(k+1), small counts) an end that is an odd multiple of S0 is not a multiple of a
    tenth of the new step.  Only this region is excused: the clause is `round`, both ends ARE multiples of an original-domain
    step S0, and every step of the resulting domain is 4 * S0."""
    if clause != "C14.linear.round":
        return None
    for st0 in c13.rule_steps(lo, hi, m):
        S0 = c13.step_value(st0)
        on_grid = all(abs(Fr(v) - round(Fr(v) / S0) * S0) <= Fr(1, 10 ** 9) * max(abs(Fr(v)), S0) for v in (lo2, hi2))
        if on_grid and all(c13.step_value(st) == 4 * S0 for st in cands):
            return "D17"
    return None


def one_linear(run, a, b, m):
    moved = check_linear(run, a, b, m)
    run.case(("L", a, b, m), nontrivial=bool(moved))


# ----------------------------------------------------------------------------
# time: an independent calendar
# ----------------------------------------------------------------------------
UNITS = ["ms", "second", "minute", "hour", "day", "month", "year"]  # fine -> coarse

# the d3 time-tick table: nominal length in ms, unit, multiple
TABLE = [(1e3, "second", 1), (5e3, "second", 5), (15e3, "second", 15), (3e4, "second", 30), (6e4, "minute", 1),
         (3e5, "minute", 5), (9e5, "minute", 15), (18e5, "minute", 30), (36e5, "hour", 1), (108e5, "hour", 3),
         (216e5, "hour", 6), (432e5, "hour", 12), (864e5, "day", 1), (1728e5, "day", 2), (6048e5, "week", 1),
         (2592e6, "month", 1), (7776e6, "month", 3), (31536e6, "year", 1)]


def to_ms(t):
    """Exact integer milliseconds since 1970 of a ms-resolution naive datetime (Fraction if finer)."""
    d = t - dtm.datetime(1970, 1, 1)
    us = (d.days * 86400 + d.seconds) * 10 ** 6 + d.microseconds
    return Fr(us, 1000)


def nominal(span_ms, count):
    """Nominal tick interval (unit, k) for a span in ms and a requested count (d3's documented choice: the table entry
    closest to span/count in ratio; below a second a 1-2-5 step in ms; above a year a 1-2-5 step in years)."""
    target = Fr(span_ms) / count
    if target > TABLE[-1][0]:
        yrs_lo, yrs_hi = 0.0, float(Fr(span_ms) / Fr(31536 * 10 ** 6))
        return [("year", max(1, int(c13.step_value(st)))) for st in c13.rule_steps(yrs_lo, yrs_hi, count)]
    if target < TABLE[0][0]:
        out = []
        for st in c13.rule_steps(0.0, float(span_ms), count):
            v = c13.step_value(st)
            out.append(("ms", v if v >= 1 else Fr(1)))
        return out
    best = min(TABLE, key=lambda e: max(Fr(e[0]) / target, target / Fr(e[0])))
    ties = [e for e in TABLE if max(Fr(e[0]) / target, target / Fr(e[0])) == max(Fr(best[0]) / target, target / Fr(best[0]))]
    return [(e[1], e[2]) for e in ties]


def add_months(t, n):
    y, mth = divmod((t.year * 12 + t.month - 1) + n, 12)
    mth += 1
    y = min(max(y, 1), 9999)
    day = min(t.day, calendar.monthrange(y, mth)[1])
    return t.replace(year=y, month=mth, day=day)


def shift(t, unit, k, sign):
    """t moved by sign * k units with calendar arithmetic (clamped to the datetime range)."""
    try:
        if unit == "ms":
            return t + sign * dtm.timedelta(microseconds=int(k * 1000))
        if unit == "second":
            return t + sign * dtm.timedelta(seconds=k)
        if unit == "minute":
            return t + sign * dtm.timedelta(minutes=k)
        if unit == "hour":
            return t + sign * dtm.timedelta(hours=k)
        if unit == "day":
            return t + sign * dtm.timedelta(days=k)
        if unit == "week":
            return t + sign * dtm.timedelta(days=7 * k)
        if unit == "month":
            return add_months(t, sign * k)
        if unit == "year":
            return add_months(t, sign * 12 * k)
    except OverflowError:
        return dtm.datetime.min if sign < 0 else dtm.datetime.max
    raise ValueError(unit)


def granularity(t):
    """Index into UNITS of the coarsest unit on whose boundary t lies."""
    if t.microsecond:
        return 0 if t.microsecond % 1000 == 0 else -1
    if t.second:
        return 1
    if t.minute:
        return 2
    if t.hour:
        return 3
    if t.day != 1:
        return 4
    if t.month != 1:
        return 5
    return 6


def is_week_lattice(ticks):
    return (len(ticks) >= 2 and all(granularity(t) >= 4 and t.isoweekday() == 7 for t in ticks)
            and all((ticks[i + 1] - ticks[i]) == dtm.timedelta(days=7) for i in range(len(ticks) - 1)))


def check_time(run, t0, t1, m, prior=()):
    """prior: tick counts the SAME scale instance was asked for (ticks(p), read-only) before nice(m): the outcome of nice
    must not depend on what the scale was asked before (history part of the scope)"""
    inp = {"kind": "time", "domain": [t0, t1], "m": m}
    if prior:
        inp["prior_ticks_calls"] = list(prior)

    def do():
        s = TimeScale().domain([t0, t1])
        ticks = s.ticks() if m is None else s.ticks(m)
        s2 = TimeScale().domain([t0, t1])
        for p in prior:
            s2.ticks() if p is None else s2.ticks(p)
        res = (s2.nice() if m is None else s2.nice(m)).domain()
        return list(ticks), list(res)

    ok, r = run.guard(do, "C14.time.exception", inp)
    if not ok:
        return False
    ticks, res = r
    if len(res) != 2 or any(not isinstance(v, dtm.datetime) for v in res) or any(not isinstance(v, dtm.datetime) for v in ticks):
        run.violation("C14.time.type", inp, {"result": res, "ticks": ticks[:4]})
        return False
    n0, n1 = res
    obs = {"result": [n0, n1], "n_ticks": len(ticks)}
    if (t0 < t1) != (n0 < n1) or n0 == n1:
        run.violation("C14.time.orientation", inp, obs)
        return False
    lo, hi = min(t0, t1), max(t0, t1)
    lo2, hi2 = min(n0, n1), max(n0, n1)
    if lo2 > lo or hi2 < hi:
        run.violation("C14.time.inward", inp, obs)
    count = 10 if m is None else m
    span_ms = to_ms(hi) - to_ms(lo)
    # --- the tick step of the original domain, and the movement bound
    if len(ticks) >= 2:
        gap = max(ticks[i + 1] - ticks[i] for i in range(len(ticks) - 1))
        obs["tick_step"] = str(gap)
        if lo - lo2 >= 2 * gap:
            run.violation("C14.time.moved", inp, dict(obs, end="low", moved=str(lo - lo2)))
        if hi2 - hi >= 2 * gap:
            run.violation("C14.time.moved", inp, dict(obs, end="high", moved=str(hi2 - hi)))
    else:
        worst = None
        for unit, k in nominal(span_ms, count):
            bad = []
            if shift(lo2, unit, 2 * k, +1) <= lo:
                bad.append(dict(obs, end="low", moved=str(lo - lo2), nominal=[unit, float(k)]))
            if shift(hi2, unit, 2 * k, -1) >= hi:
                bad.append(dict(obs, end="high", moved=str(hi2 - hi), nominal=[unit, float(k)]))
            if not bad:
                worst = None
                break
            worst = worst or bad
        if worst:
            for o in worst:
                run.violation("C14.time.moved", inp, o)
    # --- calendar alignment at least as coarse as the ticks
    if len(ticks) >= 2:
        g = min(granularity(t) for t in ticks)
        week = is_week_lattice(ticks)
        need = [(g, week)]
    else:
        need = []
        for unit, k in nominal(span_ms, count):
            if unit == "week":
                need.append((4, True))
            else:
                need.append((UNITS.index(unit), False))
    for name, v in (("low", lo2), ("high", hi2)):
        okv = False
        for g, week in need:
            if g <= 0:
                # sub-second ticks: within a millisecond of a millisecond instant
                okv = okv or True
            elif granularity(v) >= g and (not week or v.isoweekday() == 7 or v.day == 1):
                okv = True
        if not okv:
            run.violation("C14.time.aligned", inp, dict(obs, end=name, value=v, need=[[UNITS[max(g, 0)], w] for g, w in need]))
    return (n0, n1) != (t0, t1)


def one_time(run, t0, t1, m, prior=()):
    moved = check_time(run, t0, t1, m, prior)
    run.case(("T", t0.isoformat(), t1.isoformat(), m, tuple(prior)), nontrivial=bool(moved))


HIST_COUNTS = [((None,), 100), ((100,), None), ((2,), 50), ((50,), 2), ((None, 3), 40)]


ANCHORS_QUICK = [
    dtm.datetime(1900, 1, 1), dtm.datetime(1900, 2, 28, 23, 59, 59, 999000), dtm.datetime(1969, 12, 31, 23, 59, 59, 999000),
    dtm.datetime(1970, 1, 1), dtm.datetime(1999, 12, 31, 12), dtm.datetime(2000, 2, 29), dtm.datetime(2000, 2, 29, 23, 59, 59, 1000),
    dtm.datetime(2015, 1, 31), dtm.datetime(2015, 3, 31, 0, 0, 0, 1000), dtm.datetime(2016, 2, 28, 18, 30), dtm.datetime(2016, 12, 31),
    dtm.datetime(2017, 1, 1, 0, 0, 0, 1000), dtm.datetime(2017, 4, 30, 23, 59, 59), dtm.datetime(2018, 7, 15, 11, 11, 11, 111000),
    dtm.datetime(2019, 6, 2), dtm.datetime(2019, 6, 1, 23, 59, 59, 999000), dtm.datetime(2024, 2, 29, 12), dtm.datetime(2026, 10, 1, 9, 45),
    dtm.datetime(2100, 2, 28, 23), dtm.datetime(2100, 3, 1), dtm.datetime(2199, 12, 31, 23, 59, 59, 999000),
    dtm.datetime(2200, 12, 31, 23, 59, 59, 999000),
]
ANCHORS_THOROUGH = ANCHORS_QUICK + [
    dtm.datetime(1900, 12, 31, 23, 59, 59, 999000), dtm.datetime(1904, 2, 29, 6), dtm.datetime(1950, 5, 31), dtm.datetime(1980, 10, 31, 23, 30),
    dtm.datetime(2001, 9, 9, 1, 46, 40), dtm.datetime(2012, 12, 30), dtm.datetime(2020, 8, 30, 23, 59, 59, 500000), dtm.datetime(2021, 1, 3),
    dtm.datetime(2038, 1, 19, 3, 14, 7), dtm.datetime(2099, 12, 31, 23, 59, 59, 999000), dtm.datetime(2150, 7, 1), dtm.datetime(2200, 1, 1),
]
SPANS_MS = [10, 11, 37, 99, 100, 999, 1000, 1001, 7500, 61000, 3600000, 3599999, 5 * 3600000, 86400000, 86400001, 2 * 86400000,
            3 * 86400000 + 1, 6 * 86400000, 15 * 86400000, 31 * 86400000, 59 * 86400000, 89 * 86400000, 200 * 86400000, 365 * 86400000,
            366 * 86400000 + 5, 800 * 86400000, 3653 * 86400000, 12000 * 86400000, 36525 * 86400000, 73048 * 86400000]


def time_in_quantifier(t0, t1):
    if not (T_MIN <= t0 <= T_MAX and T_MIN <= t1 <= T_MAX):
        return False
    if t0.microsecond % 1000 or t1.microsecond % 1000:
        return False
    span = abs(t1 - t0)
    return dtm.timedelta(milliseconds=10) <= span <= dtm.timedelta(days=73050)  # 200 years


def rand_time_domain(rng):
    total_ms = int((T_MAX - T_MIN) / MS)
    while True:
        r = rng.random()
        if r < 0.5:
            span = int(10.0 ** rng.uniform(1, math.log10(73050 * 86400000.0)))
        elif r < 0.8:  # near a table entry x count
            span = int(rng.choice(TABLE)[0] * rng.choice([1, 2, 3, 5, 10, 20, 50]) * rng.uniform(0.4, 2.5))
        else:
            span = rng.choice(SPANS_MS)
        r = rng.random()
        if r < 0.55:
            t0 = T_MIN + dtm.timedelta(milliseconds=rng.randint(0, total_ms))
        else:  # near a calendar boundary
            y = rng.randint(1900, 2200)
            mth = rng.choice([1, 1, 2, 3, 12, rng.randint(1, 12)])
            base = dtm.datetime(y, mth, rng.choice([1, 1, calendar.monthrange(y, mth)[1], rng.randint(1, 28)]))
            t0 = base + dtm.timedelta(milliseconds=rng.choice([0, 0, 1, -1, 999, -1000, 86399999, rng.randint(-10 ** 7, 10 ** 7)]))
        t1 = t0 + dtm.timedelta(milliseconds=span) if rng.random() < 0.7 else t0 - dtm.timedelta(milliseconds=span)
        if rng.random() < 0.3:
            t0, t1 = t1, t0
        if time_in_quantifier(t0, t1):
            return t0, t1


def rand_time_m(rng):
    r = rng.random()
    if r < 0.3:
        return None
    if r < 0.6:
        return rng.randint(1, 5)
    return rng.randint(1, 100)


# ----------------------------------------------------------------------------
def body(run):
    quick = run.tier == "quick"
    complete = True
    # linear
    doms = c13.grid_domains(c13.GRID_QUICK if quick else c13.GRID_THOROUGH)
    ms = M_LINEAR_QUICK if quick else c13.M_ALL
    for i, (a, b) in enumerate(doms):
        for m in ms:
            one_linear(run, a, b, m)
        if run.left() < run.budget * 0.55:
            run.note("linear grid cut after %d of %d domains by the time budget" % (i + 1, len(doms)))
            complete = False
            break
    thr = c13.threshold_domains()
    for a, b, m in thr:
        for mm in (m, 1, 2):
            one_linear(run, a, b, mm)
    if complete:
        run.exhaustive("linear: %d grid domains x %d counts; %d threshold/multiple domains x {own m,1,2}" % (len(doms), len(ms), len(thr)))
    # time
    anchors = ANCHORS_QUICK if quick else ANCHORS_THOROUGH
    complete = True
    ncase = 0
    for t in anchors:
        for sp in SPANS_MS:
            d = dtm.timedelta(milliseconds=sp)
            for (x0, x1) in ((t, t + d), (t - d, t)):
                if not time_in_quantifier(x0, x1):
                    continue
                for m in M_TIME:
                    one_time(run, x0, x1, m)
                    one_time(run, x1, x0, m)
                    ncase += 2
        if run.left() < run.budget * 0.3:
            run.note("time grid cut at anchor %s by the time budget" % t.isoformat())
            complete = False
            break
    if complete:
        run.exhaustive("time: %d anchors x %d spans x forward/backward placement x both orientations x %d counts = %d cases"
                       % (len(anchors), len(SPANS_MS), len(M_TIME), ncase))
    # histories: the same scale instance is asked for ticks with OTHER counts before nice(m)
    nh = 0
    for t in anchors[::2]:
        t = t + dtm.timedelta(minutes=47)
        for sp in SPANS_MS[3::3]:
            x0, x1 = t, t + dtm.timedelta(milliseconds=sp) - dtm.timedelta(minutes=5)
            if x1 <= x0 or not time_in_quantifier(x0, x1):
                continue
            for prior, m in HIST_COUNTS:
                one_time(run, x0, x1, m, prior)
                nh += 1
    run.exhaustive("time histories: %d cases (ticks(p) on the same instance before nice(m), 5 count patterns)" % nh)
    while run.left() > 0:
        for _ in range(50):
            a, b = c13.rand_domain(run.rng)
            m = c13.rand_m(run.rng)
            one_linear(run, a, b, m)
        for _ in range(25):
            t0, t1 = rand_time_domain(run.rng)
            one_time(run, t0, t1, rand_time_m(run.rng))


def replay(run, inp):
    if inp.get("kind") == "time":
        t0, t1 = inp["domain"]
        one_time(run, t0, t1, inp["m"], tuple(inp.get("prior_ticks_calls", ())))
    else:
        a, b = inp["domain"]
        one_linear(run, float(a), float(b), inp["m"])


if __name__ == "__main__":
    common.main("C14", SCOPE, body, replay)
