"""T2 driver for C20 (bounded): utils.int2name over 0..10^6 and the colour conversions over 3-/6-digit codes.

Oracle, from the statement (never from the implementation):
  C20.no-raise        none of the four functions raises on an index 0..10^6 / a 3- or 6-digit hex code (+- '#')
  C20.name-order      int2name(i) is the i-th string of the enumeration of the non-empty strings over A-Z in
                      length-then-alphabetical order (independent generator: itertools.product per length)
  C20.name-letters    int2name(i) consists of the letters A-Z only and is not empty
  C20.name-distinct   the names of the explored indices are pairwise distinct
  C20.rgb             hex2rgb(code) is the triple denoted by the code (3-digit: every digit doubled)
  C20.rgbstr          hex2rgbstr(code) == 'rgb(r, g, b)' of that triple
  C20.html            hex2html(code) is the 6-digit upper-case code of that triple
The expected triple is known by construction (codes are built from (r, g, b)) and, for replays and random
codes, from an own digit table -- never through int(.., 16).
"""
import itertools
import os
import re
import time

from . import common  # noqa: F401  (sets sys.path)
from labella.utils import hex2html, hex2rgb, hex2rgbstr, int2name

SCOPE = ("int2name: every index 0..10^6 (quick: 0..200000 + 50000 sampled up to 10^6) against an independent enumeration of A-Z "
         "strings; colours, each with and without '#': all 22^3 three-digit codes over 0-9a-fA-F; six-digit codes: quick = all "
         "codes with <= 2 distinct nibble values (lower/upper/mixed case), 64^3 codes over boundary channel values, all codes "
         "< 0x010000 (leading zeros), 50000 random mixed-case; thorough = all 16^6 lower-case codes plus the quick sample; then "
         "seeded random mixed-case codes and indices until the time budget")

N_MAX = 10 ** 6
ALPHA = "ABCDEFGHIJKLMNOPQRSTUVWXYZ"
LOW = "0123456789abcdef"
UPP = "0123456789ABCDEF"
DIGITS22 = "0123456789abcdefABCDEF"
VAL = {}
for _k in range(16):
    VAL[LOW[_k]] = _k
    VAL[UPP[_k]] = _k
H2L = [LOW[v >> 4] + LOW[v & 15] for v in range(256)]
H2U = [UPP[v >> 4] + UPP[v & 15] for v in range(256)]
LETTERS = re.compile(r"\A[A-Z]+\Z")


# ----------------------------------------------------------------------------
# names
# ----------------------------------------------------------------------------
def gen_names():
    n = 1
    while True:
        for tup in itertools.product(ALPHA, repeat=n):
            yield "".join(tup)
        n += 1


_NAMES = []


def names_upto(n):
    """Expected names of the indices 0..n (independent enumeration, cached)."""
    global _NAMES
    if len(_NAMES) <= n:
        _NAMES = list(itertools.islice(gen_names(), n + 1))
    return _NAMES


def check_name(run, i, seen=None):
    inp = {"kind": "name", "i": i}
    ok, got = run.guard(lambda: int2name(i), "C20.no-raise", inp)
    if not ok:
        return
    exp = names_upto(max(i, 1000))[i]
    if not isinstance(got, str) or not LETTERS.match(got):
        run.violation("C20.name-letters", inp, {"got": got})
    if got != exp:
        run.violation("C20.name-order", inp, {"got": got, "expected": exp})
    if seen is not None and isinstance(got, str):
        if got in seen and seen[got] != i:
            run.violation("C20.name-distinct", {"kind": "names", "i": seen[got], "j": i}, {"both": got})
        seen.setdefault(got, i)


def check_names(run, indices):
    """Batch check of a list of indices; slow path per index only when something is off."""
    exp_all = names_upto(N_MAX)
    exp = [exp_all[i] for i in indices]
    try:
        got = list(map(int2name, indices))
    except Exception:  # noqa  -- located per index below
        got = None
    if got is None or got != exp or len(set(got)) != len(set(indices)):
        seen = {}
        for i in indices:
            check_name(run, i, seen)
    run.evaluations += len(indices)
    run.nontrivial += len(set(indices))


def replay_names(run, inp):
    if inp.get("kind") == "names":
        seen = {}
        for i in (inp["i"], inp["j"]):
            check_name(run, i, seen)
    else:
        check_name(run, inp["i"])


# ----------------------------------------------------------------------------
# colours
# ----------------------------------------------------------------------------
def denoted(code):
    """Independent reading of a colour code: the (r, g, b) it denotes, or None if it is not a 3-/6-digit code."""
    c = code[1:] if code[:1] == "#" else code
    if len(c) not in (3, 6) or any(ch not in VAL for ch in c):
        return None
    v = [VAL[ch] for ch in c]
    if len(c) == 3:
        return (v[0] * 16 + v[0], v[1] * 16 + v[1], v[2] * 16 + v[2])
    return (v[0] * 16 + v[1], v[2] * 16 + v[3], v[4] * 16 + v[5])


def expected_str(t):
    return "rgb(" + str(t[0]) + ", " + str(t[1]) + ", " + str(t[2]) + ")"


def expected_html(t):
    return H2U[t[0]] + H2U[t[1]] + H2U[t[2]]


def check_code(run, code, triple=None):
    """All colour clauses on one code (slow path, replay). Returns the number of failed clauses."""
    inp = {"kind": "colour", "code": [ord(c) for c in code]}
    t = denoted(code)
    if triple is not None and t != tuple(triple):
        raise AssertionError("driver fault: code %r built for %r reads as %r" % (code, triple, t))
    if t is None:
        run.note("replay input is not a 3-/6-digit hex code: %r" % code)
        return 0
    bad = 0
    ok, got = run.guard(lambda: hex2rgb(code), "C20.no-raise", dict(inp, fn="hex2rgb"))
    if not ok:
        bad += 1
    else:
        try:
            same = tuple(got) == t and all(isinstance(x, int) for x in got)
        except TypeError:
            same = False
        if not same:
            bad += 1
            run.violation("C20.rgb", inp, {"got": got, "expected": list(t)})
    ok, got = run.guard(lambda: hex2rgbstr(code), "C20.no-raise", dict(inp, fn="hex2rgbstr"))
    if not ok:
        bad += 1
    elif got != expected_str(t):
        bad += 1
        run.violation("C20.rgbstr", inp, {"got": got, "expected": expected_str(t)})
    ok, got = run.guard(lambda: hex2html(code), "C20.no-raise", dict(inp, fn="hex2html"))
    if not ok:
        bad += 1
    elif got != expected_html(t):
        bad += 1
        run.violation("C20.html", inp, {"got": got, "expected": expected_html(t)})
    return bad


def batch_ok(codes, triples, strs, htmls):
    """Fast path: True iff the three functions agree with the expectation on every code."""
    try:
        return (list(map(hex2rgb, codes)) == triples and list(map(hex2rgbstr, codes)) == strs
                and list(map(hex2html, codes)) == htmls)
    except Exception:  # noqa
        return False


def check_codes(run, codes, triples):
    """Batch check (codes without '#', and the same with '#'); per-code slow path when anything differs."""
    strs = [expected_str(t) for t in triples]
    htmls = [expected_html(t) for t in triples]
    for variant in (codes, ["#" + c for c in codes]):
        if not batch_ok(variant, triples, strs, htmls):
            for c, t in zip(variant, triples):
                check_code(run, c, t)
    run.evaluations += 2 * len(codes)
    run.nontrivial += 2 * len(codes)


def recase(code, mask):
    """Upper-case the digits selected by the bits of mask."""
    return "".join(ch.upper() if (mask >> k) & 1 else ch for k, ch in enumerate(code))


def three_digit(run):
    codes, triples = [], []
    for a in DIGITS22:
        for b in DIGITS22:
            for c in DIGITS22:
                codes.append(a + b + c)
                triples.append((17 * VAL[a], 17 * VAL[b], 17 * VAL[c]))
    check_codes(run, codes, triples)
    run.exhaustive("all 22^3 = %d three-digit codes over 0-9a-fA-F, with and without '#'" % len(codes))


def channel_values():
    v = set(range(16)) | set(range(0, 256, 16)) | set(range(0, 256, 17)) | {0x7F, 0x80, 0xFE, 0xEF, 0x1F, 0xF1, 0x9A, 0xA9}
    x = 0x5B
    while len(v) < 64:
        x = (x * 73 + 41) % 256
        v.add(x)
    return sorted(v)


def six_digit_sample(run):
    n0 = run.evaluations
    # (a) <= 2 distinct nibble values: lower, upper and two mixed casings
    nibs = set()
    for p in range(16):
        for q in range(16):
            for bits in range(64):
                nibs.add(tuple(q if (bits >> k) & 1 else p for k in range(6)))
    assert len(nibs) == 16 + 120 * 62
    codes, triples = [], []
    for nib in sorted(nibs):
        code = "".join(LOW[x] for x in nib)
        t = (nib[0] * 16 + nib[1], nib[2] * 16 + nib[3], nib[4] * 16 + nib[5])
        for cc in sorted(set(recase(code, mask) for mask in (0, 63, 0b010101, 0b100110))):
            codes.append(cc)
            triples.append(t)
    na = len(codes)
    check_codes(run, codes, triples)
    # (b) boundary channel values, 64^3 lower-case codes
    V = channel_values()
    nb = 0
    for r in V:
        codes, triples = [], []
        for g in V:
            for b in V:
                codes.append(H2L[r] + H2L[g] + H2L[b])
                triples.append((r, g, b))
        nb += len(codes)
        check_codes(run, codes, triples)
    # (c) leading zeros: every code below 0x010000
    nc = 0
    for g in range(256):
        codes = ["00" + H2L[g] + H2L[b] for b in range(256)]
        triples = [(0, g, b) for b in range(256)]
        nc += len(codes)
        check_codes(run, codes, triples)
    # (d) random mixed-case codes
    nd = random_codes(run, 50000, six=1.0)
    run.exhaustive("six-digit codes with <= 2 distinct nibble values in lower/upper/mixed case (%d strings), with and without '#'" % na)
    run.exhaustive("six-digit lower-case codes: 64^3 = %d over boundary channel values, all %d codes < 0x010000; with and without '#'" % (nb, nc))
    run.note("six-digit sample: %d code strings (x2 with '#'), of which %d random mixed-case; %d evaluations" % (na + nb + nc + nd, nd, run.evaluations - n0))


def random_codes(run, n, six=0.7):
    rng = run.rng
    codes, triples = [], []
    for _ in range(n):
        if rng.random() < six:
            r, g, b = rng.randrange(256), rng.randrange(256), rng.randrange(256)
            codes.append(recase(H2L[r] + H2L[g] + H2L[b], rng.randrange(64)))
            triples.append((r, g, b))
        else:
            a, b, c = rng.choice(DIGITS22), rng.choice(DIGITS22), rng.choice(DIGITS22)
            codes.append(a + b + c)
            triples.append((17 * VAL[a], 17 * VAL[b], 17 * VAL[c]))
    check_codes(run, codes, triples)
    return n


# -- thorough: all 16^6 lower-case codes, spread over worker processes ----------------
def sweep_red(args):
    """All 65536 codes with red channel r (with and without '#'). Returns (r, done, failing codes)."""
    r, deadline = args
    if time.time() > deadline:
        return r, False, []
    bad = []
    pre = H2L[r]
    for g in range(256):
        pg = pre + H2L[g]
        codes = [pg + h for h in H2L]
        triples = [(r, g, b) for b in range(256)]
        head = "rgb(" + str(r) + ", " + str(g) + ", "
        strs = [head + str(b) + ")" for b in range(256)]
        hu = H2U[r] + H2U[g]
        htmls = [hu + h for h in H2U]
        for variant in (codes, ["#" + c for c in codes]):
            if not batch_ok(variant, triples, strs, htmls):
                for c, t, s, h in zip(variant, triples, strs, htmls):
                    if not batch_ok([c], [t], [s], [h]):
                        bad.append(c)
    return r, True, bad


def six_digit_all(run, reserve):
    deadline = run.t0 + run.budget - reserve
    tasks = [(r, deadline) for r in range(256)]
    results = None
    nproc = max(1, min(8, os.cpu_count() or 1))
    if nproc > 1:
        try:
            import multiprocessing
            ctx = multiprocessing.get_context("fork")
            with ctx.Pool(nproc) as pool:
                results = list(pool.imap_unordered(sweep_red, tasks, chunksize=2))
        except Exception as e:  # noqa  -- no worker processes available: do it here
            run.note("worker pool unavailable (%s), sweeping in-process" % type(e).__name__)
            results = None
    if results is None:
        results = [sweep_red(t) for t in tasks]
    done = sorted(r for r, ok, _ in results if ok)
    nbad = 0
    for r, ok, bad in sorted(results):
        nbad += len(bad)
        for c in bad[:4] if nbad <= 64 else []:
            check_code(run, c)  # records the violation(s) with the concrete code
    run.evaluations += len(done) * 65536 * 2
    run.nontrivial += len(done) * 65536 * 2
    if len(done) == 256:
        run.exhaustive("all 16^6 = 16777216 six-digit lower-case codes, with and without '#' (%d worker processes)" % nproc)
    else:
        run.note("time budget: swept red channel values %d of 256 only (%d codes x2)" % (len(done), len(done) * 65536))
    if nbad:
        run.note("%d failing code strings in the full sweep (first ones re-evaluated and recorded)" % nbad)
        run.nviol = max(run.nviol, nbad)


# ----------------------------------------------------------------------------
def replay(run, inp):
    if inp.get("kind") in ("name", "names"):
        replay_names(run, inp)
    else:
        check_code(run, "".join(chr(c) for c in inp["code"]))
    run.evaluations += 1
    run.nontrivial += 1


def body(run):
    rng = run.rng
    # names
    if run.tier == "thorough":
        idx = range(N_MAX + 1)
        for lo in range(0, N_MAX + 1, 100000):
            check_names(run, list(idx[lo:lo + 100000]))
        # distinctness over the whole range at once (each batch above only sees its own block)
        try:
            if len(set(map(int2name, idx))) != N_MAX + 1:
                seen = {}
                for i in idx:
                    check_name(run, i, seen)
        except Exception:  # noqa  -- already recorded per index above
            pass
        run.exhaustive("int2name on every index 0..10^6: equal to the independent enumeration, hence distinct and letters only")
    else:
        head = list(range(200001))
        tail = sorted(set([N_MAX, N_MAX - 1, 475253, 475254, 475255, 18277, 18278, 701, 702] + rng.sample(range(200001, N_MAX + 1), 50000)))
        check_names(run, head + tail)
        run.exhaustive("int2name on every index 0..200000 (all names up to 3 letters and 4-letter names up to %s)" % names_upto(N_MAX)[200000])
        run.note("int2name: + %d sampled indices in 200001..10^6" % len(tail))
    # colours
    three_digit(run)
    six_digit_sample(run)
    if run.tier == "thorough":
        six_digit_all(run, reserve=min(20.0, run.budget * 0.15))
    run.note("enumerated part done at %.1f s" % (run.budget - run.left()))
    run.sample({"int2name(0,25,26,701,702,475254)": [names_upto(N_MAX)[i] for i in (0, 25, 26, 701, 702, 475254)]})
    # seeded random instances until the budget is used
    k = 0
    while run.left() > 0:
        random_codes(run, 2000)
        check_names(run, [rng.randrange(N_MAX + 1) for _ in range(500)])
        k += 1
    run.note("%d random rounds of 2000 mixed-case codes (x2 with '#') and 500 indices" % k)


if __name__ == "__main__":
    common.main("C20", SCOPE, body, replay)
