"""T2 driver for C13 (bounded): linear ticks are round, evenly spaced, complete, in-domain, uniquely labelled.

Oracle (written from the statement, integer/rational arithmetic, nothing taken from labella/scale.py):
  * ticks strictly increasing;
  * there is a step S = mant * 10^k, mant in {1,2,5}, such that tick i is n_i * S with n_{i+1} = n_i + 1
    (S is recovered from the spacing of the ticks; with fewer than two ticks it is the step of the documented
    d3 rule "power of ten below span/m, times 10/5/2 when the error m*step/span is <= 0.15/0.35/0.75",
    evaluated in exact rationals; at an exact threshold either neighbour is accepted);
  * every tick inside the domain, no multiple of S inside the domain missing; float effects are allowed at the two
    ends only: a multiple within END_TOL of an end may be present or absent, END_TOL = 1e-9*S + the rounding bound of
    the float operations that produce a tick (4 ulp of the end points' magnitude per accumulated addition);
  * floor(0.57*m) <= number of ticks <= 1.43*m + 1;
  * tickFormat(m): distinct texts for distinct ticks, float(text) within S/1000 of the tick.
"""
import math
from fractions import Fraction as Fr

from . import common  # noqa: F401  (sets sys.path)
from labella.scale import LinearScale

EPS = 2.0 ** -52
MANTS = (1, 2, 5)

SCOPE = ("all ordered pairs a != b of a signed value grid (0, 1e-6 .. 1e9; 29 values quick / 53 thorough) that satisfy the "
         "quantifier (|end| in {0} u [1e-6,1e9], 1e-9 <= span <= 1e12, span >= 1e-6*max|end|) x every m in 1..100 "
         "and the default; plus domains placed on and one ulp around the step thresholds 0.15/0.35/0.75 "
         "and on exact multiples of the step; then seeded random domains x m until the time budget")

GRID_QUICK = [1e-6, 0.001, 0.1, 0.3, 0.7, 1.0, 2.5, 7.0, 10.0, 99.5, 1000.0, 12345.678, 1e6, 1e9]
GRID_THOROUGH = GRID_QUICK + [3.3e-6, 0.0123, 0.5, 0.9, 1.1, 3.0, 36.6, 64.0, 999.999, 5e7, 123456789.0 / 1, 9.99e8 + 0.5]
M_ALL = [None] + list(range(1, 101))


# ----------------------------------------------------------------------------
# the quantifier
# ----------------------------------------------------------------------------
def mag_ok(v):
    return v == 0 or 1e-6 <= abs(v) <= 1e9


def in_quantifier(a, b):
    if not (math.isfinite(a) and math.isfinite(b)) or a == b:
        return False
    if not (mag_ok(a) and mag_ok(b)):
        return False
    span = abs(Fr(b) - Fr(a))
    mag = max(abs(a), abs(b))
    return Fr(1, 10 ** 9) <= span <= 10 ** 12 and span >= Fr(mag) / 10 ** 6


def signed_grid(grid):
    return [0.0] + [s * v for v in grid for s in (1, -1)]


def grid_domains(grid):
    vals = signed_grid(grid)
    return [(a, b) for a in vals for b in vals if in_quantifier(a, b)]


def threshold_domains():
    """Domains whose m*step/span sits on / one ulp around a threshold, and domains whose ends are multiples of the step."""
    out = []
    for thr in (Fr(15, 100), Fr(35, 100), Fr(75, 100)):
        for k in (-3, 0, 2):
            for m in (1, 2, 3, 5, 10, 37, 100):
                span = float(m * Fr(10) ** k / thr)
                for sp in (span, math.nextafter(span, 0), math.nextafter(span, math.inf)):
                    for base in (0.0, -span / 3, 10.0 ** (k + 2)):
                        a, b = base, base + sp
                        if in_quantifier(a, b):
                            out.append((a, b, m))
                            out.append((b, a, m))
    for step in (0.1, 0.2, 0.5, 1.0, 20.0, 0.005):
        for n0 in (-7, 0, 3, 1000):
            for cnt in (1, 2, 7, 10, 33, 100):
                a, b = n0 * step, (n0 + cnt) * step
                if in_quantifier(a, b):
                    out.append((a, b, cnt))
                    out.append((b, a, None))
    return out


def rand_value(rng):
    r = rng.random()
    if r < 0.06:
        return 0.0
    v = 10.0 ** rng.uniform(-6, 9)
    if rng.random() < 0.5:
        v = float("%.*g" % (rng.randint(1, 4), v))  # "round" decimal values
    v = min(max(v, 1e-6), 1e9)
    return v if rng.random() < 0.6 else -v


def rand_domain(rng):
    """A domain inside the quantifier (rejection sampling over several shapes)."""
    while True:
        r = rng.random()
        a = rand_value(rng)
        if r < 0.45:
            b = rand_value(rng)
        elif r < 0.9:  # span chosen relative to the magnitude, down to the allowed 1e-6
            mag = max(abs(a), 1e-6)
            span = mag * 10.0 ** rng.uniform(-6, 1.5)
            if rng.random() < 0.4:
                span = float("%.*g" % (rng.randint(1, 3), span))
            b = a + span if rng.random() < 0.5 else a - span
        else:  # both ends multiples of a round step
            step = rng.choice(MANTS) * 10.0 ** rng.randint(-6, 6)
            a = rng.randint(-200, 200) * step
            b = a + rng.randint(1, 150) * step
        if rng.random() < 0.5:
            a, b = b, a
        if in_quantifier(a, b):
            return a, b


def rand_m(rng):
    r = rng.random()
    if r < 0.1:
        return None
    if r < 0.4:
        return rng.randint(1, 6)
    return rng.randint(1, 100)


# ----------------------------------------------------------------------------
# the documented step rule, in exact rationals
# ----------------------------------------------------------------------------
def norm_step(mant, k):
    if mant == 10:
        return (1, k + 1)
    return (mant, k)


def step_value(st):
    return st[0] * Fr(10) ** st[1]


def rule_steps(lo, hi, m):
    """Candidate steps (mant, k) of the documented rule for the domain [lo, hi] (lo < hi) and count m.

    One candidate, or two when the error sits (to relative 1e-9) on a threshold, where float rounding decides."""
    m = 10 if m is None else m
    q = (Fr(hi) - Fr(lo)) / m
    k = int(math.floor(math.log10(float(q))))
    while Fr(10) ** k > q:
        k -= 1
    while Fr(10) ** (k + 1) <= q:
        k += 1
    err = Fr(10) ** k / q  # in (1/10, 1]

    def pick(e):
        if e <= Fr(15, 100):
            return 10
        if e <= Fr(35, 100):
            return 5
        if e <= Fr(75, 100):
            return 2
        return 1

    rel = Fr(1, 10 ** 9)
    cands = []
    for e in (err, err * (1 - rel), err * (1 + rel)):
        st = norm_step(pick(e), k)
        if st not in cands:
            cands.append(st)
    return cands


def multiple(n, st):
    """n * mant * 10^k as the correctly rounded float (integer arithmetic)."""
    mant, k = st
    if k >= 0:
        return float(n * mant * 10 ** k)
    return (n * mant) / (10 ** -k)


def recover_step(d):
    """(mant, k) with mant in {1,2,5} nearest to the positive float d (None if d is no such value to 1e-6)."""
    if not (d > 0 and math.isfinite(d)):
        return None
    k0 = int(math.floor(math.log10(d)))
    best = None
    for k in (k0 - 1, k0, k0 + 1):
        for mant in MANTS:
            v = multiple(1, (mant, k))
            r = abs(d - v) / v
            if best is None or r < best[0]:
                best = (r, (mant, k))
    return best[1] if best[0] <= 1e-6 else None


# ----------------------------------------------------------------------------
# the check
# ----------------------------------------------------------------------------
def check_against_step(ticks, lo, hi, st, mag):
    """List of (clause, observed) for the tick list against the step st."""
    bad = []
    S = multiple(1, st)
    Sx = step_value(st)
    slack = 4 * EPS * mag * (len(ticks) + 2)
    end_tol = 1e-9 * S + slack
    ns = []
    for t in ticks:
        n = int(round(t / S))
        if abs(t - multiple(n, st)) > end_tol:
            bad.append(("C13.multiple", {"tick": t, "step": S, "nearest_multiple": multiple(n, st)}))
            return bad
        ns.append(n)
    for i in range(len(ns) - 1):
        if ns[i + 1] != ns[i] + 1:
            bad.append(("C13.missing.interior", {"after": ticks[i], "next": ticks[i + 1], "step": S}))
            break
    for t in ticks:
        if t < lo - end_tol or t > hi + end_tol:
            bad.append(("C13.inside", {"tick": t, "domain": [lo, hi], "step": S, "end_tol": end_tol}))
            break
    tolx = Fr(end_tol)
    if ns:
        if (ns[0] - 1) * Sx >= Fr(lo) + tolx:
            bad.append(("C13.missing.low", {"first": ticks[0], "absent": float((ns[0] - 1) * Sx), "low": lo, "step": S}))
        if (ns[-1] + 1) * Sx <= Fr(hi) - tolx:
            bad.append(("C13.missing.high", {"last": ticks[-1], "absent": float((ns[-1] + 1) * Sx), "high": hi, "step": S}))
    else:
        n = math.ceil((Fr(lo) + tolx) / Sx)
        if n * Sx <= Fr(hi) - tolx:
            bad.append(("C13.missing.all", {"absent": float(n * Sx), "domain": [lo, hi], "step": S}))
    return bad


def check(run, a, b, m, prior=()):
    """prior: counts the SAME scale instance was asked for (and whose ticks were consumed) before ticks(m)"""
    inp = {"domain": [a, b], "m": m}
    if prior:
        inp["prior_ticks_calls"] = list(prior)
    lo, hi = min(a, b), max(a, b)
    mag = max(abs(a), abs(b))
    M = 10 if m is None else m
    ok, s = run.guard(lambda: LinearScale().domain([a, b]), "C13.exception", inp)
    if not ok:
        return 0
    for p in prior:
        run.guard(lambda: list(s.ticks() if p is None else s.ticks(p)), "C13.exception", inp)
    ok, ticks = run.guard(lambda: list(s.ticks() if m is None else s.ticks(m)), "C13.exception", inp)
    if not ok:
        return 0
    n = len(ticks)
    if any(not isinstance(t, (int, float)) or not math.isfinite(t) for t in ticks):
        run.violation("C13.finite", inp, {"ticks": ticks[:8]})
        return n
    for i in range(n - 1):
        if not ticks[i] < ticks[i + 1]:
            run.violation("C13.increasing", inp, {"i": i, "pair": ticks[i:i + 2]})
            return n
    # the step
    if n >= 2:
        st = recover_step((ticks[-1] - ticks[0]) / (n - 1))
        if st is None:
            st = recover_step(ticks[1] - ticks[0])
        if st is None:
            run.violation("C13.stepform", inp, {"spacing": (ticks[-1] - ticks[0]) / (n - 1), "ticks": ticks[:5]})
            return n
        cands = [st]
    else:
        cands = rule_steps(lo, hi, m)
    worst = None
    for st in cands:
        bad = check_against_step(ticks, lo, hi, st, mag)
        if not bad:
            worst = None
            break
        worst = worst or bad
    if worst:
        for clause, obs in worst:
            obs["n_ticks"] = n
            run.violation(clause, inp, obs)
        st = cands[0]
    # the count
    if n < (57 * M) // 100 or 100 * n > 143 * M + 100:
        run.violation("C13.count", inp, {"n_ticks": n, "min": (57 * M) // 100, "max": 1.43 * M + 1, "step": multiple(1, st)})
    # the labels
    ok, f = run.guard(lambda: s.tickFormat() if m is None else s.tickFormat(m), "C13.format.exception", inp)
    if not ok:
        return n
    ok, texts = run.guard(lambda: [f(t) for t in ticks], "C13.format.exception", inp)
    if not ok:
        return n
    if len(set(texts)) != n:
        seen = {}
        for t, x in zip(ticks, texts):
            if x in seen:
                run.violation("C13.format.distinct", inp, {"text": x, "ticks": [seen[x], t]})
                break
            seen[x] = t
    S = multiple(1, st)
    for t, x in zip(ticks, texts):
        try:
            v = float(x)
        except (TypeError, ValueError):
            run.violation("C13.format.reads_back", inp, {"tick": t, "text": x})
            break
        if not abs(v - t) <= S / 1000.0:
            run.violation("C13.format.reads_back", inp, {"tick": t, "text": x, "step": S})
            break
    return n


def one(run, a, b, m, prior=()):
    n = check(run, a, b, m, prior)
    run.case(("T", a, b, m, tuple(prior)), nontrivial=n >= 2)


def body(run):
    quick = run.tier == "quick"
    grid = GRID_QUICK if quick else GRID_THOROUGH
    ms = M_ALL
    doms = grid_domains(grid)
    done = True
    for i, (a, b) in enumerate(doms):
        for m in ms:
            one(run, a, b, m)
        if run.left() < run.budget * 0.35:
            run.note("enumerated grid cut after %d of %d domains by the time budget" % (i + 1, len(doms)))
            done = False
            break
    thr = threshold_domains()
    for a, b, m in thr:
        one(run, a, b, m)
    if done:
        run.exhaustive("%d grid domains (signed grid of %d values, quantifier-filtered) x %d counts; %d threshold/multiple domains"
                       % (len(doms), len(signed_grid(grid)), len(ms), len(thr)))
    nh = 0
    for a, b in doms[::7]:
        for prior, m in (((None,), 50), ((50,), None), ((1,), 37), ((37, None), 2)):
            one(run, a, b, m, prior)
            nh += 1
    run.exhaustive("%d histories: ticks(p) on the same instance before ticks(m)" % nh)
    while run.left() > 0:
        for _ in range(200):
            a, b = rand_domain(run.rng)
            one(run, a, b, rand_m(run.rng))


def replay(run, inp):
    a, b = inp["domain"]
    one(run, float(a), float(b), inp["m"], tuple(inp.get("prior_ticks_calls", ())))


if __name__ == "__main__":
    common.main("C13", SCOPE, body, replay)
