"""T2 driver for C17 (bounded): the d3-style calendar intervals against an independent calendar.

The oracle never calls the library: instants are integer milliseconds since 1970-01-01 (naive); second, minute,
hour, day and week boundaries are integer multiples of a fixed length (week: phase = Sunday 1970-01-04); month
and year boundaries come from the (year, month) fields.  A self test at start-up cross-checks the two views
(integer arithmetic vs. datetime field truncation / weekday()) so that an oracle slip crashes the driver
(checker fault) instead of producing a verdict.

Also the home of the small independent calendar (ms_of, dt_of, o_floor, o_next, ...) used by c15/c16/c18.
"""
import calendar
from datetime import datetime, timedelta

from . import common  # noqa: F401  (sets sys.path)

EPOCH = datetime(1970, 1, 1)
ONE_MS = timedelta(milliseconds=1)
ONE_US = timedelta(microseconds=1)
DAY_MS = 86400000
UNITS = ["second", "minute", "hour", "day", "week", "month", "year"]
# fixed-length units: (length in ms, phase in ms); week starts on Sunday; 1970-01-04 was a Sunday
FIXED = {"second": (1000, 0), "minute": (60000, 0), "hour": (3600000, 0), "day": (DAY_MS, 0),
         "week": (7 * DAY_MS, 3 * DAY_MS)}
APPROX_MS = {"second": 1000, "minute": 60000, "hour": 3600000, "day": DAY_MS, "week": 7 * DAY_MS,
             "month": 30 * DAY_MS, "year": 365 * DAY_MS}
T_MIN = datetime(1900, 1, 1)
T_MAX = datetime(2200, 12, 31, 23, 59, 59, 999000)


# ----------------------------------------------------------------------------
# the independent calendar
# ----------------------------------------------------------------------------
def ms_of(t):
    """integer ms since the naive epoch (floor for sub-ms values)"""
    return (t - EPOCH) // ONE_MS


def us_of(t):
    return (t - EPOCH) // ONE_US


def dt_of(ms):
    return EPOCH + timedelta(milliseconds=ms)


def o_floor(unit, t):
    if unit in FIXED:
        q, ph = FIXED[unit]
        m = ms_of(t)
        return dt_of(m - (m - ph) % q)
    if unit == "month":
        return datetime(t.year, t.month, 1)
    return datetime(t.year, 1, 1)


def o_kth(unit, b, k):
    """the k-th boundary after boundary b (k >= 0)"""
    if unit in FIXED:
        return dt_of(ms_of(b) + k * FIXED[unit][0])
    if unit == "month":
        y, m0 = divmod(b.year * 12 + (b.month - 1) + k, 12)
        return datetime(y, m0 + 1, 1)
    return datetime(b.year + k, 1, 1)


def o_next(unit, b):
    return o_kth(unit, b, 1)


def o_ceil(unit, t):
    f = o_floor(unit, t)
    return f if f == t else o_next(unit, f)


def o_round(unit, t):
    f = o_floor(unit, t)
    c = o_next(unit, f)
    return f if (t - f) < (c - t) else c


def o_fcr(unit, t):
    """(floor, ceil, round) in one go"""
    f = o_floor(unit, t)
    n = o_next(unit, f)
    return f, (f if f == t else n), (f if (t - f) < (n - t) else n)


def o_number(unit, b):
    if unit == "week":
        # d3's Sunday-based week of the year: floor((day of year + weekday of 1 January) / 7) - 1, day of year from 0,
        # Sunday = 0 (the statement says "unit number"; for weeks that is d3.time.sundayOfYear as ported)
        jan1 = datetime(b.year, 1, 1)
        doy = (datetime(b.year, b.month, b.day) - jan1).days
        return (doy + jan1.isoweekday() % 7) // 7 - 1
    return {"second": b.second, "minute": b.minute, "hour": b.hour, "day": b.day - 1, "month": b.month - 1,
            "year": b.year}[unit]


def o_range(unit, start, stop, step):
    out = []
    b = o_ceil(unit, start)
    while b < stop:
        if step == 1 or o_number(unit, b) % step == 0:
            out.append(b)
        b = o_next(unit, b)
    return out


def o_is_boundary(unit, t):
    return o_floor(unit, t) == t


def oracle_selftest(rng):
    """integer view vs. field view of the same calendar; raises (driver crash) on disagreement"""
    pts = [T_MIN, T_MAX, EPOCH, EPOCH - ONE_MS, datetime(2024, 2, 29, 23, 59, 59, 999000), datetime(1900, 2, 28, 12),
           datetime(2000, 12, 31, 23, 59, 59, 999000), datetime(1969, 12, 28), datetime(2021, 3, 14, 2, 30)]
    span = ms_of(T_MAX) - ms_of(T_MIN)
    pts += [dt_of(ms_of(T_MIN) + rng.randrange(span + 1)) for _ in range(300)]
    for t in pts:
        assert dt_of(ms_of(t)) == t
        assert o_floor("second", t) == t.replace(microsecond=0)
        assert o_floor("minute", t) == t.replace(second=0, microsecond=0)
        assert o_floor("hour", t) == t.replace(minute=0, second=0, microsecond=0)
        d = t.replace(hour=0, minute=0, second=0, microsecond=0)
        assert o_floor("day", t) == d
        w = o_floor("week", t)
        assert w.weekday() == 6 and w == datetime.fromordinal(t.toordinal() - t.toordinal() % 7)
        assert timedelta(0) <= t - w < timedelta(days=7) and w.isoweekday() == 7
        mo = o_floor("month", t)
        assert o_next("month", mo) - mo == timedelta(days=calendar.monthrange(t.year, t.month)[1])
        yr = o_floor("year", t)
        assert o_next("year", yr) - yr == timedelta(days=366 if calendar.isleap(t.year) else 365)
        assert o_kth("month", mo, 25) == datetime(mo.year + 2 + (mo.month == 12), mo.month % 12 + 1, 1)
        for u in UNITS:
            f, c, r = o_floor(u, t), o_ceil(u, t), o_round(u, t)
            assert f <= t <= c and o_is_boundary(u, f) and o_is_boundary(u, c) and r in (f, c)
            assert (c == f) == (t == f) and (c == f or c == o_next(u, f))
            assert abs(r - t) == min(t - f, o_next(u, f) - t)


# ----------------------------------------------------------------------------
# checks on the code under test
# ----------------------------------------------------------------------------
def _lib():
    from labella.d3_time import d3_time
    return d3_time


def _same(a, b):
    return isinstance(a, datetime) and a == b


def check_instant(run, t, units=UNITS):
    """floor / ceil / round of instant t for the given units (fast path; slow path names the clause)"""
    iv = _lib()
    bad = False
    try:
        for u in units:
            x = iv[u]
            f, c, r = o_fcr(u, t)
            if not (_same(x.floor(t), f) and _same(x.ceil(t), c) and _same(x.round(t), r)):
                bad = True
                break
    except Exception:
        bad = True
    if bad:
        for u in units:
            for op in ("floor", "ceil", "round"):
                check_op(run, {"op": op, "unit": u, "t": t})


def check_op(run, inp):
    """one recorded query; the replay entry point as well"""
    iv = _lib()
    op, u = inp["op"], inp["unit"]
    x = iv[u]
    if op in ("floor", "ceil", "round"):
        t = inp["t"]
        want = {"floor": o_floor, "ceil": o_ceil, "round": o_round}[op](u, t)
        ok, got = run.guard(lambda: getattr(x, op)(t), "C17.exception", inp)
        if ok and not _same(got, want):
            run.violation("C17." + op, inp, {"got": got, "want": want})
    elif op == "offset":
        b, k = inp["t"], inp["k"]
        want = o_kth(u, b, k)
        ok, got = run.guard(lambda: x.offset(b, k), "C17.exception", inp)
        if ok and not _same(got, want):
            run.violation("C17.offset", inp, {"got": got, "want": want})
    elif op == "range":
        start, stop, step = inp["start"], inp["stop"], inp["step"]
        want = o_range(u, start, stop, step)
        ok, got = run.guard(lambda: x.range(start, stop, step), "C17.exception", inp)
        if ok:
            got = list(got)
            if len(got) != len(want) or not all(_same(g, w) for g, w in zip(got, want)):
                k = next((i for i, (g, w) in enumerate(zip(got, want)) if not _same(g, w)), min(len(got), len(want)))
                run.violation("C17.range", inp, {"got_len": len(got), "want_len": len(want), "first_diff_index": k,
                                                 "got_at": got[k] if k < len(got) else None,
                                                 "want_at": want[k] if k < len(want) else None})
    else:
        raise ValueError("unknown op %r" % (op,))


def check_offset(run, u, b, k):
    try:
        if _same(_lib()[u].offset(b, k), o_kth(u, b, k)):
            return
    except Exception:
        pass
    check_op(run, {"op": "offset", "unit": u, "t": b, "k": k})


def check_range(run, u, start, stop, step):
    check_op(run, {"op": "range", "unit": u, "start": start, "stop": stop, "step": step})


# ----------------------------------------------------------------------------
# scopes
# ----------------------------------------------------------------------------
SCOPE = ("units second/minute/hour/day/week(Sunday)/month/year of d3_time, naive instants of ms resolution 1900-01-01..2200-12-31: "
         "(a) floor/ceil/round of every unit at 5 times of day (00:00:00.000, 00:00:00.001, 12:00:00.000, 23:59:59.999, one hashed ms) "
         "of EVERY day 1900-2200 (thorough; the first 3 of these times when the budget is under 200 s) / every day of 1900, 1969, 1970, 2000, 2024, 2100, 2200 plus (units day..year) the last and first day "
         "of every month of every year (quick); (b) the round-tie instants (+-1 ms) of every month and year, every week of selected years; "
         "(c) second/minute/hour at every hour of selected years at 3-6 offsets incl. the second/minute/hour ties; (d) offset(boundary, k) for every k in 0..400 "
         "from ~45 anchor boundaries per unit, day offsets 1,2,3,7,31 from every enumerated day; (e) range(start, stop, step) for steps "
         "1..12 over anchors x lengths incl. empty, boundary-exclusive stops and every month end (27th..4th) of the "
         "enumerated years; then seeded random instants / offsets / ranges until the budget is spent")

QUICK_YEARS = [1900, 1969, 1970, 2000, 2024, 2100, 2200]
HOUR_YEARS_QUICK = [1969]
HOUR_YEARS_THOROUGH = [1969, 2024, 1900, 1970, 2200]
TIE_WEEK_YEARS_THOROUGH = [1900, 1901, 1950, 1969, 1970, 1999, 2000, 2023, 2024, 2038, 2100, 2200]

ANCHORS = [
    datetime(1900, 1, 1), datetime(1900, 2, 28, 23, 59, 59, 999000), datetime(1900, 3, 1), datetime(1900, 12, 31, 12),
    datetime(1901, 1, 1, 0, 0, 0, 1000), datetime(1916, 2, 29, 6, 7, 8, 9000), datetime(1949, 12, 31, 23, 59, 59, 999000),
    datetime(1968, 12, 29, 0, 0), datetime(1969, 7, 20, 20, 17, 40, 500000), datetime(1969, 12, 31, 23, 59, 59, 999000),
    datetime(1970, 1, 1), datetime(1970, 1, 1, 0, 0, 0, 1000), datetime(1970, 1, 3, 23, 59, 59, 999000), datetime(1970, 1, 4),
    datetime(1999, 12, 31, 23, 59, 59, 999000), datetime(2000, 1, 1), datetime(2000, 2, 28, 12, 30, 30, 500000),
    datetime(2000, 2, 29), datetime(2000, 2, 29, 23, 59, 59, 999000), datetime(2000, 3, 31, 15, 45), datetime(2001, 9, 9, 1, 46, 40),
    datetime(2016, 12, 31, 23, 59, 59), datetime(2021, 3, 14, 2, 30), datetime(2021, 11, 7, 1, 30), datetime(2021, 10, 3, 2, 15),
    datetime(2023, 1, 29), datetime(2023, 1, 30, 1), datetime(2023, 1, 31, 23, 59, 59, 999000), datetime(2023, 4, 30, 12),
    datetime(2023, 5, 31), datetime(2023, 8, 31, 8), datetime(2023, 10, 29, 1, 30), datetime(2023, 12, 31), datetime(2024, 1, 31),
    datetime(2024, 2, 28, 23, 59, 59, 999000), datetime(2024, 2, 29, 12), datetime(2024, 3, 10, 2), datetime(2024, 12, 28, 18),
    datetime(2024, 12, 31, 23, 59, 59, 999000), datetime(2038, 1, 19, 3, 14, 7), datetime(2038, 1, 19, 3, 14, 8, 1000),
    datetime(2099, 12, 31, 23), datetime(2100, 2, 28, 23, 59, 59, 999000), datetime(2100, 3, 1), datetime(2199, 12, 31, 23, 59, 59, 999000),
    datetime(2200, 2, 28, 12), datetime(2200, 12, 27), datetime(2200, 12, 31, 23, 59, 59, 999000),
]


def day_instants(day, n=5):
    """the enumerated instants of a calendar day (datetime at midnight)"""
    h = (day.toordinal() * 2654435761 + 12345) % DAY_MS
    return [day, day + timedelta(hours=12), day + timedelta(milliseconds=DAY_MS - 1), day + ONE_MS,
            day + timedelta(milliseconds=h)][:n]


def enum_days(run, days, label, units=UNITS, ntimes=5):
    """(a) + the day offsets of (d) for an iterable of midnights; returns False when cut by the budget"""
    n = 0
    for day in days:
        for t in day_instants(day, ntimes):
            run.case(ms_of(t))
            check_instant(run, t, units)
        for k in (1, 2, 3, 7, 31):
            check_offset(run, "day", day, k)
        n += 1
        if n % 512 == 0 and run.left() < run.budget * 0.25:
            run.note("%s cut by the time budget after %d days (at %s)" % (label, n, day.date().isoformat()))
            return False
    return True


def all_days(y0, y1):
    d = datetime(y0, 1, 1)
    end = datetime(y1 + 1, 1, 1)
    one = timedelta(days=1)
    while d < end:
        yield d
        d += one


def month_edge_days(y0, y1):
    for y in range(y0, y1 + 1):
        for m in range(1, 13):
            first = datetime(y, m, 1)
            yield first
            yield first + timedelta(days=calendar.monthrange(y, m)[1] - 1)


def enum_ties(run, years_weeks):
    """(b) round ties of month and year for all years, of weeks for selected years"""
    for y in range(1900, 2201):
        for m in range(1, 13):
            a = datetime(y, m, 1)
            b = o_next("month", a)
            mid = a + (b - a) / 2
            for t in (mid - ONE_MS, mid, mid + ONE_MS):
                run.case(ms_of(t))
                check_instant(run, t, ("month", "day", "week"))
        a, b = datetime(y, 1, 1), datetime(y + 1, 1, 1)
        mid = a + (b - a) / 2
        for t in (mid - ONE_MS, mid, mid + ONE_MS):
            run.case(ms_of(t))
            check_instant(run, t, ("year", "month"))
    for y in years_weeks:
        w = o_ceil("week", datetime(y, 1, 1))
        while w.year == y:
            mid = w + timedelta(days=3, hours=12)
            for t in (w - ONE_MS, w, mid - ONE_MS, mid, mid + ONE_MS):
                run.case(ms_of(t))
                check_instant(run, t, ("week", "day"))
            w += timedelta(days=7)


HOUR_OFFSETS_MS = [0, 1800000, 3599999]          # on the hour, the hour's round tie, its last ms
HOUR_OFFSETS_FINE_MS = [499, 500, 30000]          # second / minute ties (every hour in thorough, every 8th in quick)


def enum_hours(run, years, fine_every):
    """(c) every hour of the given years"""
    done = []
    for y in years:
        h = datetime(y, 1, 1)
        end = datetime(y + 1, 1, 1)
        step = timedelta(hours=1)
        i = 0
        while h < end:
            for off in (HOUR_OFFSETS_MS + HOUR_OFFSETS_FINE_MS) if i % fine_every == 0 else HOUR_OFFSETS_MS:
                t = h + timedelta(milliseconds=off)
                run.case(ms_of(t))
                check_instant(run, t, ("second", "minute", "hour"))
            h += step
            i += 1
        done.append(y)
        if run.left() < run.budget * 0.25:
            run.note("every-hour enumeration cut by the time budget after years %s" % done)
            return done
    return done


def enum_offsets(run, anchors):
    """(d) every k in 0..400 from the floor of every anchor"""
    for u in UNITS:
        seen = set()
        for a in anchors:
            b = o_floor(u, a)
            if b in seen:
                continue
            seen.add(b)
            run.case(("o", u, ms_of(b)))
            for k in range(0, 401):
                check_offset(run, u, b, k)


R_MAX = datetime(2201, 1, 1)   # range stops stay at the end of the quantifier's domain


def enum_month_end_ranges(run, month_years):
    """(e1) every month end: days 27th .. 4th 12:00, all steps (the day number restarts at the month boundary)"""
    for y in month_years:
        for m in range(1, 13):
            start = datetime(y, m, 27) - ONE_MS
            nm = o_next("month", datetime(y, m, 1))
            stop = nm + timedelta(days=3, hours=12)
            run.case(("rm", y, m))
            for step in range(1, 13):
                check_range(run, "day", start, stop, step)
            check_range(run, "week", start, stop, 1)
            check_range(run, "week", datetime(y, m, 1) - timedelta(days=20), stop + timedelta(days=45), 2 + (y + m) % 11)
            check_range(run, "hour", nm - timedelta(hours=30), nm + timedelta(hours=7), 1 + (y * 12 + m) % 12)
        if y % 16 == 0 and run.left() < run.budget * 0.15:
            run.note("month-end range enumeration cut by the time budget at year %d" % y)
            return False
    return True


def enum_ranges(run, anchors, lengths):
    """(e2) anchor-major, so that a budget cut drops anchors and never a unit; returns the number of anchors done"""
    done = 0
    for a in anchors:
        for u in UNITS:
            steps = list(range(1, 13))
            f = o_floor(u, a)
            for start in (f, f + ONE_MS, f - ONE_MS if f > T_MIN else f, a):
                stops = {start, start + ONE_MS}
                for L in lengths:
                    if u == "year" and L > 60:
                        continue
                    stops.add(start + timedelta(milliseconds=int(L * APPROX_MS[u])))
                    stops.add(o_kth(u, f, int(L) + 1))            # a boundary: the stop is exclusive
                    stops.add(o_kth(u, f, int(L) + 1) + ONE_MS)   # just past it: that boundary is included
                for stop in sorted({min(x, R_MAX) for x in stops}):
                    run.case(("r", u, ms_of(start), ms_of(stop)))
                    for step in steps:
                        check_range(run, u, start, stop, step)
        done += 1
        if run.left() < run.budget * 0.12:
            run.note("range enumeration cut by the time budget after %d of %d anchors" % (done, len(anchors)))
            break
    return done


def random_instant(rng):
    lo, hi = ms_of(T_MIN), ms_of(T_MAX)
    r = rng.random()
    if r < 0.4:
        return dt_of(rng.randint(lo, hi))
    # near a boundary of a random unit
    u = rng.choice(UNITS)
    f = o_floor(u, dt_of(rng.randint(lo, hi)))
    if r < 0.55:
        c = o_next(u, f)
        t = f + (c - f) / 2 + rng.choice([-1, 0, 0, 1]) * ONE_MS   # round tie
        t = dt_of(ms_of(t))
    else:
        t = f + rng.choice([-2, -1, 0, 0, 1, 2, 999, 1000, -1000, 59999, 3599999, DAY_MS - 1]) * ONE_MS
    return min(max(t, T_MIN), T_MAX)


def explore(run):
    quick = run.tier == "quick"
    full = (not quick) and run.budget >= 200      # thorough with a short budget enumerates 3 instead of 5 times of day
    oracle_selftest(run.rng)
    # (a)
    if quick:
        ok = True
        for y in QUICK_YEARS:
            ok = ok and enum_days(run, all_days(y, y), "every day of %d" % y)
        ok = ok and enum_days(run, month_edge_days(1900, 2200), "month ends 1900-2200", ("day", "week", "month", "year"), 3)
        if ok:
            run.exhaustive("floor/ceil/round, 7 units, 5 times of day: every day of %s + (day/week/month/year only, 00:00:00.000 / 12:00 / 23:59:59.999) first and last day of every month 1900-2200"
                           % QUICK_YEARS)
        month_years = QUICK_YEARS
    else:
        ok = enum_days(run, all_days(1900, 2200), "every day 1900-2200", UNITS, 5 if full else 3)
        if ok:
            run.exhaustive("floor/ceil/round, 7 units, %s: every day 1900-01-01..2200-12-31 (110,000+ days)"
                           % ("5 times of day" if full else "3 times of day (00:00:00.000, 12:00:00.000, 23:59:59.999; budget < 200 s)"))
        month_years = list(range(1900, 2201))
    # (b)
    enum_ties(run, QUICK_YEARS if quick else TIE_WEEK_YEARS_THOROUGH)
    run.exhaustive("round ties +-1 ms of every month and year 1900-2200, every week of selected years")
    # (e1) before the long enumerations: the month ends are where day stepping used to fail
    if enum_month_end_ranges(run, month_years):
        run.exhaustive("range of days (steps 1..12), weeks, hours across every month end (27th..4th) of %s"
                       % ("1900-2200" if not quick else QUICK_YEARS))
    # (d)
    enum_offsets(run, ANCHORS[::2] if quick else ANCHORS)
    run.exhaustive("offset(boundary, k) for every k in 0..400 from the anchor boundaries of every unit")
    # (c)
    hyears = HOUR_YEARS_QUICK if quick else (HOUR_YEARS_THOROUGH if full else HOUR_YEARS_THOROUGH[:3])
    yrs = enum_hours(run, hyears, 8 if quick else 1)
    run.exhaustive("second/minute/hour at offsets 0, 30:00.000, 59:59.999 of every hour (+ 0.499 s, 0.500 s, 30.000 s of every %shour) of years %s"
                   % ("8th " if quick else "", yrs))
    # (e2)
    lengths = [0.5, 1, 2.5, 13, 40] if quick else [0.5, 1, 2.5, 7, 13, 31, 40, 61, 100]
    anchors = ANCHORS[::6] if quick else (ANCHORS if full else ANCHORS[::2])
    k = enum_ranges(run, anchors, lengths)
    run.exhaustive("range(start, stop, step) steps 1..12, 7 units, %d anchors x 4 starts x lengths %s (+ boundary-exclusive stops)" % (k, lengths))
    # seeded random
    rng = run.rng
    while run.left() > 0:
        for _ in range(200):
            t = random_instant(rng)
            run.case(ms_of(t))
            check_instant(run, t)
            u = rng.choice(UNITS)
            b = o_floor(u, t)
            check_offset(run, u, b, rng.randint(0, 400))
            if rng.random() < 0.3:
                L = rng.choice([0, 1, 3, 10, 30, 70]) * rng.random()
                if u == "year":
                    L = min(L, 50)
                stop = t + timedelta(milliseconds=int(L * APPROX_MS[u]))
                if rng.random() < 0.3:
                    stop = o_ceil(u, stop) + rng.choice([0, 0, 1]) * ONE_MS
                stop = min(stop, R_MAX)
                check_range(run, u, t, stop, rng.randint(1, 12))


def replay(run, inp):
    check_op(run, inp)


if __name__ == "__main__":
    common.main("C17", SCOPE, explore, replay)
