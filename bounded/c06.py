"""T2 driver for C06 (bounded, scope S-CHAIN): see bounded/layout.py."""
from . import common, layout

SCOPE = "S-CHAIN: all label multisets n<=3 (quick) / n<=4 (thorough) on a half-integer grid x widths {1,2,3.5} x 7 bound shapes x nodeSpacing {0,3} x {overlap,simple,none} x stubWidth; then seeded random instances up to 60/200 labels until the time budget"

if __name__ == "__main__":
    common.main("C06", SCOPE, lambda run: layout.explore(run, {"C06"}), lambda run, inp: layout.replay(run, {"C06"}, inp))
