"""Verification of one function against its sidecar contract, and discharge of the obligations."""
import ast
import os
import time
import traceback

import z3

from .engine import Engine, Ctx, Obligation
from .values import (Path, Func, NONE, Num, Bool, Ref, SList, Handle, Str, Tup, Unsupported, SpecError, I, R, B, NULL)


class FuncResult(object):
    def __init__(self, qual):
        self.qual = qual
        self.status = "ok"          # ok | left-subset | spec-error
        self.reason = ""
        self.obligations = []       # list of dict(name, kind, verdict, time, solver, model)
        self.paths = 0
        self.returns = 0
        self.assumptions = []
        self.wall = 0.0
        self.fingerprint = ""

    def as_dict(self):
        return dict(qual=self.qual, status=self.status, reason=self.reason, obligations=self.obligations,
                    paths=self.paths, returns=self.returns, assumptions=self.assumptions, wall=round(self.wall, 3),
                    fingerprint=self.fingerprint)


def make_param(E, P, name, kind):
    if isinstance(kind, str):
        if kind.startswith("opt:"):
            raise SpecError("opt: kinds are expanded by cases")
        if kind.startswith("ref:"):
            v = E.sym(name, kind)
            P.assume(v.t != NULL)
            E.assume_allocated(P, v.t)
            P.assume(z3.Select(E.alloc_arr(P), v.t))
            P.assume(E.type_is(P, v.t, kind[4:]))
            return v
        if kind.startswith("ref?:"):
            v = E.sym(name, "ref:" + kind[5:])
            E.assume_allocated(P, v.t)
            return v
        if kind.startswith("slist:"):
            v = E.sym(name, kind)
            P.assume(v.t != NULL)
            P.assume(z3.Select(E.alloc_arr(P), v.t))
            P.assume(E.type_is(P, v.t, "list"))
            P.assume(E.l_len(P, v) >= 0)
            return v
        if kind == "none":
            return NONE
        if kind == "dt_ms":      # a naive datetime of millisecond resolution (the quantifier of C14-C17)
            v = E.sym(name, "dt")
            P.assume(v.payload[0] % 1000 == 0)
            return v
        return E.sym(name, kind)
    if isinstance(kind, (list, tuple)) and kind and kind[0] == "list":   # python-side list of given kinds
        return P.new("list", tuple(make_param(E, P, "%s_%d" % (name, i), k) for i, k in enumerate(kind[1:])))
    if isinstance(kind, (list, tuple)) and kind and kind[0] == "tuple":
        return Tup([make_param(E, P, "%s_%d" % (name, i), k) for i, k in enumerate(kind[1:])])
    if isinstance(kind, dict) and "$dict" in kind:
        return P.new("dict", {k: make_param(E, P, "%s_%s" % (name, k), v) for k, v in kind["$dict"].items()})
    if isinstance(kind, dict) and "$obj" in kind:
        mod, cls = kind["$obj"]
        return P.new("obj", {k: make_param(E, P, "%s_%s" % (name, k), v) for k, v in kind.get("fields", {}).items()},
                     cls=(mod, cls))
    if callable(kind):
        return kind(E, P, name)
    raise SpecError("bad parameter kind %r" % (kind,))


def verify_function(repo, qual, con, types, contracts, specfuns=None, timeout_ms=10000):
    """Symbolically execute the real function under its contract; return FuncResult."""
    t0 = time.time()
    fr = FuncResult(qual)
    if con.get("py_classes"):
        # classes this contract wants as plain Python objects with exact attribute sets (built by the real constructor on the
        # path) instead of the typed SMT heap records other contracts use for them
        types = {k: v for k, v in types.items() if k not in con["py_classes"]}
    E = Engine(repo, types, contracts, specfuns)
    E.current = qual
    E.raised = []
    try:
        real = con.get("func_alias", qual)
        fr.fingerprint = repo.fingerprint(real)
        mod, node, cls = repo.func(real)
        f = Func(node, mod, (), qual.split(".")[-1], cls=cls, qual=qual)
        cases = con.get("cases") or [{}]
        sel = os.environ.get("PYVC_CASES")
        tier = os.environ.get("PYVC_TIER", "quick")
        for ci, case in enumerate(cases):
            if sel and str(ci) not in sel.split(","):
                continue
            if not sel and tier == "quick" and con.get("quick_cases") is not None and ci not in con["quick_cases"]:
                continue      # the remaining cases are verified in the thorough tier (stated in the contract)
            if not sel and tier != "quick" and con.get("thorough_cases") is not None and ci not in con["thorough_cases"]:
                continue
            E.loop_counter = {}
            E.active_case = case
            P = Path()
            params = dict(con.get("params", {}))
            params.update(case.get("params", {}))
            env = {}
            for name, kind in params.items():
                env[name] = make_param(E, P, name, kind)
            starts = [(P, env)]
            if con.get("setup"):
                got = con["setup"](E, P, env)
                if isinstance(got, list):
                    starts = got
                else:
                    env.update(got or {})
            tag = ("case%d." % ci) if len(cases) > 1 else ""
            outs = []
            feasible_starts = 0
            for (P, env) in starts:
                frame = E.new_frame(P, env)
                sctx = Ctx(mod, (frame,), True, qual)
                if con.get("heap", False):
                    E.wf_axioms(P)
                for (nm, src) in E.named(list(con.get("requires", [])) + list(case.get("requires", []))):
                    for (p, v) in E.ev(E.parse(src), P, sctx):
                        P.assume(E.truth(v, P))
                if not E.feasible(P):
                    continue
                feasible_starts += 1
                P.old = P.clone()
                P.written = set()
                cctx = Ctx(mod, (frame,), False, qual)
                E.func_stack.append(qual)
                E.loop_counter = {}
                if isinstance(node, ast.Lambda):
                    o1 = [(p, ("ret", v)) for (p, v) in E.ev(node.body, P, cctx)]
                else:
                    E.index_loops(node)
                    gen = None
                    if con.get("yields"):
                        # A-GEN (engine.call_func): the generator is modelled by the list of the values it yields
                        gen = E.new_slist(P, con["yields"], "yielded")
                        d = dict(P.get(frame))
                        d["yielded"] = gen
                        P.put(frame, d)
                        E.assume_used("A-GEN")
                    o1 = E.exec_block(node.body, P, cctx, E.nonlocals_of(node))
                    if gen is not None:
                        o1 = [(p, ("ret", gen)) if o[0] in ("ret", "next") else (p, o) for (p, o) in o1]
                E.func_stack.pop()
                o1 = list(o1) + [(p, ("exc", nm)) for (p, nm) in E.raised]
                E.raised = []
                outs.extend((p, o, frame, sctx, cctx) for (p, o) in o1)
            # vacuity guard: the precondition must be satisfiable
            if feasible_starts == 0:
                fr.obligations.append(dict(name="%s/%svacuity.pre_satisfiable" % (qual, tag), kind="vacuity",
                                           verdict="failed", time=0, solver="z3", model="precondition unsatisfiable"))
                continue
            fr.paths += len(outs)
            allowed = set(con.get("modifies", []))
            # "epilogue": statements executed (NOT evaluated as contract text) after the function body on every return path, in the
            # function's frame with `result` bound - a harness that USES the object through its public methods with symbolic
            # probe arguments (parameters of the contract), so that postconditions can speak about what those calls return
            # without calling possibly state-changing methods from contract text
            if con.get("epilogue"):
                import textwrap
                body = ast.parse(textwrap.dedent(con["epilogue"])).body
                outs2 = []
                for (p, o, frame, sctx, cctx) in outs:
                    if o[0] not in ("ret", "next"):
                        outs2.append((p, o, frame, sctx, cctx))
                        continue
                    res0 = o[1] if o[0] == "ret" else NONE
                    d = dict(p.get(frame))
                    d["result"] = res0
                    p.put(frame, d)
                    for (q, o2) in E.exec_block(body, p, cctx, ()):
                        if o2[0] == "next":
                            outs2.append((q, ("ret", res0), frame, sctx, cctx))
                        elif o2[0] == "exc":
                            outs2.append((q, o2, frame, sctx, cctx))
                        else:
                            raise Unsupported("epilogue outcome %r" % (o2,))
                    outs2.extend((q, ("exc", nm), frame, sctx, cctx) for (q, nm) in E.raised)
                    E.raised = []
                outs = outs2
            for (p, o, frame, sctx, cctx) in outs:
                if o[0] == "exc":
                    if con.get("noraise", True):
                        E.oblige(p, "%snoraise.%s" % (tag, o[1]), z3.BoolVal(False), "safe", {"detail": "raise %s" % o[1]})
                    continue
                if o[0] not in ("ret", "next"):
                    raise Unsupported("outcome %r at function end" % (o,))
                fr.returns += 1
                und = {w for w in p.written if not w.startswith("py") and w not in ("$alloc", "$type")} - allowed
                if und:
                    raise SpecError("%s writes heap fields %s not in its modifies clause" % (qual, sorted(und)))
                res = o[1] if o[0] == "ret" else NONE
                d = dict(p.get(frame))
                d["result"] = res
                p.put(frame, d)
                skip = set(con.get("thorough_only", ())) | set(case.get("thorough_only", ())) if tier == "quick" else set()
                for (nm, src) in E.named(list(con.get("ensures", [])) + list(case.get("ensures", []))):
                    if nm in skip:
                        continue          # clause whose proof needs the thorough tier's solver budget (named in the contract)
                    E.prove_spec(p, "%spost.%s" % (tag, nm), src, sctx, "post")
                if con.get("post_hook"):
                    con["post_hook"](E, p, sctx, res, tag)
        if fr.returns == 0 and not con.get("may_not_return"):
            fr.obligations.append(dict(name="%s/vacuity.reaches_return" % qual, kind="vacuity", verdict="failed", time=0,
                                       solver="-", model="no feasible path reaches a return"))
    except Unsupported as ex:
        fr.status = "left-subset"
        fr.reason = str(ex)
    except SpecError as ex:
        fr.status = "spec-error"
        fr.reason = str(ex)
    except RecursionError:
        fr.status = "left-subset"
        fr.reason = "engine recursion limit"
    except z3.Z3Exception as ex:
        fr.status = "spec-error"
        fr.reason = "z3: %s\n%s" % (ex, traceback.format_exc()[-3000:])
    fr.assumptions = sorted(E.used_assumptions)
    # fingerprint of everything that was executed symbolically: the function itself and every inlined callee
    try:
        import hashlib
        E.touched.add(ast.dump(node))
        fr.fingerprint = hashlib.sha256("\n".join(sorted(E.touched)).encode()).hexdigest()[:16]
    except Exception:
        pass
    if fr.status == "left-subset" and E.obligations:
        # The function left the subset on SOME path.  Obligations generated before that are still sound statements about
        # feasible paths of the real code: a REFUTED one (the solver has a counter-model) is reported, and so is one that was
        # discharged on the unchanged tree and is `unknown` now that the source changed (same rule as for functions inside
        # the subset, applied in main); everything else about this function stays unclaimed.
        for ob in E.obligations:
            r = discharge(ob, min(timeout_ms, 5000), slice_first=bool(con.get("slice_first")))
            if r["verdict"] in ("refuted", "unknown"):
                fr.obligations.append(r)      # main keeps an `unknown` only under the passed-before / source-changed rule
    if fr.status == "ok":
        import sys
        trace = os.environ.get("PYVC_TRACE")
        if trace:
            sys.stderr.write("[pyvc] %s: symbolic execution %.1fs, %d obligations, %d feasibility checks\n"
                             % (qual, time.time() - t0, len(E.obligations), E.feas_checks))
        only = os.environ.get("PYVC_ONLY")
        nbad = 0
        for ob in E.obligations:
            if only and only not in ob.name:
                continue
            if nbad >= MAX_FAILED_PER_FUNCTION:
                # a changed function can turn hundreds of obligations `unknown`, each costing every solver stage: after a few
                # failures the rest is not attempted (reported as unknown, never as discharged)
                fr.obligations.append(dict(name=ob.name, kind=ob.kind, verdict="unknown", time=0.0, model=None,
                                           solver="not attempted: %d obligations of this function already failed" % nbad))
                continue
            r = discharge(ob, timeout_ms, slice_first=bool(con.get("slice_first")))
            if r["verdict"] != "discharged":
                nbad += 1
            if trace and (r["time"] > 0.5 or r["verdict"] != "discharged"):
                sys.stderr.write("[pyvc]   %s %s %.2fs\n" % (r["name"], r["verdict"], r["time"]))
            fr.obligations.append(r)
    fr.wall = time.time() - t0
    return fr


MAX_FAILED_PER_FUNCTION = 6


def discharge(ob, timeout_ms=10000, slice_first=False):
    t0 = time.time()
    if ob.info.get("trivial"):
        return dict(name=ob.name, kind=ob.kind, verdict="discharged", time=0.0, solver="simplify", model=None)
    s = z3.Solver()
    s.set("timeout", timeout_ms)
    for c in ob.pc:
        s.add(c)
    s.add(z3.Not(ob.goal))
    if os.environ.get("PYVC_DUMP") and os.environ["PYVC_DUMP"] in ob.name:
        import pickle
        open("/tmp/pyvc_dump_%d.smt2" % len(ob.pc), "w").write(s.to_smt2())
        open("/tmp/pyvc_dump_goal_%d.txt" % len(ob.pc), "w").write(str(ob.goal))
    solver = "z3"
    r = z3.unknown
    if slice_first and len(ob.pc) > 300:
        # very large context of a contract that asks for it (`slice_first`: the calendar enumeration loops): try the
        # symbol-closure slice FIRST (see stage 1c)
        kept = slice_context(ob.pc, ob.goal)
        if len(kept) < len(ob.pc):
            s0 = z3.Solver()
            s0.set("timeout", min(timeout_ms, 5000))
            for c in kept:
                s0.add(c)
            s0.add(z3.Not(ob.goal))
            if s0.check() == z3.unsat:
                r = z3.unsat
                s = s0
                solver = "z3(context slice: %d of %d hypotheses)" % (len(kept), len(ob.pc))
    if r == z3.unknown:
        s.set("timeout", min(timeout_ms, 4000))
        r = s.check()
    if r == z3.unknown:
        # stage 1b: relevance filter.  Quantified hypotheses that share no heap array / function symbol with the goal
        # (two rounds of closure) are dropped - dropping hypotheses only weakens the premises, so `unsat` stays sound.
        # On the large heap functions the full context drowns z3 in instantiations (170 000 in 15 s measured) although
        # the proof needs a handful.
        kept = relevant(ob.pc, ob.goal, rounds=int(os.environ.get("PYVC_RELEVANCE_ROUNDS", "2")))
        if len(kept) < len(ob.pc):
            s1 = z3.Solver()
            s1.set("timeout", min(timeout_ms, 6000))
            s1.set("qi.eager_threshold", 100.0)
            for c in kept:
                s1.add(c)
            s1.add(z3.Not(ob.goal))
            if s1.check() == z3.unsat:
                r = z3.unsat
                s = s1
                solver = "z3(relevance-filtered hypotheses)"
    if r == z3.unknown and len(ob.pc) > 150 and not slice_first:
        # stage 1c: symbol-closure slice of a very large context (the datetime theory instantiates ~100 ground calendar
        # facts per instant).  Hub symbols (occurring in more than 1/8 of the hypotheses) do not propagate relevance.
        kept = slice_context(ob.pc, ob.goal)
        if len(kept) < len(ob.pc):
            s1 = z3.Solver()
            s1.set("timeout", min(timeout_ms, 6000))
            for c in kept:
                s1.add(c)
            s1.add(z3.Not(ob.goal))
            if s1.check() == z3.unsat:
                r = z3.unsat
                s = s1
                solver = "z3(context slice: %d of %d hypotheses)" % (len(kept), len(ob.pc))
    if r == z3.unknown:
        # second configuration: deeper eager quantifier instantiation (chains of list/heap axioms); measured: queries
        # that time out with the default threshold are decided in seconds with it
        s2 = z3.Solver()
        s2.set("timeout", timeout_ms)
        s2.set("qi.eager_threshold", 100.0)
        for c in ob.pc:
            s2.add(c)
        s2.add(z3.Not(ob.goal))
        r = s2.check()
        if r != z3.unknown:
            s = s2
            solver = "z3(qi.eager_threshold=100)"
    if r == z3.unknown and not os.environ.get("PYVC_NO_SECOND_CHANCE"):
        # last stage: the same query once more with three times the budget.  A proof that takes 7 s on an idle machine can
        # run out of a 10 s stage when all cores are busy (the C11 check runs 145 functions at once); a verdict must not
        # flip for that reason.
        s3 = z3.Solver()
        s3.set("timeout", 3 * timeout_ms)
        s3.set("qi.eager_threshold", 100.0)
        for c in ob.pc:
            s3.add(c)
        s3.add(z3.Not(ob.goal))
        r = s3.check()
        if r != z3.unknown:
            s = s3
            solver = "z3(qi.eager_threshold=100, 3x budget)"
    verdict = "discharged" if r == z3.unsat else ("refuted" if r == z3.sat else "unknown")
    model = None
    if r == z3.sat:
        m = s.model()
        model = {str(d): str(m[d]) for d in m.decls() if not str(d).startswith(("H_", "k!", "pow10", "elem!"))}
        model = dict(list(sorted(model.items()))[:60])
    elif r == z3.unknown:
        v2 = try_other_solvers(s, timeout_ms)
        if v2 is not None:
            verdict, solver = v2
    out = dict(name=ob.name, kind=ob.kind, verdict=verdict, time=round(time.time() - t0, 3), solver=solver, model=model)
    if ob.info.get("detail"):
        out["detail"] = ob.info["detail"]
    return out


_SYM_CACHE = {}


def symbols_of(e):
    """names of the uninterpreted constants / functions occurring in e (cached per AST id)"""
    k = e.get_id()
    if k in _SYM_CACHE:
        return _SYM_CACHE[k]
    out = set()
    seen = set()
    stack = [e]
    while stack:
        t = stack.pop()
        i = t.get_id()
        if i in seen:
            continue
        seen.add(i)
        if z3.is_quantifier(t):
            stack.append(t.body())
            continue
        if z3.is_app(t):
            d = t.decl()
            if d.kind() == z3.Z3_OP_UNINTERPRETED:
                nm = d.name()
                if not nm.startswith(("q_", "sk_", "j!", "k!", "i!", "o!", "c!", "v!")):
                    out.add(nm)
            stack.extend(t.children())
    _SYM_CACHE[k] = out
    return out


_GENERIC = ("H_$alloc", "H_$type", "null")


def relevant(pc, goal, rounds=2):
    """ground hypotheses are all kept; a quantified hypothesis is kept when it shares a non-generic symbol with the goal
    or with a hypothesis kept in an earlier round"""
    def core(syms):
        return {x for x in syms if not x.startswith(_GENERIC)}
    want = core(symbols_of(goal))
    quant = [(c, core(symbols_of(c))) for c in pc if z3.is_quantifier(c) or _has_quantifier(c)]
    ground = [c for c in pc if not (z3.is_quantifier(c) or _has_quantifier(c))]
    for c in ground:
        if core(symbols_of(c)) & want:
            pass
    kept_ids = set()
    for _ in range(rounds):
        new = set(want)
        for c, sy in quant:
            if c.get_id() not in kept_ids and sy & want:
                kept_ids.add(c.get_id())
                new |= sy
        # ground equalities connect symbols too (x == y): follow them
        for c in ground:
            sy = core(symbols_of(c))
            if sy & want and len(sy) <= 6:
                new |= sy
        want = new
    return ground + [c for c, _ in quant if c.get_id() in kept_ids]


def slice_context(pc, goal):
    """hypotheses connected to the goal through non-hub symbols (fixpoint).  Dropping hypotheses is always sound."""
    syms = [(c, {x for x in symbols_of(c) if not x.startswith(_GENERIC)}) for c in pc]
    freq = {}
    for _, sy in syms:
        for x in sy:
            freq[x] = freq.get(x, 0) + 1
    hub = {x for x, n in freq.items() if n > max(20, len(pc) // 8)}
    want = {x for x in symbols_of(goal) if not x.startswith(_GENERIC)} - hub
    kept = set()
    changed = True
    while changed:
        changed = False
        for i, (c, sy) in enumerate(syms):
            if i not in kept and (sy - hub) & want:
                kept.add(i)
                new = (sy - hub) - want
                if new:
                    want |= new
                changed = True
    return [c for i, (c, _) in enumerate(syms) if i in kept]


_HQ = {}


def _has_quantifier(e):
    k = e.get_id()
    if k in _HQ:
        return _HQ[k]
    stack, seen, res = [e], set(), False
    while stack:
        t = stack.pop()
        if t.get_id() in seen:
            continue
        seen.add(t.get_id())
        if z3.is_quantifier(t):
            res = True
            break
        stack.extend(t.children())
    _HQ[k] = res
    return res


def try_other_solvers(s, timeout_ms):
    """z3 said unknown: hand the same query (SMT-LIB2) to cvc5 and the system z3 4.8."""
    import subprocess
    import tempfile
    import os
    txt = s.to_smt2()
    with tempfile.NamedTemporaryFile("w", suffix=".smt2", delete=False) as f:
        f.write(txt)
        fn = f.name
    try:
        for name, cmd in (("cvc5", ["/usr/bin/cvc5", "--tlimit=%d" % timeout_ms, fn]),
                          ("z3-4.8", ["/usr/bin/z3", "-T:%d" % max(1, timeout_ms // 1000), fn])):
            try:
                r = subprocess.run(cmd, capture_output=True, text=True, timeout=timeout_ms / 1000.0 + 5)
            except Exception:
                continue
            out = r.stdout.strip().splitlines()[:1]
            if out and out[0] == "unsat":
                return ("discharged", name)
            if out and out[0] == "sat":
                return ("refuted", name)
    finally:
        os.unlink(fn)
    return None
