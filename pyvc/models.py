"""Library models (assumption A-LIB) and spec functions of the pyvc engine.

Every model is exercised against the running CPython by selftest/conformance.py.
A handler has the signature h(engine, P, ctx, *values, **kw) -> list of (path, value).
"""
import ast
from fractions import Fraction

import z3

from .values import (Num, Bool, NoneT, NONE, Inf, Str, SeqStr, Tup, Handle, Ref, SList, Func, Bound, ClassV, Builtin,
                     ModuleV, Opaque, I, R, B, RefS, NULL, IntS, RealS, BoolS, Unsupported, SpecError, str_from_chars)

HALF = z3.RealVal(1) / 2


def floor_t(x):
    return z3.ToInt(x)


def ceil_t(x):
    return -z3.ToInt(-x)


def round_t(x):
    """Python round(x) (one argument): nearest integer, ties to even."""
    fl = z3.ToInt(x)
    frac = x - z3.ToReal(fl)
    return z3.If(frac < HALF, fl, z3.If(frac > HALF, fl + 1, z3.If(fl % 2 == 0, fl, fl + 1)))


def trunc_t(x):
    return z3.If(x >= 0, z3.ToInt(x), -z3.ToInt(-x))


def install(E):
    M = E.models
    names = set()

    def reg(name, builtin=False):
        def deco(fn):
            M[name] = fn
            if builtin:
                names.add(name)
            return fn
        return deco

    # ------------------------------------------------------------------ numbers
    @reg("len", True)
    def _len(E, P, ctx, x):
        if isinstance(x, Handle) and x.kind in ("list", "dict"):
            return [(P, I(len(P.get(x))))]
        if isinstance(x, Tup):
            return [(P, I(len(x.items)))]
        if isinstance(x, SList):
            return [(P, Num(E.l_len(P, x), True))]
        if isinstance(x, Str):
            c = x.chars()
            if c is None:
                raise Unsupported("len of abstract string")
            return [(P, I(len(c)))]
        if isinstance(x, SeqStr):
            return [(P, Num(z3.Length(x.t), True))]
        if isinstance(x, Opaque) and x.tag == "udfields":
            return [(P, E.uni_len(E, P, x))]
        raise Unsupported("len(%r)" % (x,))

    @reg("abs", True)
    def _abs(E, P, ctx, x):
        x = E.num(x)
        E.need_num(x)
        return [(P, Num(z3.If(x.t >= 0, x.t, -x.t), x.isint))]

    def minmax(E, P, ctx, args, ismin, kw):
        if kw:
            raise Unsupported("min/max with key")
        if len(args) == 1:
            items = E.iter_items(P, args[0])
            if items is None:
                raise Unsupported("min/max of symbolic-length iterable")
            if len(items) == 0:
                return E.fail(P, "safe.minmax_empty#%d" % E.site(), "min/max of empty sequence")
            args = list(items)
        vals = [E.num(a) for a in args]
        for v in vals:
            if isinstance(v, Opaque):
                return M["opaque.minmax"](E, P, ctx, vals, ismin)
            E.need_num(v)
        allint = all(v.isint for v in vals)
        cur = vals[0]
        for v in vals[1:]:
            a, b = (cur.t, v.t) if allint else (cur.real(), v.real())
            # Python returns the FIRST extremal argument; values coincide, only int/float-ness could differ
            cond = (b < a) if ismin else (b > a)
            cur = Num(z3.If(cond, b, a), allint)
        return [(P, cur)]

    @reg("min", True)
    def _min(E, P, ctx, *a, **kw):
        return minmax(E, P, ctx, list(a), True, kw)

    @reg("max", True)
    def _max(E, P, ctx, *a, **kw):
        return minmax(E, P, ctx, list(a), False, kw)

    @reg("round", True)
    def _round(E, P, ctx, x, nd=None):
        if nd is not None:
            raise Unsupported("round with ndigits")
        x = E.num(x)
        E.need_num(x)
        E.assume_used("A-ROUND")
        if x.isint:
            return [(P, x)]
        # A-ROUND: round(x) is kept as an UNINTERPRETED function RND: Real -> Int of which only what the properties use is
        # stated: it is within 1/2 of x, and monotone (instantiated pairwise with the other applications on this path).
        # Both are true of Python's round (ties to even); the exact tie rule is not used by any contract.  Keeping it
        # uninterpreted lets equal arguments give equal results by congruence (the exact If/ToInt expansion of nonlinear
        # position terms made such goals undecidable in practice).
        f = E.uf.get("RND")
        if f is None:
            f = E.uf["RND"] = z3.Function("RND", RealS, IntS)
        r = f(x.t)
        if getattr(E, "quant_depth", 0):
            # under a binder: the within-1/2 fact as ONE quantified axiom with trigger RND(x) (so that it reaches the
            # skolemised instances of a contract quantifier); no pairwise instances at a bound variable
            if not P.ghost.get("rnd_axiom"):
                P.ghost["rnd_axiom"] = True
                xv = z3.Const("x!rnd", RealS)
                P.assume(z3.ForAll([xv], z3.And(2 * (z3.ToReal(f(xv)) - xv) <= 1, 2 * (z3.ToReal(f(xv)) - xv) >= -1), patterns=[f(xv)]))
            return [(P, Num(r, True))]
        P.assume(z3.And(2 * (z3.ToReal(r) - x.t) <= 1, 2 * (z3.ToReal(r) - x.t) >= -1))
        seen = P.ghost.get("rnd_terms", ())
        for y in seen[-6:]:
            P.assume(z3.Implies(y <= x.t, f(y) <= r))
            P.assume(z3.Implies(x.t <= y, r <= f(y)))
        if not any(y.get_id() == x.t.get_id() for y in seen):
            P.ghost["rnd_terms"] = seen + (x.t,)
        return [(P, Num(r, True))]

    @reg("int", True)
    def _int(E, P, ctx, x, base=None):
        if isinstance(x, Opaque) and x.tag == "udfield" and base is not None and E.cint(base) == 16:
            return E.uni_int16(E, P, ctx, x)
        if isinstance(x, Str):
            if base is None or E.cint(base) != 16:
                raise Unsupported("int(str) only for base 16")
            cs = x.chars()
            if cs is None:
                raise Unsupported("int of abstract string")
            if len(cs) == 0:
                return E.fail(P, "safe.int_empty#%d" % E.site(), "int('', 16)")
            acc = z3.IntVal(0)
            for c in cs:
                t = z3.IntVal(ord(c)) if isinstance(c, str) else c
                hv = hexval(t)
                if not ctx.spec:
                    E.oblige(P, "safe.hexdigit#%d" % E.site(), hv >= 0, "safe")
                acc = acc * 16 + hv
            return [(P, Num(acc, True))]
        x = E.num(x)
        E.need_num(x)
        if x.isint:
            return [(P, x)]
        return [(P, Num(trunc_t(x.t), True))]

    @reg("float", True)
    def _float(E, P, ctx, x):
        x = E.num(x)
        E.need_num(x)
        return [(P, Num(x.real(), False))]

    @reg("bool", True)
    def _bool(E, P, ctx, x):
        return [(P, Bool(E.truth(x, P)))]

    def quotient_facts(P, t, n, isceil):
        """n = floor(a/b) (or ceil): add the linear-looking consequences n*b <= a < (n+1)*b (b > 0; reversed for b < 0).
        They are theorems of real arithmetic (multiply n <= a/b < n+1 by b); stating them keeps the later
        obligations out of z3's nonlinear engine, which was measured slow/unstable on them."""
        if not (z3.is_app(t) and t.decl().kind() == z3.Z3_OP_DIV):
            return
        a, b = t.arg(0), t.arg(1)
        if z3.is_rational_value(z3.simplify(b)):
            return
        nr = z3.ToReal(n)
        if not isceil:
            P.assume(z3.Implies(b > 0, z3.And(nr * b <= a, a < (nr + 1) * b)))
            P.assume(z3.Implies(b < 0, z3.And(nr * b >= a, a > (nr + 1) * b)))
        else:
            P.assume(z3.Implies(b > 0, z3.And(nr * b >= a, a > (nr - 1) * b)))
            P.assume(z3.Implies(b < 0, z3.And(nr * b <= a, a < (nr - 1) * b)))

    @reg("math.floor")
    def _floor(E, P, ctx, x):
        x = E.num(x)
        E.need_num(x)
        if x.isint:
            return [(P, x)]
        n = floor_t(x.t)
        quotient_facts(P, x.t, n, False)
        return [(P, Num(n, True))]

    @reg("math.ceil")
    def _ceil(E, P, ctx, x):
        x = E.num(x)
        E.need_num(x)
        if x.isint:
            return [(P, x)]
        n = ceil_t(x.t)
        quotient_facts(P, x.t, n, True)
        return [(P, Num(n, True))]

    E.ext_values["math.inf"] = Inf(1)
    E.ext_values["sys.maxsize"] = I(2 ** 63 - 1)
    E.ext_values["math.floor"] = Builtin("math.floor")
    E.ext_values["math.ceil"] = Builtin("math.ceil")

    @reg("math.log")
    def _log(E, P, ctx, x, base=None):
        """A-LOG: log is an uninterpreted strictly increasing function; only floor(log(x)/log(10)) is given
        meaning (through the `log10floor` pattern recognised in ev of the enclosing call)."""
        x = E.num(x)
        E.need_num(x)
        if not ctx.spec:
            E.oblige(P, "safe.log_domain#%d" % E.site(), x.real() > 0, "safe")
        return [(P, Opaque("log", (x,)))]

    @reg("opaque.binop")
    def _obin(E, P, ctx, op, a, b):
        # log(x)/log(10)  ->  log10(x) term ; log10(x) + c
        if isinstance(op, ast.Div) and isinstance(a, Opaque) and a.tag == "log" and isinstance(b, Opaque) and b.tag == "log":
            bv = z3.simplify(b.payload[0].real())
            if z3.is_rational_value(bv) and bv.numerator_as_long() == 10 and bv.denominator_as_long() == 1:
                return [(P, Opaque("log10", (a.payload[0], Fraction(0))))]
        if isinstance(op, ast.Add) and isinstance(a, Opaque) and a.tag == "log10" and isinstance(b, Num):
            bv = z3.simplify(b.real())
            if z3.is_rational_value(bv):
                return [(P, Opaque("log10", (a.payload[0], a.payload[1] + Fraction(bv.numerator_as_long(),
                                                                                 bv.denominator_as_long()))))]
        h = M.get("dt.binop")
        if h is not None:
            r = h(E, P, ctx, op, a, b)
            if r is not None:
                return r
        raise Unsupported("binop on %r, %r" % (a, b))

    @reg("opaque.compare")
    def _ocmp(E, P, ctx, op, a, b):
        h = M.get("dt.compare")
        if h is not None:
            r = h(E, P, ctx, op, a, b)
            if r is not None:
                return r
        raise Unsupported("compare on %r, %r" % (a, b))

    @reg("opaque.equal")
    def _oeq(E, P, a, b):
        h = M.get("dt.equal")
        if h is not None:
            r = h(E, P, a, b)
            if r is not None:
                return r
        raise Unsupported("equality on %r, %r" % (a, b))

    def pow10(E):
        if "pow10" not in E.uf:
            E.uf["pow10"] = z3.Function("pow10", IntS, RealS)
        return E.uf["pow10"]

    def pow10_facts(E, P, k):
        """A-LOG: positivity and the step law instantiated around k; exact values for small numerals."""
        f = pow10(E)
        P.assume(f(k) > 0)
        P.assume(f(k + 1) == 10 * f(k))
        P.assume(f(k) == 10 * f(k - 1))
        P.assume(f(z3.IntVal(0)) == 1)
        P.assume(z3.Implies(k >= 0, f(k) >= 1))
        P.assume(z3.Implies(k < 0, f(k) <= z3.RealVal(1) / 10))
        P.assume(z3.Implies(k >= 1, f(k) >= 10))
        E.assume_used("A-LOG")

    E.pow10 = pow10
    E.pow10_facts = pow10_facts

    def floor_log10(E, P, x, shift):
        """k = floor(log10(x) + shift), as an integer with the defining inequalities (shift rational in [0,1))."""
        k = E.fresh("klog", IntS)
        f = pow10(E)
        pow10_facts(E, P, k)
        if shift == 0:
            P.assume(f(k) <= x.real())
            P.assume(x.real() < f(k + 1))
        else:
            # 10^(k - shift) <= x < 10^(k + 1 - shift); with c = 10^shift an uninterpreted constant in (1, 10)
            c = E.uf.setdefault("tenpow_%s" % shift, z3.Real("tenpow_%s_%s" % (shift.numerator, shift.denominator)))
            lo, hi = bounds_tenpow(shift)
            P.assume(z3.And(c > lo, c < hi))
            P.assume(f(k) <= x.real() * c)
            P.assume(x.real() * c < f(k + 1))
        E.assume_used("A-LOG")
        return k

    def bounds_tenpow(shift):
        import math
        v = 10 ** float(shift)
        lo = Fraction(int(v * 1e6) - 1, 10 ** 6)
        hi = Fraction(int(v * 1e6) + 2, 10 ** 6)
        return z3.RealVal(str(lo.numerator)) / z3.RealVal(str(lo.denominator)), \
            z3.RealVal(str(hi.numerator)) / z3.RealVal(str(hi.denominator))

    _floor_plain = M["math.floor"]

    @reg("math.floor")
    def _floor2(E, P, ctx, x):
        if isinstance(x, Opaque) and x.tag == "log10":
            k = floor_log10(E, P, x.payload[0], x.payload[1])
            return [(P, Num(k, True))]
        return _floor_plain(E, P, ctx, x)

    @reg("pow", True)
    def _pow(E, P, ctx, a, b, mod=None):
        a, b = E.num(a), E.num(b)
        E.need_num(a)
        E.need_num(b)
        av = z3.simplify(a.t)
        bc = E.cint(b)
        if bc is not None and 0 <= bc <= 8:
            t = z3.IntVal(1) if a.isint else z3.RealVal(1)
            for _ in range(bc):
                t = t * a.t
            return [(P, Num(t, a.isint))]
        if z3.is_int_value(av) and av.as_long() == 10 and b.isint:
            f = pow10(E)
            pow10_facts(E, P, b.t)
            # dynamic type: int for k >= 0, float for k < 0 (matters to range()): tracked by a ghost fact
            v = Num(f(b.t), False)
            P.ghost[("pow10int", str(f(b.t)))] = b.t
            return [(P, v)]
        raise Unsupported("pow(%r, %r)" % (a, b))

    # ------------------------------------------------------------------ containers
    @reg("range", True)
    def _range(E, P, ctx, a, b=None, c=None):
        for v in (a, b, c):
            if v is not None and not (isinstance(v, Num) and v.isint):
                if not ctx.spec:
                    return E.fail(P, "safe.range_int#%d" % E.site(), "range() argument is not an int")
        if b is None:
            a, b = I(0), a
        if c is None:
            c = I(1)
        return [(P, Opaque("range", (a, b, c)))]

    @reg("enumerate", True)
    def _enumerate(E, P, ctx, it):
        items = E.iter_items(P, it)
        if items is not None:
            return [(P, Opaque("items", tuple(Tup([I(k), x]) for k, x in enumerate(items))))]
        return [(P, Opaque("enumerate", (it,)))]

    @reg("divmod", True)
    def _divmod(E, P, ctx, a, b):
        import ast as _ast
        q = E.binop(_ast.FloorDiv(), a, b, P, ctx)
        r = E.binop(_ast.Mod(), a, b, P, ctx)
        if len(q) != 1 or len(r) != 1:
            raise Unsupported("divmod forks")
        return [(P, Tup([q[0][1], r[0][1]]))]

    @reg("zip", True)
    def _zip(E, P, ctx, *its):
        cols = [E.iter_items(P, it) for it in its]
        if any(c is None for c in cols):
            raise Unsupported("zip of symbolic-length iterables")
        return [(P, Opaque("items", tuple(Tup(row) for row in zip(*cols))))]

    @reg("reversed", True)
    def _reversed(E, P, ctx, it):
        items = E.iter_items(P, it)
        if items is None:
            raise Unsupported("reversed of symbolic-length iterable")
        return [(P, Opaque("items", tuple(reversed(items))))]

    @reg("list", True)
    def _list(E, P, ctx, it=None):
        if it is None:
            return [(P, P.new("list", ()))]
        items = E.iter_items(P, it)
        if items is None:
            raise Unsupported("list() of symbolic-length iterable")
        return [(P, P.new("list", tuple(items)))]

    @reg("tuple", True)
    def _tuple(E, P, ctx, it=None):
        if it is None:
            return [(P, Tup(()))]
        if isinstance(it, SList):
            return [(P, it)]       # tuple(seq) of a symbolic-length sequence that is never mutated afterwards: the same sequence
        items = E.iter_items(P, it)
        if items is None:
            raise Unsupported("tuple() of symbolic-length iterable")
        return [(P, Tup(items))]

    @reg("dict", True)
    def _dict(E, P, ctx, it=None):
        if it is None:
            return [(P, P.new("dict", {}))]
        if isinstance(it, Handle) and it.kind == "dict":
            return [(P, P.new("dict", dict(P.get(it))))]
        raise Unsupported("dict(%r)" % (it,))

    @reg("map", True)
    def _map(E, P, ctx, f, it):
        items = E.iter_items(P, it)
        if items is None:
            raise Unsupported("map over symbolic-length iterable")
        res = [(P, [])]
        for x in items:
            nxt = []
            for (p, acc) in res:
                for (q, v) in E.call(p, ctx, f, [x], {}):
                    nxt.append((q, acc + [v]))
            res = nxt
        return [(p, Opaque("items", tuple(acc))) for (p, acc) in res]

    @reg("sum", True)
    def _sum(E, P, ctx, it):
        items = E.iter_items(P, it)
        if items is None:
            raise Unsupported("sum of symbolic-length iterable")
        cur = I(0)
        for x in items:
            cur = E.binop(ast.Add(), cur, x, P, ctx)[0][1]
        return [(P, cur)]

    @reg("any", True)
    def _any(E, P, ctx, it):
        items = E.iter_items(P, it)
        if items is None:
            raise Unsupported("any() of symbolic-length iterable")
        ts = [E.truth(x, P) for x in items]
        return [(P, Bool(z3.Or(*ts) if ts else z3.BoolVal(False)))]

    @reg("all", True)
    def _all(E, P, ctx, it):
        items = E.iter_items(P, it)
        if items is None:
            raise Unsupported("all() of symbolic-length iterable")
        ts = [E.truth(x, P) for x in items]
        return [(P, Bool(z3.And(*ts) if ts else z3.BoolVal(True)))]

    @reg("isinstance", True)
    def _isinstance(E, P, ctx, x, c):
        def one(c):
            if isinstance(c, Builtin):
                n = c.name
                if n == "dict":
                    return isinstance(x, Handle) and x.kind == "dict"
                if n == "list":
                    return (isinstance(x, Handle) and x.kind == "list") or isinstance(x, SList)
                if n == "int":
                    return isinstance(x, Num) and x.isint
                if n == "float":
                    return isinstance(x, Num) and not x.isint
                if n == "str":
                    return isinstance(x, (Str, SeqStr))
                h = M.get("dt.isinstance")
                if h is not None:
                    r = h(E, x, n)
                    if r is not None:
                        return r
            if isinstance(c, ClassV):
                if isinstance(x, Handle) and x.kind == "obj":
                    return x.cls[1] == c.name
                if isinstance(x, Ref):
                    return x.cls == c.name
                return False
            raise Unsupported("isinstance(_, %r)" % (c,))
        if isinstance(c, Tup):
            return [(P, B(any(one(k) for k in c.items)))]
        return [(P, B(one(c)))]

    @reg("callable", True)
    def _callable(E, P, ctx, x):
        return [(P, B(isinstance(x, (Func, Bound, Builtin, ClassV))))]

    @reg("str", True)
    def _str(E, P, ctx, x):
        if isinstance(x, (Str, SeqStr)):
            return [(P, x)]
        if isinstance(x, Num):
            c = E.cint(x)
            if c is not None:
                return [(P, Str([str(c)]))]
            return [(P, Str([("fmt", "str", x)]))]
        if isinstance(x, Handle) and x.kind == "obj" and x.cls:
            # default object repr ("<module.Class object at 0x..>") when the class defines neither __str__ nor __repr__ (A-LIB)
            for m in ("__str__", "__repr__"):
                try:
                    E.repo.method(x.cls[0], x.cls[1], m)
                    raise Unsupported("str() of an object with its own %s" % m)
                except KeyError:
                    pass
            return [(P, Str([("sym", "objrepr!%d" % x.id, ())]))]
        raise Unsupported("str(%r)" % (x,))

    @reg("method.isnumeric")
    def _isnumeric(E, P, ctx, s):
        if isinstance(s, Str):
            c = s.concrete()
            if c is not None:
                return [(P, B(c.isnumeric()))]
            if len(s.parts) == 1 and isinstance(s.parts[0], tuple):
                p0 = s.parts[0]
                if p0[0] == "sym" and str(p0[1]).startswith("objrepr!"):
                    return [(P, B(False))]                 # "<... object at 0x...>" is not numeric
                if p0[0] == "fmt" and p0[1] == "str" and isinstance(p0[2], Num) and p0[2].isint:
                    return [(P, Bool(p0[2].t >= 0))]       # str(int) is all digits iff the int is not negative
        raise Unsupported("isnumeric on %r" % (s,))

    @reg("chr", True)
    def _chr(E, P, ctx, x):
        E.need_num(x)
        c = E.cint(x)
        if c is not None:
            return [(P, Str([chr(c)]))]
        if not ctx.spec:
            E.oblige(P, "safe.chr_range#%d" % E.site(), z3.And(x.t >= 0, x.t < 0x110000), "safe")
        return [(P, Str([("chr", x.t)]))]

    @reg("ord", True)
    def _ord(E, P, ctx, s):
        if isinstance(s, Str):
            c = s.chars()
            if c is not None and len(c) == 1:
                return [(P, Num(z3.IntVal(ord(c[0])) if isinstance(c[0], str) else c[0], True))]
        raise Unsupported("ord(%r)" % (s,))

    def hexval(t):
        """value of a hex digit code point, -1 if it is none"""
        return z3.If(z3.And(t >= 48, t <= 57), t - 48,
                     z3.If(z3.And(t >= 97, t <= 102), t - 87,
                           z3.If(z3.And(t >= 65, t <= 70), t - 55, z3.IntVal(-1))))

    E.hexval = hexval

    # ---- python-side list methods
    @reg("method.append")
    def _append(E, P, ctx, lst, x):
        E.guard_global_write(lst, P)
        if isinstance(lst, Handle) and lst.kind == "list":
            P.put(lst, P.get(lst) + (x,))
            P.written.add("pylist")
            return [(P, NONE)]
        if isinstance(lst, SList):
            n = E.l_len(P, lst)
            E.l_store(P, lst, n, E.unwrap(x, lst.ekind))
            E.l_set_len(P, lst, n + 1)
            # ghost: objects of tracked classes remember the index (and the list) of their latest append.
            # Pure instrumentation: no program value depends on it; it replaces an existential in membership invariants.
            if lst.ekind.startswith("ref:") and lst.ekind[4:] in E.ghost_track and isinstance(x, Ref):
                cls = lst.ekind[4:]
                for key, sort, val in (("%s.$lastpos" % cls, IntS, n), ("%s.$lastlist" % cls, RefS, lst.t)):
                    arr = E.heap_array(P, key, sort)
                    P.heap[key] = z3.Store(arr, x.t, val)
            # ghost, per list ROLE: TYPES[cls]["$ghost_rolepos"] = {role: field} makes objects of cls remember the index of
            # their latest append to a list of that role (Variable.$vpos: position in the `vars` list of its block)
            if lst.ekind.startswith("ref:") and "@" in lst.ekind and isinstance(x, Ref):
                cls, role = lst.ekind[4:].split("@", 1)
                fld = (E.types.get(cls, {}).get("$ghost_rolepos") or {}).get(role)
                if fld:
                    key = "%s.%s" % (cls, fld)
                    P.heap[key] = z3.Store(E.heap_array(P, key, IntS), x.t, n)
                    P.written.add(key)
            if lst.ekind == "dt":
                # ghost: per list of instants, the index at which an instant was appended last (`pos_in(lst, t)` in contract
                # text) - replaces the existential in "every qualifying boundary IS listed".  A fresh row with point-wise
                # axioms, like l_store, so that E-matching reaches the old row.
                key = "list.$pos.dt"
                G = E.heap_array(P, key, z3.ArraySort(IntS, IntS))
                old = E.sel(G, lst.t)
                new = E.fresh("posrow", old.sort())
                u = E.unwrap(x, "dt")
                j = z3.Const("j!pos", IntS)
                P.assume(z3.Select(new, u) == n)
                P.assume(z3.ForAll([j], z3.Implies(j != u, z3.Select(new, j) == z3.Select(old, j)), patterns=[z3.Select(new, j)]))
                P.heap[key] = z3.Store(G, lst.t, new)
                P.written.add(key)          # part of the frame: a contract that appends instants lists it in `modifies`
            return [(P, NONE)]
        raise Unsupported("append on %r" % (lst,))

    @reg("method.extend")
    def _extend(E, P, ctx, lst, it):
        items = E.iter_items(P, it)
        if isinstance(lst, Handle) and lst.kind == "list" and items is not None:
            P.put(lst, P.get(lst) + tuple(items))
            P.written.add("pylist")
            return [(P, NONE)]
        raise Unsupported("extend")

    @reg("method.pop")
    def _pop(E, P, ctx, lst, k=None):
        E.guard_global_write(lst, P)
        if isinstance(lst, Handle) and lst.kind == "list":
            xs = list(P.get(lst))
            n = -1 if k is None else E.cint(k)
            if n is None:
                raise Unsupported("pop(symbolic)")
            if not xs or not (-len(xs) <= n < len(xs)):
                return E.fail(P, "safe.pop#%d" % E.site(), "pop from empty list / out of range")
            v = xs.pop(n)
            P.put(lst, tuple(xs))
            P.written.add("pylist")
            return [(P, v)]
        if isinstance(lst, SList):
            ln = E.l_len(P, lst)
            n = None if k is None else E.cint(k)
            if k is None or n == -1:
                if not ctx.spec:
                    E.oblige(P, "safe.pop#%d" % E.site(), ln > 0, "safe")
                v = E.l_get(P, lst, ln - 1)
                E.l_set_len(P, lst, ln - 1)
                return [(P, v)]
            if n == 0:
                if not ctx.spec:
                    E.oblige(P, "safe.pop#%d" % E.site(), ln > 0, "safe")
                old = E.l_elems(P, lst)
                v = E.l_get(P, lst, z3.IntVal(0))
                arr = E.fresh("pop0", old.sort())
                j = z3.Const("j!pop", IntS)
                P.assume(z3.ForAll([j], z3.Implies(z3.And(0 <= j, j < ln - 1), z3.Select(arr, j) == z3.Select(old, j + 1)),
                                   patterns=[z3.Select(arr, j)]))
                E.l_set_elems(P, lst, arr)
                E.l_set_len(P, lst, ln - 1)
                return [(P, v)]
        raise Unsupported("pop on %r" % (lst,))

    @reg("method.sort")
    def _sort(E, P, ctx, lst, key=None, reverse=None):
        """A-LIB list.sort(key=f[, reverse=True]) on an SMT list: in place, a stable permutation ordered by the key."""
        if not isinstance(lst, SList) or key is None:
            raise Unsupported("sort on %r" % (lst,))
        rev = False
        if reverse is not None:
            t = z3.simplify(E.truth(reverse, P))
            if not (z3.is_true(t) or z3.is_false(t)):
                raise Unsupported("symbolic reverse")
            rev = z3.is_true(t)
        n = E.l_len(P, lst)
        old = E.l_elems(P, lst)
        new = E.fresh("sorted_el", old.sort())
        from .values import fresh_id
        pi = z3.Function("pi!%d" % fresh_id(), IntS, IntS)
        inv = z3.Function("pinv!%d" % fresh_id(), IntS, IntS)
        j = z3.Const("j!srt", IntS)
        k = z3.Const("k!srt", IntS)

        def key_at(term):
            res = E.call(P, ctx.asspec(), key, [E.wrap(term, lst.ekind)], {})
            if len(res) != 1:
                raise Unsupported("sort key forks")
            v = E.num(res[0][1])
            E.need_num(v)
            return v.real()

        nj, nk = z3.Select(new, j), z3.Select(new, k)
        P.assume(z3.ForAll([j], z3.Implies(z3.And(0 <= j, j < n), z3.And(0 <= pi(j), pi(j) < n, nj == z3.Select(old, pi(j)), inv(pi(j)) == j)),
                           patterns=[nj]))
        oj = z3.Select(old, j)
        P.assume(z3.ForAll([j], z3.Implies(z3.And(0 <= j, j < n), z3.And(0 <= inv(j), inv(j) < n, z3.Select(new, inv(j)) == oj, pi(inv(j)) == j)),
                           patterns=[oj]))
        kj, kk = key_at(nj), key_at(nk)
        ordered = (kj >= kk) if rev else (kj <= kk)
        P.assume(z3.ForAll([j, k], z3.Implies(z3.And(0 <= j, j < k, k < n), z3.And(ordered, z3.Implies(kj == kk, pi(j) < pi(k)))),
                           patterns=[z3.MultiPattern(nj, nk)]), tag="sorted")
        E.l_set_elems(P, lst, new)
        E.assume_used("A-LIB:list.sort(key) is a stable permutation ordered by the key")
        return [(P, NONE)]

    @reg("sorted", True)
    def _sorted(E, P, ctx, it, key=None, reverse=None):
        """A-LIB sorted(list, key=f): a NEW list, stable permutation of the argument ordered by the key"""
        if not isinstance(it, SList) or key is None:
            items = E.iter_items(P, it)
            raise Unsupported("sorted() of %r" % (it,))
        new = E.new_slist(P, it.ekind, "sorted")
        E.l_set_len(P, new, E.l_len(P, it))
        E.l_set_elems(P, new, E.l_elems(P, it))
        kw = {"key": key}
        if reverse is not None:
            kw["reverse"] = reverse
        M["method.sort"](E, P, ctx, new, **kw)
        return [(P, new)]

    @reg("method.get")
    def _get(E, P, ctx, d, k, default=NONE):
        if isinstance(d, Handle) and d.kind == "dict":
            return [(P, P.get(d).get(E.dict_key(k), default))]
        raise Unsupported("get on %r" % (d,))

    @reg("method.update")
    def _update(E, P, ctx, d, other):
        E.guard_global_write(d, P)
        if isinstance(d, Handle) and d.kind == "dict" and isinstance(other, Handle) and other.kind == "dict":
            nd = dict(P.get(d))
            nd.update(P.get(other))
            P.put(d, nd)
            P.written.add("pydict")
            return [(P, NONE)]
        raise Unsupported("update")

    @reg("method.items")
    def _items(E, P, ctx, d):
        if isinstance(d, Handle) and d.kind == "dict":
            return [(P, Opaque("items", tuple(Tup([Str([k]) if isinstance(k, str) else I(k), v])
                                             for k, v in P.get(d).items())))]
        raise Unsupported("items")

    @reg("method.keys")
    def _keys(E, P, ctx, d):
        if isinstance(d, Handle) and d.kind == "dict":
            return [(P, Opaque("items", tuple(Str([k]) if isinstance(k, str) else I(k) for k in P.get(d))))]
        raise Unsupported("keys")

    # ---- strings
    @reg("method.join")
    def _join(E, P, ctx, sep, it):
        items = E.iter_items(P, it)
        if items is None or not isinstance(sep, Str):
            raise Unsupported("join")
        parts = []
        for k, x in enumerate(items):
            if not isinstance(x, Str):
                raise Unsupported("join of non-strings")
            if k:
                parts.extend(sep.parts)
            parts.extend(x.parts)
        return [(P, Str(parts))]

    @reg("method.upper")
    def _upper(E, P, ctx, s):
        cs = s.chars() if isinstance(s, Str) else None
        if cs is None:
            raise Unsupported("upper of abstract string")
        out = []
        for c in cs:
            if isinstance(c, str):
                out.append(c.upper())
            else:
                # A-STR: only ASCII letters change (the contract's precondition restricts to hex digits)
                out.append(z3.If(z3.And(c >= 97, c <= 122), c - 32, c))
                if not ctx.spec:
                    E.oblige(P, "model.upper_ascii#%d" % E.site(), c < 128, "safe")
        return [(P, str_from_chars(out))]

    @reg("method.startswith")
    def _startswith(E, P, ctx, s, pre):
        pc = pre.concrete() if isinstance(pre, Str) else None
        if pc is None or not isinstance(s, Str):
            raise Unsupported("startswith")
        cs = s.chars()
        if cs is not None:
            if len(cs) < len(pc):
                return [(P, B(False))]
            ts = []
            for a, b in zip(cs, pc):
                ts.append((z3.IntVal(ord(a)) if isinstance(a, str) else a) == ord(b))
            return [(P, Bool(z3.And(*ts) if ts else z3.BoolVal(True)))]
        if s.parts and isinstance(s.parts[0], str) and len(s.parts[0]) >= len(pc):
            return [(P, B(s.parts[0].startswith(pc)))]
        raise Unsupported("startswith on abstract string")

    @reg("str.%")
    def _strmod(E, P, ctx, fmt, arg):
        f = fmt.concrete()
        if f is None:
            raise Unsupported("symbolic format string")
        args = list(arg.items) if isinstance(arg, Tup) else [arg]
        parts = []
        i = 0
        k = 0
        import re
        pat = re.compile(r"%(\.\d+)?([sifd%])")
        pos = 0
        for m in pat.finditer(f):
            parts.append(f[pos:m.start()])
            pos = m.end()
            if m.group(2) == "%":
                parts.append("%")
                continue
            if k >= len(args):
                return E.fail(P, "safe.format_args#%d" % E.site(), "not enough arguments for format string")
            a = args[k]
            k += 1
            spec = (m.group(1) or "") + m.group(2)
            if m.group(2) == "s":
                if isinstance(a, SeqStr):
                    # a z3 sequence of code points that simplifies to a literal (int2name of a concrete index)
                    lit = z3.simplify(a.t)
                    if z3.is_string_value(lit):
                        a = Str([lit.as_string()])
                    elif z3.is_app(lit) and lit.decl().kind() in (z3.Z3_OP_SEQ_UNIT, z3.Z3_OP_SEQ_CONCAT, z3.Z3_OP_SEQ_EMPTY):
                        def units(t):
                            k = t.decl().kind()
                            if k == z3.Z3_OP_SEQ_EMPTY:
                                return []
                            if k == z3.Z3_OP_SEQ_UNIT:
                                v = z3.simplify(t.arg(0))
                                if z3.is_int_value(v):
                                    return [chr(v.as_long())]
                                raise Unsupported("%s of a symbolic sequence")
                            if k == z3.Z3_OP_SEQ_CONCAT:
                                return [c for ch in t.children() for c in units(ch)]
                            raise Unsupported("%s of a symbolic sequence")
                        a = Str(["".join(units(lit))])
                if isinstance(a, Str):
                    parts.extend(a.parts)
                elif isinstance(a, Num):
                    c = E.cint(a)
                    parts.append(str(c) if c is not None else ("fmt", "str", a))
                else:
                    raise Unsupported("%%s of %r" % (a,))
            else:
                a = E.num(a)
                if not isinstance(a, Num):
                    if not ctx.spec:
                        return E.fail(P, "safe.format_type#%d" % E.site(), "%%%s of a non-number" % spec)
                    raise Unsupported("format of %r" % (a,))
                parts.append(("fmt", spec, a))
        parts.append(f[pos:])
        if k != len(args):
            return E.fail(P, "safe.format_args#%d" % E.site(), "not all arguments converted")
        return [(P, Str(parts))]

    @reg("method.format")
    def _format(E, P, ctx, fmt, *args):
        f = fmt.concrete() if isinstance(fmt, Str) else None
        if f is None:
            raise Unsupported("symbolic format string")
        import re
        m = re.fullmatch(r"\{:\.(\d+)f\}", f)
        if m and len(args) == 1:
            a = E.num(args[0])
            E.need_num(a)
            return [(P, Str([("fmt", ".%sf" % m.group(1), a)]))]
        raise Unsupported("format %r" % f)

    @reg("method.split")
    def _split(E, P, ctx, s, sep=None):
        sc = sep.concrete() if isinstance(sep, Str) else None
        if sc != " " or not isinstance(s, Str):
            raise Unsupported("split")
        # A-STR: format terms contain no blank; literals are split structurally
        fields = [[]]
        for p in s.parts:
            if isinstance(p, str):
                segs = p.split(" ")
                fields[-1].append(segs[0])
                for sg in segs[1:]:
                    fields.append([sg])
            else:
                if p[0] not in ("fmt", "chr"):
                    raise Unsupported("split of abstract part")
                fields[-1].append(p)
        E.assume_used("A-STR:format terms contain no blank")
        return [(P, P.new("list", tuple(Str(f) for f in fields)))]

    # ------------------------------------------------------------------ spec functions
    @reg("us", True)
    def _us(E, P, ctx, x):
        """microseconds since the naive epoch of a datetime / length of a timedelta (spec function)"""
        if isinstance(x, Opaque) and x.tag in ("dt", "td"):
            return [(P, Num(x.payload[0], True))]
        raise SpecError("us(%r)" % (x,))

    @reg("alloc", True)
    def _alloc(E, P, ctx, x):
        return [(P, Bool(z3.Select(E.alloc_arr(P), x.t)))]

    @reg("old_at", True)
    def _old_at(E, P, ctx, lst, k):
        """element k of the list as it was in the pre-state (the index term is evaluated in the current state)"""
        if P.old is None:
            raise SpecError("old_at() outside a postcondition")
        return [(P, E.l_get(P.old, lst, E.num(k).t))]

    @reg("old_len", True)
    def _old_len(E, P, ctx, lst):
        if P.old is None:
            raise SpecError("old_len() outside a postcondition")
        return [(P, Num(E.l_len(P.old, lst), True))]

    @reg("pos_in", True)
    def _pos_in(E, P, ctx, lst, t):
        """ghost: index at which instant t was last appended to the list of instants lst"""
        G = E.heap_array(P, "list.$pos.dt", z3.ArraySort(IntS, IntS))
        return [(P, Num(z3.Select(E.sel(G, lst.t), E.unwrap(t, "dt")), True))]

    @reg("unchanged", True)
    def _unchanged(E, P, ctx, *keys):
        """the named heap fields are exactly as in the pre-state"""
        if P.old is None:
            raise SpecError("unchanged() outside a postcondition")
        ts = []
        for k in keys:
            k = k.concrete()
            if k in P.heap or k in P.old.heap:
                E.havoc_heap  # noqa
                a1 = P.heap.get(k)
                a0 = P.old.heap.get(k)
                if a0 is None or a1 is None:
                    if a0 is None and a1 is None:
                        continue
                    raise SpecError("unchanged(%s): field missing in one state" % k)
                ts.append(a1 == a0)
        return [(P, Bool(z3.And(*ts) if ts else z3.BoolVal(True)))]

    @reg("isa", True)
    def _isa(E, P, ctx, x, cls):
        return [(P, Bool(z3.And(x.t != NULL, z3.Select(E.alloc_arr(P), x.t), E.type_is(P, x.t, cls.concrete()))))]

    @reg("fresh", True)
    def _fresh(E, P, ctx, x):
        """allocated now, not allocated in the pre-state (old heap)"""
        if P.old is None:
            raise SpecError("fresh() outside a postcondition")
        return [(P, Bool(z3.And(x.t != NULL, z3.Select(E.alloc_arr(P), x.t), z3.Not(z3.Select(E.alloc_arr(P.old), x.t)))))]

    @reg("implies", True)
    def _implies(E, P, ctx, a, b):
        return [(P, Bool(z3.Implies(E.truth(a, P), E.truth(b, P))))]

    @reg("iff", True)
    def _iff(E, P, ctx, a, b):
        return [(P, Bool(E.truth(a, P) == E.truth(b, P)))]

    @reg("is_int", True)
    def _is_int(E, P, ctx, x):
        return [(P, B(isinstance(x, Num) and x.isint))]

    @reg("to_real", True)
    def _to_real(E, P, ctx, x):
        return [(P, Num(E.num(x).real(), False))]

    @reg("hexdigit", True)
    def _hexdigit(E, P, ctx, s):
        cs = s.chars()
        return [(P, Bool(z3.And(*[hexval(z3.IntVal(ord(c)) if isinstance(c, str) else c) >= 0 for c in cs])))]

    @reg("hexvalue", True)
    def _hexvalue(E, P, ctx, s):
        cs = s.chars()
        c = cs[0]
        return [(P, Num(hexval(z3.IntVal(ord(c)) if isinstance(c, str) else c), True))]

    E.builtin_names = set(E.builtin_names) | names | {"old", "forall", "exists", "result"}
    from . import models_dt
    models_dt.install(E)
    from . import models_uni
    models_uni.install(E)
