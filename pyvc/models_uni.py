"""unicodedata abstraction (assumption A-UNI).

The Unicode character database is NOT modelled.  `unicodedata.decomposition` and `unicodedata.category` are uninterpreted
functions of the code point, of which only the SHAPE that CPython guarantees is assumed:

    DEC_N(c)      number of blank-separated fields of decomposition(chr(c))          DEC_N(c) >= 0
    DEC_TAG(c)    the first field starts with "<"  (a compatibility tag such as "<compat>")
    DEC(c, k)     value of the k-th field read as a hexadecimal number (for fields that are not a tag)
                  0 <= DEC(c, k) < 0x110000   (a field that is not a tag is a code point in hex: int(f, 16) and chr() succeed)
    CAT_M(c)      category(chr(c)) starts with "M"
    c < 128  =>   DEC_N(c) == 0 and not CAT_M(c)       (ASCII characters have no decomposition and are not marks)

These facts are checked against the running interpreter's unicodedata for every code point by selftest/conformance.py.
A contract proved with this model therefore holds for EVERY table with that shape - in particular for the real one.
"""
import z3

from .values import Num, Bool, Str, Opaque, Builtin, IntS, BoolS, Unsupported


def install(E):
    M = E.models
    DEC_N = z3.Function("DEC_N", IntS, IntS)
    DEC_TAG = z3.Function("DEC_TAG", IntS, BoolS)
    DEC = z3.Function("DEC", IntS, IntS, IntS)
    CAT_M = z3.Function("CAT_M", IntS, BoolS)
    E.uni_funcs = dict(DEC_N=DEC_N, DEC_TAG=DEC_TAG, DEC=DEC, CAT_M=CAT_M)

    def code_of(s, what):
        if isinstance(s, Str):
            cs = s.chars()
            if cs is not None and len(cs) == 1:
                return z3.IntVal(ord(cs[0])) if isinstance(cs[0], str) else cs[0]
        raise Unsupported("%s of %r (a single character is expected)" % (what, s))

    def facts(P, c):
        E.assume_used("A-UNI")
        if getattr(E, "quant_depth", 0):
            return
        P.assume(DEC_N(c) >= 0)
        P.assume(z3.Implies(z3.And(c >= 0, c < 128), z3.And(DEC_N(c) == 0, z3.Not(CAT_M(c)))))
        for k in (0, 1):
            P.assume(z3.Implies(z3.And(DEC_N(c) > k, z3.Not(z3.And(k == 0, DEC_TAG(c)))),
                                z3.And(DEC(c, z3.IntVal(k)) >= 0, DEC(c, z3.IntVal(k)) < 0x110000)))

    E.uni_facts = facts

    def _decomposition(E, P, ctx, ch):
        c = code_of(ch, "unicodedata.decomposition")
        facts(P, c)
        return [(P, Opaque("udecomp", (c,)))]

    def _category(E, P, ctx, ch):
        c = code_of(ch, "unicodedata.category")
        facts(P, c)
        return [(P, Opaque("ucat", (c,)))]

    M["unicodedata.decomposition"] = _decomposition
    M["unicodedata.category"] = _category
    E.ext_values["unicodedata.decomposition"] = Builtin("unicodedata.decomposition")
    E.ext_values["unicodedata.category"] = Builtin("unicodedata.category")

    def uni_split(E, P, ctx, o):
        """decomposition(c).split(): a list of exactly two fields on one path, any other number of fields on the other"""
        c = o.payload[0]
        outs = []
        two = P.clone()
        two.assume(DEC_N(c) == 2)
        if E.feasible(two):
            outs.append((two, two.new("list", (Opaque("udfield", (c, 0)), Opaque("udfield", (c, 1))))))
        other = P.clone()
        other.assume(DEC_N(c) != 2)
        if E.feasible(other):
            outs.append((other, Opaque("udfields", (c,))))
        return outs

    def uni_method(E, P, ctx, o, name, args):
        """methods of the abstract values; None = not one of ours"""
        if not isinstance(o, Opaque):
            return None
        if o.tag == "udecomp" and name == "split" and not args:
            return uni_split(E, P, ctx, o)
        if name == "startswith" and len(args) == 1 and isinstance(args[0], Str):
            lit = args[0].concrete()
            if o.tag == "udfield" and lit == "<":
                c, k = o.payload
                return [(P, Bool(DEC_TAG(c) if k == 0 else z3.BoolVal(False)))]     # only the first field can be a tag
            if o.tag == "ucat" and lit == "M":
                return [(P, Bool(CAT_M(o.payload[0])))]
        raise Unsupported("method %s on the unicodedata abstraction %s" % (name, o.tag))

    E.uni_method = uni_method

    def uni_len(E, P, o):
        if isinstance(o, Opaque) and o.tag == "udfields":
            return Num(DEC_N(o.payload[0]), True)
        return None

    E.uni_len = uni_len

    def uni_int16(E, P, ctx, o):
        """int(field, 16): succeeds for a field that is not a tag (obligation), value DEC(c, k)"""
        c, k = o.payload
        if not ctx.spec and k == 0:
            E.oblige(P, "safe.int_of_tag#%d" % E.site(), z3.Not(DEC_TAG(c)), "safe")
        return [(P, Num(DEC(c, z3.IntVal(k)), True))]

    E.uni_int16 = uni_int16
