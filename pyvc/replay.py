"""Replay of a solver counter-model on the REAL function (scalar contracts): the second evaluator of the contract text.

The model's values for the parameters are turned into concrete arguments; /venv/bin/python runs the real function
from $LABELLA_REPO in a subprocess and evaluates the contract's `ensures` expressions concretely (pyvc/concrete.py).
Only parameter kinds int / real / bool / str:<n> are rebuilt here; for heap contracts the check falls back to the
bounded driver's concrete witnesses or reports `no-failing-input-found`.
"""
import json
import os
import re
import subprocess
import sys
from fractions import Fraction

ROOT = os.path.dirname(os.path.dirname(os.path.abspath(__file__)))


def _num(txt):
    txt = txt.strip()
    m = re.fullmatch(r"\(?\s*-\s*\(?([0-9./ ]+)\)?\)?", txt)
    neg = False
    if txt.startswith("-") or txt.startswith("(-") or txt.startswith("(- "):
        neg = True
    body = re.sub(r"[()\s-]", "", txt) if neg else txt
    body = body.replace("?", "")
    try:
        f = Fraction(body)
    except Exception:
        return None
    return -f if neg else f


def replay_model(ob, repo_root):
    from contracts import registry
    types, contracts, specfuns, lemmas = registry.load()
    qual = ob.get("func")
    model = ob.get("model") or {}
    if not qual or qual not in contracts:
        return dict(status="not-replayable", why="no contract for %r" % qual)
    con = contracts[qual]
    if con.get("replay"):
        return replay_script(qual, con["replay"], model, repo_root)
    m = re.search(r"/case(\d+)\.", ob["name"])
    case = (con.get("cases") or [{}])[int(m.group(1))] if m and con.get("cases") else {}
    params = dict(con.get("params", {}))
    params.update(case.get("params", {}))
    args = {}
    for name, kind in params.items():
        if not isinstance(kind, str):
            return dict(status="not-replayable", why="parameter %s is structured" % name)
        if kind in ("int", "real", "bool"):
            v = None
            for k, txt in model.items():
                if k.startswith(name + "!"):
                    v = txt
            if v is None:
                v = "0"
            if kind == "bool":
                args[name] = (v == "True")
            else:
                f = _num(v)
                if f is None:
                    return dict(status="not-replayable", why="cannot read %s=%r" % (name, v))
                args[name] = int(f) if kind == "int" else float(f)
        elif kind in ("dt", "dt_ms"):
            v = None
            for k, txt in model.items():
                if k.startswith(name + "!"):
                    v = txt
            f = _num(v) if v is not None else Fraction(0)
            if f is None or f.denominator != 1:
                return dict(status="not-replayable", why="cannot read %s=%r" % (name, v))
            args[name] = {"$dt_us": int(f)}
        elif kind.startswith("str:"):
            n = int(kind[4:])
            cs = []
            for i in range(n):
                v = None
                for k, txt in model.items():
                    if k.startswith("%s_c%d!" % (name, i)):
                        v = txt
                f = _num(v) if v is not None else Fraction(48)
                cs.append(int(f) if f is not None else 48)
            if any(not (0 <= c < 0x110000) for c in cs):
                return dict(status="not-replayable", why="model uses code points outside Unicode")
            args[name] = "".join(map(chr, cs))
        else:
            return dict(status="not-replayable", why="parameter kind %s" % kind)
    ensures = [list(x) if isinstance(x, (list, tuple)) else [str(i), x]
               for i, x in enumerate(list(con.get("ensures", [])) + list(case.get("ensures", [])))]
    requires = [x[1] if isinstance(x, (list, tuple)) else x for x in list(con.get("requires", [])) + list(case.get("requires", []))]
    job = dict(qual=qual, args=args, ensures=ensures, requires=requires)
    r = subprocess.run(["/venv/bin/python", os.path.join(ROOT, "pyvc", "concrete.py")], input=json.dumps(job),
                       capture_output=True, text=True, env=dict(os.environ, LABELLA_REPO=repo_root), timeout=60)
    try:
        out = json.loads(r.stdout.strip().splitlines()[-1])
    except Exception:
        return dict(status="replay-crash", stdout=r.stdout[-500:], stderr=r.stderr[-500:])
    out["input"] = dict(function=qual, args=args)
    return out


_RUNNER = """
import json, os, sys
sys.path.insert(0, os.environ.get("LABELLA_REPO", "/repo"))
job = json.load(sys.stdin)
ns = {}
exec(job["src"], ns)
try:
    failed, observed, inp = ns["replay"](job["m"])
    print(json.dumps(dict(status="fails" if failed else "holds", observed=observed, input=inp)))
except Exception as ex:
    print(json.dumps(dict(status="replay-crash", observed="%s: %s" % (type(ex).__name__, ex))))
"""


def replay_script(qual, src, model, repo_root):
    """contract-specific replay: the contract names a history (python source defining replay(m) -> (failed, observed, input))
    that rebuilds the entry state of its setup on the REAL classes from the model's scalar values (m: name -> float)."""
    vals = {}
    for k, txt in model.items():
        name = k.split("!")[0]
        f = _num(txt) if isinstance(txt, str) else None
        if f is not None and name not in vals:
            vals[name] = float(f) if f.denominator != 1 else int(f)
    import collections
    m = collections.defaultdict(int, vals)
    r = subprocess.run(["/venv/bin/python", "-c", _RUNNER], input=json.dumps(dict(src=src, m=dict(m), names=list(vals))),
                       capture_output=True, text=True, env=dict(os.environ, LABELLA_REPO=repo_root), timeout=60)
    try:
        out = json.loads(r.stdout.strip().splitlines()[-1])
    except Exception:
        return dict(status="replay-crash", stdout=r.stdout[-500:], stderr=r.stderr[-500:])
    out.setdefault("input", dict(function=qual, model=vals))
    return out
