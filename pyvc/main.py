"""./check <property> [--tier quick|thorough] [--seed N] [--replay FILE] [--update-expected] [--selftest]

Exit codes: 0 held on everything explored; 1 violation (a line `VIOLATION property=<id> replay=<path>`);
2 undecided (an obligation that is in the committed expected set could not be decided / disappeared);
3 checker fault.  `unknown`, time-outs and tracebacks are never mapped to a violation.
"""
import argparse
import hashlib
import json
import multiprocessing
import os
import re
import subprocess
import sys
import time
import traceback

ROOT = os.path.dirname(os.path.dirname(os.path.abspath(__file__)))
sys.path.insert(0, ROOT)
REPO = os.environ.get("LABELLA_REPO", "/repo")
VENV_PY = "/venv/bin/python"

from contracts import registry  # noqa: E402


def strip_sites(name):
    return re.sub(r"#\d+", "", name)


# ---------------------------------------------------------------------------------------------- T1
def _verify_one(args):
    qual, timeout_ms = args
    from pyvc.frontend import Repo
    from pyvc.verify import verify_function
    types, contracts, specfuns, lemmas = registry.load()
    try:
        r = verify_function(Repo(REPO), qual, contracts[qual], types, contracts, specfuns, timeout_ms=timeout_ms)
        return r.as_dict()
    except Exception:
        return dict(qual=qual, status="engine-crash", reason=traceback.format_exc()[-1500:], obligations=[], paths=0,
                    returns=0, assumptions=[], wall=0, fingerprint="")


def _prove_lemma(args):
    name, timeout_ms = args
    import z3
    types, contracts, specfuns, lemmas = registry.load()
    out = []
    try:
        goals = lemmas[name]["build"]()
    except Exception:
        return [dict(name=name, kind="lemma", verdict="crash", time=0, solver="-", model=traceback.format_exc()[-800:])]
    for sub, goal in goals:
        t0 = time.time()
        s = z3.Solver()
        s.set("timeout", timeout_ms)
        s.add(z3.Not(goal))
        r = s.check()
        verdict = "discharged" if r == z3.unsat else ("refuted" if r == z3.sat else "unknown")
        solver = "z3"
        model = None
        if r == z3.sat:
            m = s.model()
            model = {str(d): str(m[d]) for d in m.decls()}
        if r == z3.unknown:
            from pyvc.verify import try_other_solvers
            v2 = try_other_solvers(s, timeout_ms)
            if v2:
                verdict, solver = v2
        out.append(dict(name="%s.%s" % (name, sub) if sub else name, kind="lemma", verdict=verdict,
                        time=round(time.time() - t0, 3), solver=solver, model=model))
    return out


# ---------------------------------------------------------------------------------------------- T2
def run_t2(driver, tier, seed, budget, replay=None, repo=None):
    cmd = [VENV_PY, "-m", "bounded." + driver, "--tier", tier, "--seed", str(seed)]
    if budget is not None:
        cmd += ["--budget", str(budget)]
    if replay:
        cmd += ["--replay", replay]
    env = dict(os.environ, LABELLA_REPO=repo or REPO, PYTHONHASHSEED="0")
    t0 = time.time()
    try:
        r = subprocess.run(cmd, cwd=ROOT, env=env, capture_output=True, text=True,
                           timeout=(budget or 20) * 3 + 120)
    except subprocess.TimeoutExpired:
        return dict(driver=driver, status="timeout", wall_s=round(time.time() - t0, 1))
    for line in r.stdout.splitlines():
        if line.startswith("T2RESULT "):
            d = json.loads(line[9:])
            d["driver"] = driver
            d["status"] = "ok"
            return d
        if line.startswith("T2CRASH "):
            return dict(driver=driver, status="crash", detail=json.loads(line[8:]))
    return dict(driver=driver, status="crash", detail=dict(stdout=r.stdout[-1500:], stderr=r.stderr[-1500:], rc=r.returncode))


# ---------------------------------------------------------------------------------------------- main
def main(argv=None):
    ap = argparse.ArgumentParser()
    ap.add_argument("prop")
    ap.add_argument("--tier", default=os.environ.get("VERIF_TIER") or "quick")
    ap.add_argument("--seed", type=int, default=int(os.environ.get("VERIF_SEED") or 0))
    ap.add_argument("--replay", default=None)
    ap.add_argument("--update-expected", action="store_true")
    ap.add_argument("--no-t2", action="store_true")
    ap.add_argument("--no-t1", action="store_true")
    ap.add_argument("--budget", type=float, default=None)
    a = ap.parse_args(argv)
    prop = a.prop
    if prop not in registry.PROPERTIES:
        print("unknown property", prop)
        return 3
    t0 = time.time()
    tier = a.tier if a.tier in ("quick", "thorough") else "quick"
    timeout_ms = 10000 if tier == "quick" else 60000
    # solver budgets are wall-clock: on a machine that is already busy (several checks started at once) they are stretched
    # with the load, so that a verdict does not flip to `unknown` for lack of CPU (1 min load average per core, capped x4)
    try:
        load = os.getloadavg()[0] / max(1, (os.cpu_count() or 16))
    except OSError:
        load = 0.0
    if load > 0.75:
        timeout_ms = int(timeout_ms * min(4.0, 1.0 + 2.0 * load))
    os.environ["PYVC_TIER"] = tier        # read by pyvc.verify (quick_cases / thorough_cases / thorough_only); inherited by the pool
    types, contracts, specfuns, lemmas = registry.load()
    props = registry.closure(prop)
    if a.replay:
        return do_replay(prop, a.replay, tier, a.seed)

    # ---- gather work
    t1_funcs = [q for q, c in contracts.items() if set(c.get("props", [])) & set(props) and c.get("mode", "verify") == "verify"
                and (tier != "quick" or not c.get("thorough_tier_only"))]   # a contract may say it is too slow for the quick tier
    if registry.PROPERTIES[prop].get("t1_all"):
        # C11 (totality): the exception-freedom obligations (safe.*, noraise.*) of EVERY function under contract are its T1
        # content, so its check runs every contract
        t1_funcs = [q for q, c in contracts.items() if c.get("mode", "verify") == "verify"
                    and (tier != "quick" or not c.get("thorough_tier_only"))]
    assumed = {q: c for q, c in contracts.items() if set(c.get("props", [])) & set(props) and c.get("mode") == "assume"}
    lemma_names = [n for n, l in lemmas.items() if set(l.get("props", [])) & set(props)]
    drivers = []
    for p in props:
        for d in registry.PROPERTIES[p].get("t2", []):
            if os.path.exists(os.path.join(ROOT, "bounded", d + ".py")) and d not in drivers:
                drivers.append(d)
    own_drivers = [d for d in registry.PROPERTIES[prop].get("t2", []) if d in drivers]
    if tier == "quick":
        drivers = own_drivers  # inherited bounded scopes are run by the inherited property's own quick check
    budget = a.budget if a.budget is not None else (20 if tier == "quick" else 240)

    # ---- run T2 in the background (subprocesses), T1/T3 in a pool
    import concurrent.futures as cf
    t2_results = []
    fresults, lresults = [], []
    with cf.ThreadPoolExecutor(max_workers=max(1, len(drivers))) as tp:
        futs = [] if a.no_t2 else [tp.submit(run_t2, d, tier, a.seed, budget) for d in drivers]
        if not a.no_t1 and (t1_funcs or lemma_names):
            ctx = multiprocessing.get_context("fork")
            # longest jobs first, one function per task: the wall time of a check is that of its largest function, which must
            # not wait in a chunk behind small ones (weight = number of obligations it generated when `expected` was written)
            weight = {}
            try:
                exp_all = json.load(open(os.path.join(ROOT, "contracts", "expected_obligations.json")))
                for name in exp_all.get(prop, []):
                    weight[name.split("/")[0]] = weight.get(name.split("/")[0], 0) + 1
            except Exception:
                pass
            t1_funcs = sorted(t1_funcs, key=lambda q: -weight.get(q, 0))
            with ctx.Pool(min(12, max(1, len(t1_funcs) + len(lemma_names)))) as pool:
                fr = pool.map_async(_verify_one, [(q, timeout_ms) for q in t1_funcs], chunksize=1)
                lr = pool.map_async(_prove_lemma, [(n, timeout_ms) for n in lemma_names])
                fresults = fr.get()
                lresults = [x for sub in lr.get() for x in sub]
        t2_results = [f.result() for f in futs]

    # ---- collect obligations
    obligations = []
    demoted = []
    demoted_obls = []
    faults = []
    for r in fresults:
        if r["status"] == "ok":
            for o in r["obligations"]:
                o = dict(o)
                o["func"] = r["qual"]
                obligations.append(o)
        elif r["status"] == "left-subset":
            demoted.append(dict(func=r["qual"], reason=r["reason"]))
            for o in r["obligations"]:          # refuted / unknown ones generated before the function left the subset
                o = dict(o)
                o["func"] = r["qual"]
                o["detail"] = (o.get("detail") or "") + " [path explored before the function left the subset]"
                demoted_obls.append(o)
        else:
            faults.append(dict(func=r["qual"], status=r["status"], reason=r["reason"]))
    for o in lresults:
        o = dict(o)
        o["func"] = "lemma"
        obligations.append(o)
        if o["verdict"] == "crash":
            faults.append(dict(func=o["name"], status="lemma-crash", reason=o["model"]))

    names = sorted({strip_sites(o["name"]) for o in obligations})
    exp_path = os.path.join(ROOT, "contracts", "expected_obligations.json")
    expected_all = json.load(open(exp_path)) if os.path.exists(exp_path) else {}
    fps = {r["qual"]: r.get("fingerprint") for r in fresults}
    if a.update_expected:
        expected_all[prop] = names
        expected_all.setdefault("_fingerprints", {}).update(fps)
        json.dump(expected_all, open(exp_path, "w"), indent=0, sort_keys=True)
    expected = set(expected_all.get(prop, []))
    exp_fps = expected_all.get("_fingerprints", {})
    changed_funcs = {q for q, fp in fps.items() if q in exp_fps and exp_fps[q] != fp}
    missing = sorted(expected - set(names))
    demoted_funcs = {d["func"] for d in demoted}
    missing_hard = [m for m in missing if not any(m.startswith(f + "/") for f in demoted_funcs)]

    # obligations of demoted functions: a refutation always counts; an `unknown` only under the rule below
    for o in demoted_obls:
        if o["verdict"] == "refuted" or (o["verdict"] == "unknown" and o["func"] in changed_funcs and strip_sites(o["name"]) in expected):
            obligations.append(o)
    refuted = [o for o in obligations if o["verdict"] == "refuted"]
    unknown = [o for o in obligations if o["verdict"] in ("unknown", "failed", "crash")]
    # An obligation that was discharged on the unchanged tree (it is in the committed expected set) and is NOT
    # discharged now, in a function whose executed source changed, is reported as a violation of that obligation
    # (no-failing-input-found unless a bounded driver supplies one).  On UNCHANGED source an `unknown` is a solver
    # matter and stays undecided (exit 2) - it is never turned into an alarm.
    failed_after_change = [o for o in unknown if o["verdict"] == "unknown" and o.get("func") in changed_funcs
                           and strip_sites(o["name"]) in expected]
    unknown = [o for o in unknown if o not in failed_after_change]
    for f_ in demoted:
        pass
    discharged = [o for o in obligations if o["verdict"] == "discharged"]

    # ---- known findings
    kf_path = os.path.join(ROOT, "known_findings.json")
    kf = json.load(open(kf_path)) if os.path.exists(kf_path) else {"findings": [], "fixed": []}
    listed = {(f["property"], f["id"]) for f in kf.get("findings", [])}

    violations = []   # (kind, payload)
    known_hits = {}
    t2_viol = 0
    t2_faults = []
    for d in t2_results:
        if d.get("status") != "ok":
            t2_faults.append(d)
            continue
        for v in d.get("violations", []):
            k = v.get("known")
            if k and (prop, k) in listed:
                known_hits.setdefault(k, v)
                continue
            if k and any((p, k) in listed for p in props):
                known_hits.setdefault(k, v)
                continue
            t2_viol += 1
            violations.append(("t2", dict(driver=d["driver"], **v)))
    for o in refuted:
        violations.append(("t1", o))
    for o in failed_after_change:
        o = dict(o)
        o["detail"] = "not discharged any more (solver: unknown) after the function's source changed; it was discharged on the unchanged tree"
        violations.append(("t1", o))

    os.makedirs(os.path.join(ROOT, "replays"), exist_ok=True)
    # evidence/ describes runs against /repo only: a run against another tree (selftest/run_seeded.py sets PYVC_EVIDENCE_DIR)
    # writes its evidence elsewhere
    evdir = os.environ.get("PYVC_EVIDENCE_DIR") or os.path.join(ROOT, "evidence")
    os.makedirs(evdir, exist_ok=True)
    out_lines = []
    # every LISTED finding of this property: replay its committed witness; report it while it still fails
    for f in kf.get("findings", []):
        if f["property"] != prop:
            continue
        k = f["id"]
        if f.get("witness") and not a.no_t2:
            wpath = os.path.join(ROOT, "replays", "witness-%s-%s.json" % (prop, k))
            json.dump({"input": f["witness"]["input"]}, open(wpath, "w"))
            d = run_t2(f["witness"]["driver"], tier, a.seed, 30, replay=wpath)
            still = d.get("status") == "ok" and any(v.get("known") == k for v in d.get("violations", []))
            other = [v for v in d.get("violations", []) if v.get("known") != k] if d.get("status") == "ok" else []
            if still or k in known_hits:
                out_lines.append("KNOWN-FINDING: property=%s %s %s [witness replayed: still fails]" % (prop, k, f["text"]))
            known_hits.pop(k, None)
            for v in other:
                violations.append(("t2", dict(driver=f["witness"]["driver"], **v)))
        else:
            out_lines.append("KNOWN-FINDING: property=%s %s %s [outside every driver's scope; not replayed]" % (prop, k, f["text"]))
            known_hits.pop(k, None)
    rc = 0
    seen_clause = set()
    for kind, v in violations:
        key = (kind, strip_sites(v.get("name", v.get("clause", ""))))
        if key in seen_clause:
            continue
        seen_clause.add(key)
        rp, concrete = write_replay(prop, kind, v, t2_results, tier, a.seed)
        tail = "" if concrete else " no-failing-input-found"
        what = v.get("name") if kind == "t1" else "bounded:%s" % v.get("clause")
        out_lines.append("VIOLATION property=%s replay=%s obligation=%s%s" % (prop, rp, what, tail))
        rc = 1
    for k, v in sorted(known_hits.items()):
        text = next((f["text"] for f in kf["findings"] if f["id"] == k), k)
        out_lines.append("KNOWN-FINDING: property=%s %s (%s) e.g. clause %s" % (prop, k, text, v.get("clause")))
    if rc == 0 and (unknown or missing_hard):
        rc = 2
    if faults or t2_faults:
        if rc == 0:
            rc = 3

    # ---- evidence
    ev = build_evidence(prop, props, tier, a.seed, fresults, lresults, obligations, discharged, refuted, unknown, demoted,
                        faults, t2_results, t2_faults, assumed, missing_hard, known_hits, len(violations), t0, contracts)
    json.dump(ev, open(os.path.join(evdir, prop + ".json"), "w"), indent=1)

    print("%s tier=%s: T1/T3 obligations %d discharged %d refuted %d undecided %d; functions under contract %d "
          "(demoted to bounded: %d); bounded drivers %s evaluations %d violations %d; wall %.1fs"
          % (prop, tier, len(obligations), len(discharged), len(refuted), len(unknown), len(fresults), len(demoted),
             ",".join(d.get("driver", "?") for d in t2_results) or "-",
             sum(d.get("evaluations", 0) for d in t2_results if d.get("status") == "ok"), t2_viol, time.time() - t0))
    for d in demoted:
        print("  LEFT-SUBSET %s: %s" % (d["func"], d["reason"]))
    for o in unknown:
        print("  UNDECIDED %s (%s)" % (o["name"], o["verdict"]))
    for m in missing_hard:
        print("  UNDECIDED expected obligation not generated: %s" % m)
    for f in faults:
        print("  CHECKER-FAULT %s %s: %s" % (f["func"], f["status"], f["reason"][-600:]))
    for f in t2_faults:
        print("  CHECKER-FAULT bounded driver %s: %s" % (f.get("driver"), json.dumps(f)[:800]))
    for l in out_lines:
        print(l)
    return rc


def write_replay(prop, kind, v, t2_results, tier, seed):
    """Replay file for a violation. Returns (path, has_concrete_failing_input)."""
    h = hashlib.sha256(json.dumps(v, sort_keys=True, default=str).encode()).hexdigest()[:10]
    path = os.path.join(ROOT, "replays", "%s-%s-%s.json" % (prop, kind, h))
    concrete = False
    rec = dict(property=prop, kind=kind, tier=tier, seed=seed)
    if kind == "t2":
        rec.update(driver=v["driver"], clause=v["clause"], input=v["input"], observed=v["observed"])
        concrete = True
    else:
        rec.update(obligation=v["name"], function=v.get("func"), solver=v.get("solver"), verdict=v["verdict"],
                   solver_model=v.get("model"), detail=v.get("detail"))
        # 1. replay the solver's model on the real function (scalar contracts)
        try:
            from pyvc import replay as rp
            got = rp.replay_model(v, REPO)
        except Exception:
            got = dict(status="replay-crash", trace=traceback.format_exc()[-800:])
        rec["model_replay"] = got
        if got.get("status") == "fails":
            concrete = True
            rec["input"] = got.get("input")
            rec["observed"] = got.get("observed")
        else:
            # 2. a concrete failing input found by the bounded driver of this property in the same run
            for d in t2_results:
                for tv in d.get("violations", []) if d.get("status") == "ok" else []:
                    rec["input"] = tv["input"]
                    rec["observed"] = tv["observed"]
                    rec["driver"] = d["driver"]
                    rec["clause"] = tv["clause"]
                    concrete = True
                    break
                if concrete:
                    break
        if not concrete:
            rec["note"] = "no-failing-input-found: the obligation passed on the unchanged tree and now fails; solver output attached"
    json.dump(rec, open(path, "w"), indent=1, default=str)
    return os.path.relpath(path, ROOT), concrete


def do_replay(prop, path, tier, seed):
    rec = json.load(open(path if os.path.isabs(path) else os.path.join(ROOT, path)))
    if rec.get("driver") and rec.get("input") is not None:
        d = run_t2(rec["driver"], tier, seed, 30, replay=os.path.abspath(path if os.path.isabs(path) else os.path.join(ROOT, path)))
        if d.get("status") != "ok":
            print("replay: driver fault", json.dumps(d)[:500])
            return 3
        if d.get("violations"):
            print("VIOLATION property=%s replay=%s (replayed: %s)" % (prop, path, d["violations"][0]["clause"]))
            return 1
        print("replay: the recorded input no longer fails")
        return 0
    if rec.get("kind") == "t1":
        from pyvc import replay as rp
        got = rp.replay_model(dict(name=rec["obligation"], func=rec.get("function"), model=rec.get("solver_model")), REPO)
        print("replay:", json.dumps(got)[:800])
        return 1 if got.get("status") == "fails" else 0
    print("replay: nothing replayable in", path)
    return 3


def source_tree():
    """which tree the verification conditions and the drivers were built from on this run"""
    import subprocess
    def git(*a):
        try:
            return subprocess.run(["git", "-C", REPO] + list(a), capture_output=True, text=True, timeout=20).stdout.rstrip()
        except Exception:
            return None
    st = git("status", "--porcelain", "--", "labella")
    return dict(root=REPO, head=git("rev-parse", "--short", "HEAD"), working_tree_modified=bool(st),
                modified_files=[l[3:] for l in (st or "").splitlines()][:20])


def build_evidence(prop, props, tier, seed, fresults, lresults, obligations, discharged, refuted, unknown, demoted, faults,
                   t2_results, t2_faults, assumed, missing, known_hits, nviol, t0, contracts):
    reg = registry.PROPERTIES[prop]
    by_solver = {}
    for o in discharged:
        lab = re.sub(r"\(context slice:[^)]*\)", "(context slice)", o.get("solver") or "z3")
        by_solver[lab] = by_solver.get(lab, 0) + 1
    own = [o for o in obligations if o["func"] == "lemma" or prop in contracts.get(o["func"], {}).get("props", [])]
    samples = []
    for o in (refuted + unknown + discharged)[:0] + discharged[:3] + refuted[:3]:
        samples.append(dict(obligation=o["name"], kind=o["kind"], verdict=o["verdict"], solver=o.get("solver"), time_s=o.get("time")))
    t2ok = [d for d in t2_results if d.get("status") == "ok"]
    for d in t2ok:
        for s in d.get("samples", [])[:2]:
            samples.append(dict(bounded_case=s, driver=d["driver"]))
    assumptions = set()
    for r in fresults:
        assumptions.update(r.get("assumptions", []))
    model_assumptions = sorted(x for x in assumptions if not x.startswith("contract:"))
    used_contracts = sorted(x[9:] for x in assumptions if x.startswith("contract:"))
    level = reg.get("level", "other")
    all_ok = not refuted and not unknown and not demoted and not faults and not missing
    trusted = ["pyvc VC generator (this repository's /verif/pyvc; defended by selftest mutants + differential runs)",
               "z3 4.x / cvc5 as back ends",
               "CPython executes the extracted source with the semantics of DESIGN.md section 2.3 (A-DET)"] + model_assumptions
    if level == "proof" and not all_ok:
        level = "other"
    explanation = ("Contract-based deductive verification (pyvc: VCs generated from the AST of the real functions in %s, "
                   "discharged by z3/cvc5) for the functions listed under functions_under_contract; "
                   "property-level lemmas (T3) in z3. Everything listed under bounded is a BOUNDED stand-in (tier T2) "
                   "and is not counted as proved." % REPO)
    cov = dict(
        obligations=len(obligations), discharged=len(discharged),
        refuted=len(refuted), undecided=len(unknown),
        own_obligations=len(own), inherited_obligations=len(obligations) - len(own),
        checker_cmd="./check %s --tier %s" % (prop, tier),
        trusted_base=trusted,
        discharged_by_backend=by_solver,
        solver_time_s=round(sum(o.get("time") or 0 for o in obligations), 2),
        functions_under_contract=[dict(func=r["qual"], status=r["status"], fingerprint=r.get("fingerprint"), paths=r.get("paths"),
                                       obligations=len(r.get("obligations", [])), wall_s=r.get("wall"),
                                       reason=r.get("reason") or None) for r in fresults],
        lemmas=[dict(name=o["name"], verdict=o["verdict"], solver=o["solver"], time_s=o["time"]) for o in lresults],
        demoted_to_bounded=demoted,
        assumed_contracts=[dict(func=q, why=c.get("why", ""), checked_by="bounded driver(s) %s" % reg.get("t2")) for q, c in assumed.items()],
        contracts_used_at_call_sites=used_contracts,
        expected_obligations_missing=missing,
        bounded=[dict(driver=d["driver"], scope=d.get("scope"), evaluations=d.get("evaluations"),
                      distinct_nontrivial=d.get("distinct_nontrivial"), violations=d.get("violation_count"),
                      exhaustive_parts=d.get("exhaustive_parts"), notes=d.get("notes"), wall_s=d.get("wall_s")) for d in t2ok],
        evaluations=sum(d.get("evaluations", 0) for d in t2ok),
        distinct_nontrivial=sum(d.get("distinct_nontrivial", 0) for d in t2ok),
        rule="bounded part: cases enumerated/sampled by the drivers' stated scopes; non-trivial = the case exercises the "
             "property (e.g. a label moved, several layers, a rewritten character); distinct by full input identity",
        samples=samples or [dict(note="no obligations generated")],
        explanation=explanation,
        known_findings_hit=sorted(known_hits),
        closure=props,
        extraction_drops="docstrings, comments; nothing else (a construct outside the subset demotes the function to bounded)",
        source_tree=source_tree(),
    )
    return dict(property_id=prop, tier=tier, seed=seed, level=level, coverage=cov,
                assumptions=trusted + ["bounded drivers are evidence for their stated scope only"],
                wall_s=round(time.time() - t0, 2), violations=nviol)


if __name__ == "__main__":
    try:
        sys.exit(main())
    except SystemExit:
        raise
    except Exception:
        traceback.print_exc()
        sys.exit(3)
