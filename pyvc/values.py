"""Symbolic values and path state of the pyvc symbolic executor."""
import itertools
from fractions import Fraction

import z3

RefS = z3.DeclareSort("Ref")
NULL = z3.Const("null", RefS)
IntS = z3.IntSort()
RealS = z3.RealSort()
BoolS = z3.BoolSort()

_ids = itertools.count(1)


def fresh_id():
    return next(_ids)


class Unsupported(Exception):
    """A construct outside the implemented subset: the function leaves tier T1 (never a violation)."""


class SpecError(Exception):
    """A malformed contract (sidecar) — a checker fault."""


class Value(object):
    __slots__ = ()


class Num(Value):
    __slots__ = ("t", "isint")

    def __init__(self, t, isint):
        self.t = t
        self.isint = isint

    def real(self):
        return z3.ToReal(self.t) if self.isint else self.t

    def __repr__(self):
        return "Num(%s,%s)" % (self.t, "int" if self.isint else "real")


class Bool(Value):
    __slots__ = ("t",)

    def __init__(self, t):
        self.t = t

    def __repr__(self):
        return "Bool(%s)" % self.t


class NoneT(Value):
    __slots__ = ()

    def __repr__(self):
        return "None"


NONE = NoneT()


class Inf(Value):
    """math.inf (only as a divisor / comparison bound)."""
    __slots__ = ("sign",)

    def __init__(self, sign=1):
        self.sign = sign


class Str(Value):
    """Structured string: a tuple of parts. part = python str | ('chr', IntTerm) | ('fmt', spec, Num) | ('str', Value)
    | ('sym', name, args)"""
    __slots__ = ("parts",)

    def __init__(self, parts):
        out = []
        for p in parts:
            if isinstance(p, str):
                if not p:
                    continue
                if out and isinstance(out[-1], str):
                    out[-1] = out[-1] + p
                    continue
            out.append(p)
        self.parts = tuple(out)

    def concrete(self):
        if all(isinstance(p, str) for p in self.parts):
            return "".join(self.parts)
        return None

    def chars(self):
        """tuple of per-character items (python 1-char str or IntTerm) if every part has known length, else None"""
        out = []
        for p in self.parts:
            if isinstance(p, str):
                out.extend(p)
            elif p[0] == "chr":
                out.append(p[1])
            else:
                return None
        return tuple(out)

    def __repr__(self):
        return "Str(%r)" % (self.parts,)


def str_from_chars(chars):
    return Str([c if isinstance(c, str) else ("chr", c) for c in chars])


class SeqStr(Value):
    """Unbounded string as a z3 sequence of code points."""
    __slots__ = ("t",)

    def __init__(self, t):
        self.t = t


class Tup(Value):
    __slots__ = ("items",)

    def __init__(self, items):
        self.items = tuple(items)

    def __repr__(self):
        return "Tup%r" % (self.items,)


class Handle(Value):
    """Python-side mutable container with concrete identity: contents live in Path.store[id]."""
    __slots__ = ("kind", "id", "cls")

    def __init__(self, kind, id_, cls=None):
        self.kind = kind  # 'list' | 'dict' | 'obj' | 'frame'
        self.id = id_
        self.cls = cls

    def __repr__(self):
        return "Handle(%s#%d%s)" % (self.kind, self.id, ":" + str(self.cls) if self.cls else "")


class Ref(Value):
    """Object in the SMT heap (possibly null)."""
    __slots__ = ("t", "cls")

    def __init__(self, t, cls):
        self.t = t
        self.cls = cls

    def __repr__(self):
        return "Ref(%s:%s)" % (self.t, self.cls)


class SList(Value):
    """List of symbolic length in the SMT heap; ekind: 'int' | 'real' | 'bool' | 'ref:<Class>' | 'list:<ekind>'"""
    __slots__ = ("t", "ekind")

    def __init__(self, t, ekind):
        self.t = t
        self.ekind = ekind

    def __repr__(self):
        return "SList(%s:%s)" % (self.t, self.ekind)


class Func(Value):
    __slots__ = ("node", "mod", "frames", "name", "cls", "qual")

    def __init__(self, node, mod, frames, name, cls=None, qual=None):
        self.node = node
        self.mod = mod
        self.frames = frames  # tuple of frame ids (innermost last)
        self.name = name
        self.cls = cls
        self.qual = qual

    def __repr__(self):
        return "Func(%s)" % (self.qual or self.name)


class Bound(Value):
    __slots__ = ("func", "selfv")

    def __init__(self, func, selfv):
        self.func = func
        self.selfv = selfv


class ClassV(Value):
    __slots__ = ("mod", "name")

    def __init__(self, mod, name):
        self.mod = mod
        self.name = name


class Builtin(Value):
    __slots__ = ("name", "selfv")

    def __init__(self, name, selfv=None):
        self.name = name
        self.selfv = selfv

    def __repr__(self):
        return "Builtin(%s)" % self.name


class ModuleV(Value):
    __slots__ = ("name", "internal")

    def __init__(self, name, internal):
        self.name = name
        self.internal = internal


class Opaque(Value):
    """Model-specific immutable value (datetime, timedelta, ...): tag + payload tuple."""
    __slots__ = ("tag", "payload")

    def __init__(self, tag, payload):
        self.tag = tag
        self.payload = payload

    def __repr__(self):
        return "Opaque(%s,%r)" % (self.tag, self.payload)


def I(n):
    return Num(z3.IntVal(int(n)), True)


def R(x):
    if isinstance(x, float):
        x = Fraction(repr(x))
    if isinstance(x, Fraction):
        return Num(z3.RealVal(str(x.numerator)) / z3.RealVal(str(x.denominator)) if x.denominator != 1
                   else z3.RealVal(str(x.numerator)), False)
    return Num(z3.RealVal(x), False)


def B(b):
    return Bool(z3.BoolVal(bool(b)))


class Path(object):
    """One symbolic execution path. store is persistent: contents are replaced, never mutated in place."""

    def __init__(self):
        self.pc = []
        self.store = {}
        self.heap = {}
        self.written = set()
        self.old = None
        self.trace = []
        self.depth = 0
        self.ghost = {}

    def clone(self):
        p = Path()
        p.pc = list(self.pc)
        p.store = dict(self.store)
        p.heap = dict(self.heap)
        p.written = set(self.written)
        p.old = self.old
        p.trace = list(self.trace)
        p.depth = self.depth
        p.ghost = dict(self.ghost)
        p.tags = getattr(self, "tags", {})
        return p

    def assume(self, b, tag=None):
        if z3.is_true(b):
            return
        self.pc.append(b)
        if tag:
            self.tags = dict(getattr(self, "tags", {}))
            self.tags[b.get_id()] = tag

    # python-side containers
    def new(self, kind, content, cls=None):
        h = Handle(kind, fresh_id(), cls)
        self.store[h.id] = content
        return h

    def get(self, h):
        return self.store[h.id]

    def put(self, h, content):
        self.store[h.id] = content
