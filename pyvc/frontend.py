"""Mechanical extraction of the functions under contract from the CURRENT working tree of the repository.

Nothing is cached between runs: every check re-parses $LABELLA_REPO/labella/*.py.  Functions are addressed by
qualified name, never by line number:

    utils.int2name                    module-level def
    vpsc.Blocks.merge                 method
    scale.dt2milli                    module-level lambda bound to a name (possibly imported: resolved)
    d3_time.d3_time[day]#1            positional argument #1 of the d3_time_interval(...) call assigned to d3_time["day"]

What extraction drops: docstrings and comments (they are not in the AST that is executed symbolically);
nothing else.  A construct the engine does not implement makes the *function* leave tier T1 (engine.Unsupported),
it is never skipped silently.
"""
import ast
import hashlib
import os


class Repo(object):
    def __init__(self, root=None):
        self.root = root or os.environ.get("LABELLA_REPO", "/repo")
        self.mods = {}
        self.src = {}
        self.sha = {}
        pkg = os.path.join(self.root, "labella")
        for fn in sorted(os.listdir(pkg)):
            if fn.endswith(".py"):
                name = fn[:-3]
                text = open(os.path.join(pkg, fn), encoding="utf-8").read()
                self.src[name] = text
                self.sha[name] = hashlib.sha256(text.encode()).hexdigest()
                self.mods[name] = ast.parse(text, filename=fn)
        self._globals = {}

    # ---- module-level name tables -------------------------------------------------
    def globals_of(self, mod):
        """name -> ('def', node) | ('class', node) | ('assign', value_node) | ('import', module, name) | ('module', name)"""
        if mod in self._globals:
            return self._globals[mod]
        g = {}
        for st in self.mods[mod].body:
            if isinstance(st, ast.FunctionDef):
                g[st.name] = ("def", st)
            elif isinstance(st, ast.ClassDef):
                g[st.name] = ("class", st)
            elif isinstance(st, ast.Assign) and len(st.targets) == 1 and isinstance(st.targets[0], ast.Name):
                g[st.targets[0].id] = ("assign", st.value)
            elif isinstance(st, ast.ImportFrom):
                m = (st.module or "").split(".")[-1] if st.module else ""
                for a in st.names:
                    nm = a.asname or a.name
                    if st.module in (".", None) or st.level > 0 and not st.module:
                        g[nm] = ("module", a.name)
                    elif (st.module or "").startswith("labella") or st.level > 0:
                        if m in self.mods and m != "labella":
                            g[nm] = ("import", m, a.name)
                        elif a.name in self.mods:
                            g[nm] = ("module", a.name)
                        else:
                            g[nm] = ("ext", st.module, a.name)
                    else:
                        g[nm] = ("ext", st.module, a.name)
            elif isinstance(st, ast.Import):
                for a in st.names:
                    g[a.asname or a.name] = ("extmodule", a.name)
        self._globals[mod] = g
        return g

    def resolve(self, mod, name, depth=0):
        """Follow imports between repo modules. Returns (module, entry) or (None, None)."""
        g = self.globals_of(mod)
        if name not in g:
            return None, None
        e = g[name]
        if e[0] == "import" and depth < 5:
            m2, e2 = self.resolve(e[1], e[2], depth + 1)
            if e2 is not None:
                return m2, e2
        return mod, e

    # ---- function lookup ------------------------------------------------------------
    def func(self, qual):
        """Return (module, node, class_name_or_None) for a qualified name (see module docstring)."""
        mod, rest = qual.split(".", 1)
        if "[" in rest:  # d3_time[day]#1
            tab, key = rest.split("[", 1)
            key, idx = key.split("]#")
            idx = int(idx)
            for st in self.mods[mod].body:
                if (isinstance(st, ast.Assign) and isinstance(st.targets[0], ast.Subscript)
                        and isinstance(st.targets[0].value, ast.Name) and st.targets[0].value.id == tab):
                    sl = st.targets[0].slice
                    if isinstance(sl, ast.Constant) and sl.value == key and isinstance(st.value, ast.Call):
                        return mod, st.value.args[idx], None
            raise KeyError(qual)
        parts = rest.split(".")
        if len(parts) == 1:
            m, e = self.resolve(mod, parts[0])
            if e is None:
                raise KeyError(qual)
            if e[0] == "def":
                return m, e[1], None
            if e[0] == "assign" and isinstance(e[1], ast.Lambda):
                return m, e[1], None
            raise KeyError(qual + " is not a function")
        cls, meth = parts
        m, e = self.resolve(mod, cls)
        if e is None or e[0] != "class":
            raise KeyError(qual)
        for st in e[1].body:
            if isinstance(st, ast.FunctionDef) and st.name == meth:
                return m, st, cls
        raise KeyError(qual)

    def klass(self, mod, cls):
        m, e = self.resolve(mod, cls)
        if e is None or e[0] != "class":
            raise KeyError("%s.%s" % (mod, cls))
        return m, e[1]

    def method(self, mod, cls, name):
        m, c = self.klass(mod, cls)
        for st in c.body:
            if isinstance(st, ast.FunctionDef) and st.name == name:
                return m, st
        for b in c.bases:  # single inheritance inside the repo
            if isinstance(b, ast.Name):
                try:
                    return self.method(m, b.id, name)
                except KeyError:
                    pass
        raise KeyError("%s.%s.%s" % (mod, cls, name))

    def fingerprint(self, qual):
        mod, node, _ = self.func(qual)
        return hashlib.sha256(ast.dump(node).encode()).hexdigest()[:16]
