"""datetime theory (assumption A-DT).

A naive datetime is the integer number of MICROSECONDS since 1970-01-01T00:00:00 (Opaque('dt', (us,))), a timedelta
an integer number of microseconds (Opaque('td', (us,))).  Time of day is plain modular arithmetic.  The civil calendar
is AXIOMATISED, not computed: uninterpreted functions

    DAYS(y, m, d) : day number of a civil date        CY(n), CM(n), CD(n) : civil date of a day number
    DIM(y, m)     : days in month

with the facts instantiated on demand at the terms that occur (no quantifiers reach the solver):
    validity  1 <= m <= 12, 1 <= d <= DIM(y, m)          DIM by cases, leap years by the Gregorian rule
    DAYS(1970,1,1) = 0;  DAYS(y,m,d) = DAYS(y,m,1) + d - 1
    DAYS(y,m+1,1) = DAYS(y,m,1) + DIM(y,m)  (m < 12);   DAYS(y+1,1,1) = DAYS(y,12,1) + 31
    civil(DAYS(y,m,d)) = (y,m,d) for valid dates;  DAYS(civil(n)) = n and civil(n) is valid
These are exactly the properties of the proleptic Gregorian calendar that python's datetime implements
(checked against the running interpreter by selftest/conformance.py).  Time zones do not exist in this theory:
a call that would consult the local zone (timestamp(), fromtimestamp(), today(), now()) is NOT modelled, so a function
using one leaves tier T1 - which is how C18's "does not read the time zone" is decided for functions under contract.
"""
import ast

import z3

from .values import (Num, Bool, NoneT, NONE, Str, Tup, Handle, Opaque, Builtin, ClassV, I, R, B, IntS, RealS, Unsupported,
                     SpecError)
from .models import round_t

DAY_US = 86400 * 10 ** 6


def install(E):
    M = E.models
    DAYS = z3.Function("DAYS", IntS, IntS, IntS, IntS)
    CY = z3.Function("CY", IntS, IntS)
    CM = z3.Function("CM", IntS, IntS)
    CD = z3.Function("CD", IntS, IntS)
    E.dt_funcs = dict(DAYS=DAYS, CY=CY, CM=CM, CD=CD)

    def leap(y):
        return z3.And(y % 4 == 0, z3.Or(y % 100 != 0, y % 400 == 0))

    def dim(y, m):
        return z3.If(z3.Or(m == 1, m == 3, m == 5, m == 7, m == 8, m == 10, m == 12), z3.IntVal(31),
                     z3.If(m == 2, z3.If(leap(y), z3.IntVal(29), z3.IntVal(28)), z3.IntVal(30)))

    E.dt_dim = dim
    E.dt_leap = leap

    def valid(y, m, d):
        return z3.And(y >= 1, y <= 9999, m >= 1, m <= 12, d >= 1, d <= dim(y, m))

    E.dt_valid = valid

    def days_facts(P, y, m, d):
        """instances of the calendar axioms around the civil date (y, m, d)"""
        if getattr(E, "quant_depth", 0):
            return
        E.assume_used("A-DT")
        P.assume(DAYS(z3.IntVal(1970), z3.IntVal(1), z3.IntVal(1)) == 0)
        P.assume(DAYS(y, m, d) == DAYS(y, m, z3.IntVal(1)) + d - 1)
        first = DAYS(y, m, z3.IntVal(1))
        P.assume(z3.Implies(m < 12, DAYS(y, m + 1, z3.IntVal(1)) == first + dim(y, m)))
        P.assume(z3.Implies(m == 12, DAYS(y + 1, z3.IntVal(1), z3.IntVal(1)) == first + 31))
        P.assume(z3.Implies(m > 1, first == DAYS(y, m - 1, z3.IntVal(1)) + dim(y, m - 1)))
        P.assume(z3.Implies(m == 1, first == DAYS(y - 1, z3.IntVal(12), z3.IntVal(1)) + 31))
        # year length, both directions (for the year unit)
        P.assume(DAYS(y + 1, z3.IntVal(1), z3.IntVal(1)) == DAYS(y, z3.IntVal(1), z3.IntVal(1)) + z3.If(leap(y), 366, 365))
        P.assume(z3.Implies(valid(y, m, d), z3.And(CY(DAYS(y, m, d)) == y, CM(DAYS(y, m, d)) == m, CD(DAYS(y, m, d)) == d)))
        P.assume(z3.Implies(valid(y, m, z3.IntVal(1)), z3.And(CY(first) == y, CM(first) == m, CD(first) == 1)))
        # position of the month's first day inside the year: Jan 1 + days of the earlier months (linear in DIM)
        jan1 = DAYS(y, z3.IntVal(1), z3.IntVal(1))
        acc = z3.IntVal(0)
        for mm in range(1, 12):
            acc = acc + dim(y, z3.IntVal(mm))
            P.assume(DAYS(y, z3.IntVal(mm + 1), z3.IntVal(1)) == jan1 + acc)

    def civil_facts(P, n):
        """the civil date of day number n is valid and maps back to n"""
        E.assume_used("A-DT")
        if getattr(E, "quant_depth", 0):
            return
        y, m, d = CY(n), CM(n), CD(n)
        key = ("civil", str(n))
        if key in P.ghost:
            return
        P.ghost[key] = True
        P.assume(valid(y, m, d))
        P.assume(DAYS(y, m, d) == n)
        days_facts(P, y, m, d)
        one = z3.IntVal(1)
        # the neighbouring days: instances of the same axioms at the successor / predecessor civil dates, so that
        # civil(n + 1) and civil(n - 1) are determined (the code steps over day, month and year ends)
        days_facts(P, y, m, d + 1)
        days_facts(P, y, m + 1, one)
        days_facts(P, y + 1, one, one)
        days_facts(P, y, m, d - 1)
        days_facts(P, y, m - 1, dim(y, m - 1))
        days_facts(P, y - 1, z3.IntVal(12), z3.IntVal(31))
        for nn in (n + 1, n - 1):
            P.assume(valid(CY(nn), CM(nn), CD(nn)))
            P.assume(DAYS(CY(nn), CM(nn), CD(nn)) == nn)

    E.dt_days_facts = days_facts
    E.dt_civil_facts = civil_facts

    def mkdt(us):
        return Opaque("dt", (us,))

    def mktd(us):
        return Opaque("td", (us,))

    E.mkdt = mkdt
    E.mktd = mktd

    def dn_of(us):
        return us / DAY_US          # z3 integer division: floor for the positive divisor

    def tod_of(us):
        return us % DAY_US

    E.dt_dn = dn_of
    E.dt_tod = tod_of

    def intarg(v, what):
        if not (isinstance(v, Num) and v.isint):
            raise Unsupported("%s must be an int, got %r" % (what, v))
        return v.t

    # ------------------------------------------------------------------ constructors
    def _datetime(E, P, ctx, y, m, d, hh=None, mi=None, ss=None, us=None):
        y, m, d = intarg(y, "year"), intarg(m, "month"), intarg(d, "day")
        if not ctx.spec:
            E.oblige(P, "safe.datetime_valid#%d" % E.site(), valid(y, m, d), "safe")
        days_facts(P, y, m, d)
        t = DAYS(y, m, d) * DAY_US
        for v, mult, lim in ((hh, 3600 * 10 ** 6, 24), (mi, 60 * 10 ** 6, 60), (ss, 10 ** 6, 60), (us, 1, 10 ** 6)):
            if v is not None:
                x = intarg(v, "time field")
                if not ctx.spec:
                    E.oblige(P, "safe.datetime_field#%d" % E.site(), z3.And(x >= 0, x < lim), "safe")
                t = t + x * mult
        return [(P, mkdt(t))]

    M["datetime.datetime"] = _datetime
    E.ext_values["datetime.datetime"] = Builtin("datetime.datetime")

    def _timedelta(E, P, ctx, days=None, seconds=None, microseconds=None, milliseconds=None, minutes=None, hours=None, weeks=None):
        total = z3.RealVal(0)
        allint = True
        for v, mult in ((days, DAY_US), (seconds, 10 ** 6), (microseconds, 1), (milliseconds, 1000), (minutes, 60 * 10 ** 6),
                        (hours, 3600 * 10 ** 6), (weeks, 7 * DAY_US)):
            if v is None:
                continue
            v = E.num(v)
            E.need_num(v)
            if not v.isint:
                allint = False
            total = total + v.real() * mult
        if allint:
            return [(P, mktd(z3.ToInt(total)))]
        # a float argument is rounded to the nearest microsecond (ties to even), as CPython does
        return [(P, mktd(round_t(total)))]

    M["datetime.timedelta"] = _timedelta
    E.ext_values["datetime.timedelta"] = Builtin("datetime.timedelta")

    def _deepcopy(E, P, ctx, x):
        if isinstance(x, Opaque) and x.tag in ("dt", "td"):
            return [(P, x)]
        raise Unsupported("deepcopy(%r)" % (x,))

    M["copy.deepcopy"] = _deepcopy
    E.ext_values["copy.deepcopy"] = Builtin("copy.deepcopy")

    # ------------------------------------------------------------------ operators
    def dt_binop(E, P, ctx, op, a, b):
        ta = a.tag if isinstance(a, Opaque) else None
        tb = b.tag if isinstance(b, Opaque) else None
        if ta not in ("dt", "td") and tb not in ("dt", "td"):
            return None
        if isinstance(op, ast.Add):
            if ta == "dt" and tb == "td":
                return [(P, mkdt(a.payload[0] + b.payload[0]))]
            if ta == "td" and tb == "dt":
                return [(P, mkdt(a.payload[0] + b.payload[0]))]
            if ta == "td" and tb == "td":
                return [(P, mktd(a.payload[0] + b.payload[0]))]
        if isinstance(op, ast.Sub):
            if ta == "dt" and tb == "td":
                return [(P, mkdt(a.payload[0] - b.payload[0]))]
            if ta == "dt" and tb == "dt":
                return [(P, mktd(a.payload[0] - b.payload[0]))]
            if ta == "td" and tb == "td":
                return [(P, mktd(a.payload[0] - b.payload[0]))]
        if isinstance(op, ast.Div) and ta == "td" and tb == "td":
            if not ctx.spec:
                E.oblige(P, "safe.div#%d" % E.site(), b.payload[0] != 0, "safe")
            return [(P, Num(z3.ToReal(a.payload[0]) / z3.ToReal(b.payload[0]), False))]
        if isinstance(op, ast.Mult) and ta == "td" and isinstance(b, Num) and b.isint:
            return [(P, mktd(a.payload[0] * b.t))]
        if isinstance(op, ast.Mult) and tb == "td" and isinstance(a, Num) and a.isint:
            return [(P, mktd(b.payload[0] * a.t))]
        raise Unsupported("datetime arithmetic %s on %r, %r" % (type(op).__name__, a, b))

    M["dt.binop"] = dt_binop

    def dt_compare(E, P, ctx, op, a, b):
        if not (isinstance(a, Opaque) and isinstance(b, Opaque) and a.tag == b.tag and a.tag in ("dt", "td")):
            return None
        x, y = a.payload[0], b.payload[0]
        if isinstance(op, ast.Lt):
            return x < y
        if isinstance(op, ast.LtE):
            return x <= y
        if isinstance(op, ast.Gt):
            return x > y
        if isinstance(op, ast.GtE):
            return x >= y
        return None

    M["dt.compare"] = dt_compare

    def dt_equal(E, P, a, b):
        if a.tag == b.tag and a.tag in ("dt", "td"):
            return a.payload[0] == b.payload[0]
        return None

    M["dt.equal"] = dt_equal

    def dt_minmax(E, P, ctx, vals, ismin):
        if not all(isinstance(v, Opaque) and v.tag == "dt" for v in vals):
            raise Unsupported("min/max of mixed values")
        cur = vals[0].payload[0]
        for v in vals[1:]:
            cur = z3.If((v.payload[0] < cur) if ismin else (v.payload[0] > cur), v.payload[0], cur)
        return [(P, mkdt(cur))]

    M["opaque.minmax"] = dt_minmax

    def dt_isinstance(E, x, name):
        if name in ("datetime.datetime", "datetime.date"):
            return isinstance(x, Opaque) and x.tag == "dt"     # A-LIB: datetime is a subclass of date
        if name == "datetime.time":
            return isinstance(x, Opaque) and x.tag == "time"
        return None

    M["dt.isinstance"] = dt_isinstance

    # ------------------------------------------------------------------ attributes & methods (through engine.getattr hook)
    def dt_attr(E, P, ctx, x, attr):
        us = x.payload[0]
        if x.tag == "dt":
            n = dn_of(us)
            tod = tod_of(us)
            if attr in ("year", "month", "day"):
                civil_facts(P, n)
                return Num({"year": CY, "month": CM, "day": CD}[attr](n), True)
            if attr == "hour":
                return Num(tod / (3600 * 10 ** 6), True)
            if attr == "minute":
                return Num((tod / (60 * 10 ** 6)) % 60, True)
            if attr == "second":
                return Num((tod / 10 ** 6) % 60, True)
            if attr == "microsecond":
                return Num(tod % 10 ** 6, True)
        if x.tag == "td":
            if attr == "days":
                return Num(us / DAY_US, True)
        return None

    E.dt_attr = dt_attr

    def _replace(E, P, ctx, x, year=None, month=None, day=None, hour=None, minute=None, second=None, microsecond=None):
        if not (isinstance(x, Opaque) and x.tag == "dt"):
            raise Unsupported("replace on %r" % (x,))
        if any(v is not None for v in (hour, minute, second, microsecond)):
            raise Unsupported("replace of time fields")
        us = x.payload[0]
        n = dn_of(us)
        civil_facts(P, n)
        y = intarg(year, "year") if year is not None else CY(n)
        m = intarg(month, "month") if month is not None else CM(n)
        d = intarg(day, "day") if day is not None else CD(n)
        if not ctx.spec:
            E.oblige(P, "safe.replace_valid#%d" % E.site(), valid(y, m, d), "safe")
        days_facts(P, y, m, d)
        return [(P, mkdt(DAYS(y, m, d) * DAY_US + tod_of(us)))]

    M["method.replace"] = _replace

    def _isoweekday(E, P, ctx, x):
        if not (isinstance(x, Opaque) and x.tag == "dt"):
            raise Unsupported("isoweekday on %r" % (x,))
        n = dn_of(x.payload[0])
        return [(P, Num((n + 3) % 7 + 1, True))]     # 1970-01-01 (day 0) was a Thursday = 4

    M["method.isoweekday"] = _isoweekday

    def _total_seconds(E, P, ctx, x):
        if not (isinstance(x, Opaque) and x.tag == "td"):
            raise Unsupported("total_seconds on %r" % (x,))
        return [(P, Num(z3.ToReal(x.payload[0]) / 10 ** 6, False))]

    M["method.total_seconds"] = _total_seconds
