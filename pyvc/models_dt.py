"""datetime theory (assumption A-DT) — installed into the engine's model table."""


def install(E):
    pass
