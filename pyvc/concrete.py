"""Concrete evaluator of contract text (runs under /venv/bin/python, stdlib only).

stdin: {"qual": "utils.hex2rgb", "args": {...}, "requires": [src...], "ensures": [[name, src]...]}
stdout (last line): {"status": "holds"|"fails"|"pre-false"|"raises", "observed": ...}
`old(e)` is evaluated in the argument environment captured before the call.
"""
import ast
import copy
import importlib
import json
import os
import sys

sys.path.insert(0, os.environ.get("LABELLA_REPO", "/repo"))


def hexvalue(s):
    c = s[0] if s else "\0"
    return int(c, 16) if c in "0123456789abcdefABCDEF" else -1


def hexdigit(s):
    return all(c in "0123456789abcdefABCDEF" for c in s)


def upperhex(s):
    return all(c in "0123456789ABCDEF" for c in s)


def letters(s):
    return all("A" <= c <= "Z" for c in s)


def pow26(n):
    return 26 ** n


def bval(s):
    v = 0
    for c in s:
        v = v * 26 + (ord(c) - 64)
    return v


def val26(d, s):
    return d * 26 ** len(s) + bval(s)


def implies(a, b):
    return (not a) or bool(b)


def iff(a, b):
    return bool(a) == bool(b)


def is_int(x):
    return isinstance(x, int) and not isinstance(x, bool)


def to_real(x):
    return float(x)


import datetime as _dtm

_EPOCH = _dtm.datetime(1970, 1, 1)


def us(t):
    d = t - _EPOCH
    return (d.days * 86400 + d.seconds) * 10 ** 6 + d.microseconds


def _us_of(y, m, d):
    return us(_dtm.datetime(y, m, d))


def year_start(t):
    return _us_of(t.year, 1, 1)


def year_len(t):
    return _us_of(t.year + 1, 1, 1) - _us_of(t.year, 1, 1)


def month_start(t):
    return _us_of(t.year, t.month, 1)


def month_len(t):
    y, m = (t.year + 1, 1) if t.month == 12 else (t.year, t.month + 1)
    return _us_of(y, m, 1) - _us_of(t.year, t.month, 1)


def month_index(t):
    return 12 * t.year + t.month - 1


def civil_year(t):
    return t.year


def is_month_start(t):
    return t.day == 1 and (t.hour, t.minute, t.second, t.microsecond) == (0, 0, 0, 0)


def is_year_start(t):
    return t.month == 1 and is_month_start(t)


def in_range_years(t):
    return 1900 <= t.year <= 2200


def dayofyear(t):
    return (_dtm.datetime(t.year, t.month, t.day) - _dtm.datetime(t.year, 1, 1)).days


def weekno(t):
    jan1 = (_dtm.datetime(t.year, 1, 1) - _EPOCH).days
    return (dayofyear(t) + (jan1 + 4) % 7) // 7 - 1


def _decode(x):
    if isinstance(x, dict) and "$dt_us" in x:
        return _EPOCH + _dtm.timedelta(microseconds=x["$dt_us"])
    return x


SPEC = dict(us=us, year_start=year_start, year_len=year_len, month_start=month_start, month_len=month_len,
            month_index=month_index, civil_year=civil_year, is_month_start=is_month_start, is_year_start=is_year_start,
            in_range_years=in_range_years, dayofyear=dayofyear, weekno=weekno)
SPEC.update(hexvalue=hexvalue, hexdigit=hexdigit, upperhex=upperhex, letters=letters, pow26=pow26, bval=bval, val26=val26,
            implies=implies, iff=iff, is_int=is_int, to_real=to_real)


class OldRewriter(ast.NodeTransformer):
    def visit_Call(self, node):
        self.generic_visit(node)
        if isinstance(node.func, ast.Name) and node.func.id == "old":
            # old(e) -> __old__(lambda: e) evaluated in the pre-state environment
            return ast.Call(func=ast.Name(id="__old__", ctx=ast.Load()),
                            args=[ast.Constant(value=ast.unparse(node.args[0]))], keywords=[])
        return node


def evaluate(src, env, env0):
    tree = OldRewriter().visit(ast.parse(src.strip(), mode="eval"))
    ast.fix_missing_locations(tree)
    g = dict(SPEC)
    g.update(env)
    g["__old__"] = lambda s: eval(compile(ast.parse(s, mode="eval"), "<old>", "eval"), dict(SPEC, **env0))
    return eval(compile(tree, "<contract>", "eval"), g)


def resolve(qual):
    parts = qual.split(".")
    mod = importlib.import_module("labella." + parts[0])
    obj = mod
    for p in parts[1:]:
        obj = getattr(obj, p)
    return obj


def main():
    job = json.load(sys.stdin)
    fn = resolve(job["qual"])
    args = {k: _decode(v) for k, v in job["args"].items()}
    env0 = copy.deepcopy(args)
    try:
        for src in job.get("requires", []):
            if not evaluate(src, dict(args), env0):
                print(json.dumps(dict(status="pre-false", observed=src)))
                return
    except Exception as ex:
        print(json.dumps(dict(status="pre-false", observed="precondition not evaluable: %r" % (ex,))))
        return
    try:
        result = fn(**args)
    except Exception as ex:
        print(json.dumps(dict(status="fails", observed="raises %s: %s" % (type(ex).__name__, ex), clause="noraise")))
        return
    env = dict(args)
    env["result"] = result
    failed = []
    for name, src in job.get("ensures", []):
        try:
            ok = bool(evaluate(src, env, env0))
        except Exception as ex:
            failed.append([name, "not evaluable: %r" % (ex,)])
            continue
        if not ok:
            failed.append([name, src])
    if failed:
        print(json.dumps(dict(status="fails", observed=dict(result=repr(result), failed_clauses=failed))))
    else:
        print(json.dumps(dict(status="holds", observed=dict(result=repr(result)))))


if __name__ == "__main__":
    main()
