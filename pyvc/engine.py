"""pyvc — verification-condition generation for a Python subset by path-splitting symbolic execution.

The executor walks the AST of the REAL functions (frontend.Repo) and produces *obligations*
(name, assumptions, goal).  Callers are checked against callee CONTRACTS (sidecar, contracts/*.py), loops are
cut at INVARIANTS.  One evaluator serves code and contract expressions (contract text is Python expression
source): in `spec` mode boolean operators / conditional expressions become z3 terms instead of forking paths.

Python semantics assumed by the encoding are listed in DESIGN.md section 2.3 (A-REAL, A-ROUND, A-LIB, ...).
"""
import ast
import math
from fractions import Fraction

import z3

from .values import *  # noqa: F401,F403
from .values import (Num, Bool, NoneT, NONE, Inf, Str, SeqStr, Tup, Handle, Ref, SList, Func, Bound, ClassV, Builtin,
                     ModuleV, Opaque, Path, I, R, B, RefS, NULL, IntS, RealS, BoolS, Unsupported, SpecError,
                     fresh_id, str_from_chars)

MAXSIZE = 2 ** 63 - 1
MAX_INLINE_DEPTH = 12
MAX_UNROLL = 64


class Ctx(object):
    __slots__ = ("mod", "frames", "spec", "fname")

    def __init__(self, mod, frames, spec=False, fname="?"):
        self.mod = mod
        self.frames = frames
        self.spec = spec
        self.fname = fname

    def child(self, frame):
        return Ctx(self.mod, self.frames + (frame,), self.spec, self.fname)

    def asspec(self, spec=True):
        return Ctx(self.mod, self.frames, spec, self.fname)


class Obligation(object):
    __slots__ = ("name", "pc", "goal", "kind", "info")

    def __init__(self, name, pc, goal, kind, info=None):
        self.name = name
        self.pc = pc
        self.goal = goal
        self.kind = kind
        self.info = info or {}


def assigned_names(node):
    """Names bound in a function body (not descending into nested defs/lambdas/comprehensions)."""
    out = set()
    nl = set()

    def targets(t):
        if isinstance(t, ast.Name):
            out.add(t.id)
        elif isinstance(t, (ast.Tuple, ast.List)):
            for x in t.elts:
                targets(x)
        elif isinstance(t, ast.Starred):
            targets(t.value)

    def walk(stmts):
        for st in stmts:
            if isinstance(st, (ast.FunctionDef, ast.ClassDef)):
                out.add(st.name)
                continue
            if isinstance(st, ast.Assign):
                for t in st.targets:
                    targets(t)
            elif isinstance(st, (ast.AugAssign, ast.AnnAssign)):
                targets(st.target)
            elif isinstance(st, ast.For):
                targets(st.target)
                walk(st.body)
                walk(st.orelse)
            elif isinstance(st, (ast.While, ast.If)):
                walk(st.body)
                walk(st.orelse)
            elif isinstance(st, ast.With):
                for it in st.items:
                    if it.optional_vars is not None:
                        targets(it.optional_vars)
                walk(st.body)
            elif isinstance(st, ast.Try):
                walk(st.body)
                for h in st.handlers:
                    if h.name:
                        out.add(h.name)
                    walk(h.body)
                walk(st.orelse)
                walk(st.finalbody)
            elif isinstance(st, (ast.Nonlocal, ast.Global)):
                nl.update(st.names)
            elif isinstance(st, (ast.Import, ast.ImportFrom)):
                for a in st.names:
                    out.add((a.asname or a.name).split(".")[0])

    if isinstance(node, ast.Lambda):
        return set(), set()
    walk(node.body)
    return out - nl, nl


def loop_assigned(stmts):
    """Local names a loop body may assign (for havoc at a loop head)."""
    fake = ast.FunctionDef(name="_", args=None, body=stmts, decorator_list=[])
    a, nl = assigned_names(fake)
    return a | nl


class Engine(object):
    def __init__(self, repo, types=None, contracts=None, specfuns=None):
        self.repo = repo
        self.types = types or {}          # class -> {field: kind}
        self.contracts = contracts or {}  # qual -> contract dict
        self.specfuns = specfuns or {}    # name -> python callable(engine, P, ctx, *values) -> Value
        self.obligations = []
        self.func_stack = []
        self.current = None
        self.notes = []
        self.uf = {}
        self.touched = set()
        self.active_case = None
        # static ordinals of loops / assignment sites / expression statements, keyed by id(AST node).  Per ENGINE (not per
        # class): a pool worker verifies many functions one after another, and the id of a collected node of an earlier
        # function can be reused by an unrelated node of a later one (observed: an Attribute-target assignment picked up a
        # stale ordinal).  The nodes are kept alive in self._keep for the life of the engine.
        self._loop_ord = {}
        self._assign_ord = {}
        self._expr_ord = {}
        self._keep = []
        import os as _os
        self.debug = bool(_os.environ.get("PYVC_DEBUG"))
        self.loop_counter = {}
        self.ghost_track = set(k for k, v in self.types.items() if v.get("$ghost_lastpos"))
        self.used_assumptions = set()
        self.feas_checks = 0
        self._solver = z3.Solver()
        self._solver.set("timeout", 250)
        self.models = {}
        from . import models
        models.install(self)

    # ------------------------------------------------------------------ utilities
    def fresh(self, name, sort):
        return z3.Const("%s!%d" % (name, fresh_id()), sort)

    def sym(self, name, kind):
        """Fresh symbolic value of a declared kind."""
        if kind == "int":
            return Num(self.fresh(name, IntS), True)
        if kind == "real":
            return Num(self.fresh(name, RealS), False)
        if kind == "bool":
            return Bool(self.fresh(name, BoolS))
        if kind.startswith("ref:"):
            return Ref(self.fresh(name, RefS), kind[4:].split("@")[0])
        if kind.startswith("slist:"):
            return SList(self.fresh(name, RefS), kind[6:])
        if kind.startswith("str:"):
            n = int(kind[4:])
            return str_from_chars([self.fresh("%s_c%d" % (name, k), IntS) for k in range(n)])
        if kind == "seqstr":
            return SeqStr(self.fresh(name, z3.SeqSort(IntS)))
        if kind == "char":
            return Str([("chr", self.fresh(name, IntS))])
        if kind == "astr":       # a string about which nothing is known (an accumulator cut at a loop head)
            return Str([("sym", "%s!%d" % (name, fresh_id()), ())])
        if kind == "dt":
            return Opaque("dt", (self.fresh(name + "_us", IntS),))
        if kind == "td":
            return Opaque("td", (self.fresh(name + "_us", IntS),))
        raise SpecError("unknown kind %r" % kind)

    def sort_of_kind(self, kind):
        kind = kind.rstrip("?")
        if kind == "int":
            return IntS
        if kind == "real":
            return RealS
        if kind == "bool":
            return BoolS
        if kind.startswith("ref:") or kind.startswith("slist:") or kind == "ref":
            return RefS
        if kind in ("dt", "td", "char"):
            return IntS
        raise SpecError("no SMT sort for kind %r" % kind)

    def wrap(self, term, kind):
        if kind == "int":
            return Num(term, True)
        if kind == "real":
            return Num(term, False)
        if kind == "bool":
            return Bool(term)
        if kind.startswith("ref:"):
            return Ref(term, kind[4:].split("@")[0])
        if kind.startswith("slist:"):
            return SList(term, kind[6:])
        if kind in ("dt", "td"):
            return Opaque(kind, (term,))
        if kind == "char":
            return Str([("chr", term)])
        raise SpecError("cannot wrap kind %r" % kind)

    def unwrap(self, v, kind, P=None):
        """SMT term of value v coerced to a declared kind."""
        if kind == "real":
            if isinstance(v, Num):
                return v.real()
            if isinstance(v, Bool):
                return z3.If(v.t, z3.RealVal(1), z3.RealVal(0))
        elif kind == "int":
            if isinstance(v, Num) and v.isint:
                return v.t
            if isinstance(v, Bool):
                return z3.If(v.t, z3.IntVal(1), z3.IntVal(0))
        elif kind == "bool":
            if isinstance(v, Bool):
                return v.t
        elif kind.startswith("ref:") or kind.startswith("slist:"):
            if isinstance(v, NoneT):
                return NULL
            if isinstance(v, SList) and kind.startswith("slist:") and v.ekind != kind[6:]:
                # lists are partitioned by declared role (e.g. Block.vars vs Solver.vs): a list never changes role
                raise Unsupported("list of role %s stored where role %s is declared" % (v.ekind, kind[6:]))
            if isinstance(v, (Ref, SList)):
                return v.t
            if isinstance(v, Handle) and v.kind == "list" and kind.startswith("slist:") and P is not None and len(P.get(v)) == 0:
                return self.new_slist(P, kind[6:], "empty").t
        elif kind in ("dt", "td"):
            if isinstance(v, Opaque) and v.tag == kind:
                return v.payload[0]
        elif kind == "char":
            if isinstance(v, Str):
                cs = v.chars()
                if cs is not None and len(cs) == 1:
                    return z3.IntVal(ord(cs[0])) if isinstance(cs[0], str) else cs[0]
        raise Unsupported("value %r does not fit kind %s" % (v, kind))

    def note(self, s):
        if s not in self.notes:
            self.notes.append(s)

    def assume_used(self, tag):
        self.used_assumptions.add(tag)

    # ------------------------------------------------------------------ obligations
    def oblige(self, P, name, goal, kind="assert", info=None):
        """Record goal as an obligation under the path condition, then assume it on the path."""
        goal = z3.simplify(goal) if not isinstance(goal, bool) else z3.BoolVal(goal)
        full = "%s/%s" % (self.current or "?", name)
        if z3.is_true(goal):
            self.obligations.append(Obligation(full, [], z3.BoolVal(True), kind, dict(info or {}, trivial=True)))
            return
        pc = list(P.pc)
        ex = getattr(self, "_exclude_tags", None)
        if ex:
            tags = getattr(P, "tags", {})
            pc = [c for c in pc if tags.get(c.get_id()) not in ex]     # dropping hypotheses only weakens the premises
        self.obligations.append(Obligation(full, pc, goal, kind, info))
        P.assume(goal)

    def prove_spec(self, P, name, src, sctx, kind):
        """Obligation for a contract expression, then ASSUME the expression on P.
        A top-level forall(...) / implies(...) is proved in skolemised form on a scratch copy of the path (fresh constants:
        facts the models add about sub-terms - quotient lemmas, pow10 laws - then speak about the very constants of the goal);
        what is assumed afterwards on P is the original, still quantified, formula."""
        node = self.parse(src) if isinstance(src, str) else src
        con = self.contracts.get(self.current) or {}
        short = name.split(".")[-1]
        self._exclude_tags = set(con.get("without", {}).get(short, ())) or None
        tag = con.get("tag", {}).get(short)
        try:
            if self._is_spec_call(node, "forall") or self._is_spec_call(node, "implies"):
                self._prove_skolem(P.clone(), name, node, sctx, kind)
                for (p, v) in self.ev(node, P, sctx):
                    P.assume(self.truth(v, P), tag)
                return
            for (p, v) in self.ev(node, P, sctx):
                self.oblige(P, name, self.truth(v, P), kind)
            return
        finally:
            self._exclude_tags = None
    @staticmethod
    def _is_spec_call(node, fname):
        return (isinstance(node, ast.Call) and isinstance(node.func, ast.Name) and node.func.id == fname and node.args
                and (fname != "forall" or isinstance(node.args[0], ast.Lambda)) and (fname != "implies" or len(node.args) == 2))

    def _prove_skolem(self, Q, name, node, sctx, kind):
        if self._is_spec_call(node, "forall"):
            lam = node.args[0]
            kinds = [a.value for a in node.args[1:]]
            names = [a.arg for a in lam.args.args]
            while len(kinds) < len(names):
                kinds.append("int")
            bound = [self.sym("sk_" + n, k) for n, k in zip(names, kinds)]
            fr = self.new_frame(Q, dict(zip(names, bound)))
            return self._prove_skolem(Q, name, lam.body, sctx.child(fr), kind)
        if self._is_spec_call(node, "implies"):
            res = self.ev(node.args[0], Q, sctx)
            if len(res) == 1:
                hyp = self.truth(res[0][1], Q)
                if z3.is_false(z3.simplify(hyp)):
                    self.oblige(Q, name, z3.BoolVal(True), kind)
                    return
                Q.assume(hyp)
                return self._prove_skolem(Q, name, node.args[1], sctx, kind)
        if isinstance(node, ast.BoolOp) and isinstance(node.op, ast.And) and len(node.values) > 1:
            # a conjunction is proved conjunct by conjunct (each later one may use the earlier ones)
            for k, sub in enumerate(node.values):
                self._prove_skolem(Q, "%s.%d" % (name, k) if k else name, sub, sctx, kind)
            return
        splits = getattr(self, "_splits", None) or []
        for (p, v) in self.ev(node, Q, sctx):
            goal = self.truth(v, Q)
            if not splits:
                self.oblige(Q, name, goal, kind)
                continue
            # case-split hints of the contract: the goal is proved once under each case (c, then not c); the cases are
            # exhaustive by construction.  z3 decides each case at once where the undivided goal came back `unknown`.
            conds = []
            for src in splits:
                try:
                    r = self.ev(self.parse(src), Q, sctx)
                    conds.append(self.truth(r[0][1], Q))
                except (Unsupported, SpecError):
                    pass
            if not conds:
                self.oblige(Q, name, goal, kind)
                continue
            c = conds[0]
            for tag, cond in (("case", c), ("else", z3.Not(c))):
                R = Q.clone()
                R.assume(cond)
                self.oblige(R, "%s.%s" % (name, tag), goal, kind)

    def ghost_index(self, P, lst, key, name):
        """Ghost inverse index of an INJECTIVE list: after proving that the elements of lst are pairwise distinct,
        introduce a ghost field `key` (class.$name) with key[lst[k]] == k.  Such an assignment exists exactly because
        the list is injective; no program value depends on it."""
        n = self.l_len(P, lst)
        el = self.l_elems(P, lst)
        a = self.fresh("gi_a", IntS)
        b = self.fresh("gi_b", IntS)
        Q = P.clone()
        Q.assume(z3.And(0 <= a, a < b, b < n))
        self.oblige(Q, "ghost.%s.distinct" % name, z3.Select(el, a) != z3.Select(el, b), "ghost")
        arr = self.fresh("H_" + key, z3.ArraySort(RefS, IntS))
        k = z3.Const("k!gi", IntS)
        P.assume(z3.ForAll([k], z3.Implies(z3.And(0 <= k, k < n), z3.Select(arr, z3.Select(el, k)) == k),
                           patterns=[z3.Select(el, k)]))
        P.heap[key] = arr

    def fail(self, P, name, detail=""):
        """A path that must not be feasible (Python would raise here)."""
        self.oblige(P, name, z3.BoolVal(False), "safe", {"detail": detail})
        return []

    def feasible(self, P, extra=None):
        """Cheap feasibility test of a path (unknown counts as feasible)."""
        self.feas_checks += 1
        s = self._solver
        s.push()
        try:
            for c in P.pc:
                s.add(c)
            if extra is not None:
                s.add(extra)
            r = s.check()
        finally:
            s.pop()
        return r != z3.unsat

    # ------------------------------------------------------------------ heap
    def field_kind(self, cls, field):
        t = self.types.get(cls)
        if t is None or field not in t:
            raise Unsupported("no declared type for field %s.%s" % (cls, field))
        return t[field]

    def heap_array(self, P, key, sort):
        if key not in P.heap:
            P.heap[key] = z3.Const("H_%s@0" % key, z3.ArraySort(RefS, sort))
        return P.heap[key]

    def hread(self, P, ref, cls, field, spec=True):
        kind = self.field_kind(cls, field)
        if kind.startswith("py"):
            raise Unsupported("python-side field %s.%s read through a symbolic reference" % (cls, field))
        if kind.endswith("?"):
            kind = kind[:-1]
            if not spec:
                flag = self.heap_array(P, "%s.%s$set" % (cls, field), BoolS)
                self.oblige(P, "safe.unset.%s#%d" % (field, self.site()), z3.Select(flag, ref), "safe")
        arr = self.heap_array(P, "%s.%s" % (cls, field), self.sort_of_kind(kind))
        return self.wrap(self.sel(arr, ref), kind)

    def hwrite(self, P, ref, cls, field, v):
        kind = self.field_kind(cls, field)
        key = "%s.%s" % (cls, field)
        if kind.endswith("?"):
            kind = kind[:-1]
            fk = key + "$set"
            flag = self.heap_array(P, fk, BoolS)
            P.heap[fk] = z3.Store(flag, ref, z3.BoolVal(not isinstance(v, NoneT)))
            P.written.add(fk)
            if isinstance(v, NoneT):
                return
        arr = self.heap_array(P, key, self.sort_of_kind(kind))
        P.heap[key] = z3.Store(arr, ref, self.unwrap(v, kind, P))
        P.written.add(key)

    _type_ids = {}

    def type_id(self, cls):
        if cls not in self._type_ids:
            self._type_ids[cls] = len(self._type_ids) + 1
        return self._type_ids[cls]

    def type_is(self, P, term, cls):
        return z3.Select(self.heap_array(P, "$type", IntS), term) == self.type_id(cls)

    def alloc_arr(self, P):
        return self.heap_array(P, "$alloc", BoolS)

    def alloc(self, P, name, cls):
        r = self.fresh(name, RefS)
        Engine._fresh_refs.add(r.get_id())
        a = self.alloc_arr(P)
        P.assume(r != NULL)
        P.assume(z3.Not(z3.Select(a, r)))
        P.heap["$alloc"] = z3.Store(a, r, z3.BoolVal(True))
        t = self.heap_array(P, "$type", IntS)
        P.heap["$type"] = z3.Store(t, r, z3.IntVal(self.type_id(cls)))
        return r

    def assume_allocated(self, P, term):
        P.assume(z3.Or(term == NULL, z3.Select(self.alloc_arr(P), term)))

    def wf_axioms(self, P, only=None):
        """Heap well-formedness: allocated objects only point to allocated objects (or null).
        `only`: restrict to the given heap keys (the arrays that were just havoced); the axioms of the untouched arrays
        are already on the path."""
        a = self.alloc_arr(P)
        o = z3.Const("o!wf", RefS)
        i = z3.Const("i!wf", IntS)
        for cls, fields in self.types.items():
            for f, kind in fields.items():
                if f.startswith("$"):
                    continue
                if only is not None and "%s.%s" % (cls, f) not in only:
                    continue
                if kind.startswith("ref:") or kind.startswith("slist:"):
                    arr = self.heap_array(P, "%s.%s" % (cls, f), RefS)
                    tgt = z3.Select(arr, o)
                    tcls = kind[4:] if kind.startswith("ref:") else "list"
                    P.assume(z3.ForAll([o], z3.Implies(z3.And(z3.Select(a, o), self.type_is(P, o, cls)),
                                                       z3.Or(tgt == NULL, z3.And(z3.Select(a, tgt), self.type_is(P, tgt, tcls)))),
                                       patterns=[z3.Select(arr, o)]))
        for ek in self.list_ekinds(P):
            if only is not None and ("list.elems.%s" % self.ekey(ek)) not in only and self.lenkey(ek) not in only:
                continue
            if ek.startswith("ref:") or ek.startswith("slist:"):
                el = self.heap_array(P, "list.elems.%s" % self.ekey(ek), z3.ArraySort(IntS, RefS))
                ln = self.heap_array(P, self.lenkey(ek), IntS)
                tgt = z3.Select(z3.Select(el, o), i)
                tcls = ek.split(":", 1)[1].split("@")[0] if ek.startswith("ref:") else "list"
                P.assume(z3.ForAll([o, i], z3.Implies(z3.And(z3.Select(a, o), 0 <= i, i < z3.Select(ln, o)),
                                                      z3.Or(tgt == NULL, z3.And(z3.Select(a, tgt), self.type_is(P, tgt, tcls)))),
                                   patterns=[tgt]))
        for ek in self.list_ekinds(P):
            if only is not None and self.lenkey(ek) not in only:
                continue
            ln = self.heap_array(P, self.lenkey(ek), IntS)
            P.assume(z3.ForAll([o], z3.Select(ln, o) >= 0, patterns=[z3.Select(ln, o)]))

    def list_ekinds(self, P):
        out = set()
        for k in P.heap:
            if k.startswith("list.elems."):
                out.add(k[len("list.elems."):].replace("~", ":"))
        for cls, fields in self.types.items():
            for f, kind in fields.items():
                if not f.startswith("$") and kind.startswith("slist:"):
                    out.add(kind[6:])
        return out

    @staticmethod
    def ekey(ekind):
        return ekind.replace(":", "~")

    def esort(self, ekind):
        return self.sort_of_kind(ekind)

    _fresh_refs = set()

    @classmethod
    def sel(cls, arr, idx):
        """array read, with read-over-write resolved at construction when the written index is syntactically the read
        index (or a distinct numeral): quantifier triggers and ground terms then have the same shape (an unresolved
        select(store(..)) inside a trigger never matches the resolved ground term)"""
        cur = arr
        while z3.is_app(cur) and cur.decl().kind() == z3.Z3_OP_STORE:
            i = cur.arg(1)
            if i.get_id() == idx.get_id():
                return cur.arg(2)
            if (z3.is_int_value(i) and z3.is_int_value(idx)) and i.as_long() != idx.as_long():
                cur = cur.arg(0)
                continue
            if i.get_id() in cls._fresh_refs and idx.get_id() in cls._fresh_refs:
                # two different allocation constants denote different objects (the later one was not allocated when the
                # earlier one already was)
                cur = cur.arg(0)
                continue
            break
        return z3.Select(cur, idx)

    def lenkey(self, ekind):
        return "list.len.%s" % self.ekey(ekind)

    def l_len(self, P, lst):
        return self.sel(self.heap_array(P, self.lenkey(lst.ekind), IntS), lst.t)

    def l_elems(self, P, lst):
        return self.sel(self.heap_array(P, "list.elems.%s" % self.ekey(lst.ekind), z3.ArraySort(IntS, self.esort(lst.ekind))),
                        lst.t)

    def l_get(self, P, lst, idx):
        return self.wrap(self.sel(self.l_elems(P, lst), idx), lst.ekind)

    def l_store(self, P, lst, idx, val):
        """lst[idx] = val on an SMT list.  The new row is a FRESH array constant tied to the old row by pointwise
        axioms (new[idx] == val, new[j] == old[j] elsewhere, trigger new[j]): reads of the new row then reach the old row
        by plain E-matching, which measured far more reliable than waiting for the array theory's read-over-write."""
        old = self.l_elems(P, lst)
        new = self.fresh("row", old.sort())
        j = z3.Const("j!row", IntS)
        P.assume(z3.Select(new, idx) == val)
        P.assume(z3.ForAll([j], z3.Implies(j != idx, z3.Select(new, j) == z3.Select(old, j)), patterns=[z3.Select(new, j)]))
        self.l_set_elems(P, lst, new)

    def l_set_elems(self, P, lst, newarr):
        key = "list.elems.%s" % self.ekey(lst.ekind)
        arr = self.heap_array(P, key, z3.ArraySort(IntS, self.esort(lst.ekind)))
        P.heap[key] = z3.Store(arr, lst.t, newarr)
        P.written.add(key)

    def l_set_len(self, P, lst, n):
        key = self.lenkey(lst.ekind)
        arr = self.heap_array(P, key, IntS)
        P.heap[key] = z3.Store(arr, lst.t, n)
        P.written.add(key)

    def new_slist(self, P, ekind, name="lst"):
        r = self.alloc(P, name, "list")
        l = SList(r, ekind)
        self.l_set_len(P, l, z3.IntVal(0))
        return l

    # ------------------------------------------------------------------ frames / names
    def new_frame(self, P, init=None):
        return P.new("frame", dict(init or {}))

    def lookup(self, P, ctx, name):
        for fr in reversed(ctx.frames):
            d = P.get(fr)
            if name in d:
                return d[name]
        return self.global_name(P, ctx.mod, name)

    def assign_name(self, P, ctx, name, v, nonlocals=()):
        if name in nonlocals:
            for fr in reversed(ctx.frames[:-1]):
                d = P.get(fr)
                if name in d:
                    nd = dict(d)
                    nd[name] = v
                    P.put(fr, nd)
                    return
            raise Unsupported("nonlocal %s not found" % name)
        fr = ctx.frames[-1]
        nd = dict(P.get(fr))
        nd[name] = v
        P.put(fr, nd)

    def global_name(self, P, mod, name):
        m, e = self.repo.resolve(mod, name)
        if e is not None:
            if e[0] == "def":
                return Func(e[1], m, (), name, qual="%s.%s" % (m, name))
            if e[0] == "class":
                return ClassV(m, name)
            if e[0] == "assign":
                if isinstance(e[1], ast.Lambda):
                    return Func(e[1], m, (), name, qual="%s.%s" % (m, name))
                return self.module_constant(P, m, name, e[1])
            if e[0] == "module":
                return ModuleV(e[1], True)
            if e[0] == "extmodule":
                return ModuleV(e[1], False)
            if e[0] == "ext":
                return self.external(e[1], e[2])
            if e[0] == "import":
                raise Unsupported("unresolved import %s" % name)
        if name in self.builtin_names or name in self.specfuns:
            return Builtin(name)
        raise Unsupported("unknown name %s in module %s" % (name, mod))

    def external(self, module, name):
        key = "%s.%s" % (module, name)
        if key in self.ext_values:
            return self.ext_values[key]
        return Builtin(key)

    def module_constant(self, P, mod, name, node):
        """Module-level constants are re-evaluated from their literal (fresh object each time for literals
        the functions only read; the GLOBAL-object identity needed by C10 is handled by the frame analysis)."""
        key = ("const", mod, name)
        if key in P.ghost:
            return P.ghost[key]
        ctx = Ctx(mod, (self.new_frame(P),), False, "<module %s>" % mod)
        res = self.ev(node, P, ctx)
        if len(res) != 1:
            raise Unsupported("module constant %s.%s forks" % (mod, name))
        val = res[0][1]
        P.ghost[key] = val
        # module-level containers are treated as READ-ONLY literals (each path re-evaluates the literal): a function that
        # writes into one is outside this abstraction and leaves tier T1 (see guard_global_write)
        self._global_ids = getattr(self, "_global_ids", set())

        def mark(v, depth=0):
            if isinstance(v, Handle) and v.kind in ("list", "dict", "obj"):
                self._global_ids.add(v.id)
                if depth < 3:
                    c = P.store.get(v.id)
                    for x in (c.values() if isinstance(c, dict) else (c or ())):
                        mark(x, depth + 1)
        mark(val)
        # later module-level statements of the form  NAME[key] = value  populate the table (d3_time[...] = ...)
        if isinstance(val, Handle) and val.kind == "dict":
            self._in_module_init = True
            for st in self.repo.mods[mod].body:
                if (isinstance(st, ast.Assign) and len(st.targets) == 1 and isinstance(st.targets[0], ast.Subscript)
                        and isinstance(st.targets[0].value, ast.Name) and st.targets[0].value.id == name):
                    r2 = self.evs([st.targets[0].slice, st.value], P, ctx)
                    if len(r2) != 1:
                        raise Unsupported("module table %s.%s forks" % (mod, name))
                    d = dict(P.get(val))
                    d[self.dict_key(r2[0][1][0])] = r2[0][1][1]
                    P.put(val, d)
            self._in_module_init = False
        return val

    # ------------------------------------------------------------------ truthiness
    def truth(self, v, P):
        """z3 Bool term for Python truthiness of v (or python bool when static)."""
        if isinstance(v, Bool):
            return v.t
        if isinstance(v, Num):
            return v.t != 0
        if isinstance(v, NoneT):
            return z3.BoolVal(False)
        if isinstance(v, Inf):
            return z3.BoolVal(True)
        if isinstance(v, (Ref, SList)) and not isinstance(v, SList):
            return v.t != NULL
        if isinstance(v, SList):
            return self.l_len(P, v) != 0
        if isinstance(v, Str):
            c = v.chars()
            if c is not None:
                return z3.BoolVal(len(c) > 0)
            if any(isinstance(p, str) and p for p in v.parts):
                return z3.BoolVal(True)
            raise Unsupported("truthiness of abstract string")
        if isinstance(v, Tup):
            return z3.BoolVal(len(v.items) > 0)
        if isinstance(v, Handle):
            if v.kind in ("list", "dict"):
                return z3.BoolVal(len(P.get(v)) > 0)
            return z3.BoolVal(True)
        if isinstance(v, Opaque):
            if v.tag == "td":
                return v.payload[0] != 0                      # timedelta(0) is falsy
            if v.tag in ("udecomp", "udfields"):
                return self.uni_funcs["DEC_N"](v.payload[0]) > 0   # "" / [] are falsy
            if v.tag in ("dt", "ucat", "udfield", "range", "enumerate", "items"):
                if v.tag in ("range", "enumerate", "items"):
                    raise Unsupported("truthiness of %s" % v.tag)
                return z3.BoolVal(True)
            raise Unsupported("truthiness of %s" % v.tag)
        if isinstance(v, (Func, Bound, ClassV, Builtin, ModuleV)):
            return z3.BoolVal(True)
        if isinstance(v, SeqStr):
            return z3.Length(v.t) != 0
        raise Unsupported("truthiness of %r" % (v,))

    def branch(self, cond, P):
        """Split P on a z3 Bool: list of (path, python bool)."""
        c = z3.simplify(cond)
        if z3.is_true(c):
            return [(P, True)]
        if z3.is_false(c):
            return [(P, False)]
        out = []
        if self.feasible(P, c):
            p1 = P.clone()
            p1.assume(c)
            out.append((p1, True))
        nc = z3.Not(c)
        if self.feasible(P, nc):
            p2 = P.clone() if out else P
            p2.assume(nc)
            out.append((p2, False))
        return out

    # ------------------------------------------------------------------ expressions
    def evs(self, exprs, P, ctx):
        res = [(P, [])]
        for e in exprs:
            nxt = []
            for (p, vs) in res:
                for (p2, v) in self.ev(e, p, ctx):
                    nxt.append((p2, vs + [v]))
            res = nxt
        return res

    def ev(self, e, P, ctx):
        m = getattr(self, "ev_" + type(e).__name__, None)
        if m is None:
            raise Unsupported("expression %s" % type(e).__name__)
        return m(e, P, ctx)

    def ev_Constant(self, e, P, ctx):
        v = e.value
        if isinstance(v, bool):
            return [(P, B(v))]
        if isinstance(v, int):
            return [(P, I(v))]
        if isinstance(v, float):
            return [(P, R(v))]
        if isinstance(v, str):
            return [(P, Str([v]))]
        if v is None:
            return [(P, NONE)]
        raise Unsupported("constant %r" % (v,))

    def ev_Name(self, e, P, ctx):
        return [(P, self.lookup(P, ctx, e.id))]

    def ev_Tuple(self, e, P, ctx):
        if any(isinstance(x, ast.Starred) for x in e.elts):
            raise Unsupported("starred tuple")
        return [(p, Tup(vs)) for (p, vs) in self.evs(e.elts, P, ctx)]

    def ev_List(self, e, P, ctx):
        out = []
        for (p, vs) in self.evs(e.elts, P, ctx):
            out.append((p, p.new("list", tuple(vs))))
        return out

    def ev_Dict(self, e, P, ctx):
        out = []
        for (p, ks) in self.evs(e.keys, P, ctx):
            for (p2, vs) in self.evs(e.values, p, ctx):
                d = {}
                for k, v in zip(ks, vs):
                    d[self.dict_key(k)] = v
                out.append((p2, p2.new("dict", d)))
        return out

    def dict_key(self, k):
        if isinstance(k, Str) and k.concrete() is not None:
            return k.concrete()
        if isinstance(k, Num) and z3.is_int_value(z3.simplify(k.t)):
            return z3.simplify(k.t).as_long()
        raise Unsupported("symbolic dict key %r" % (k,))

    def ev_Lambda(self, e, P, ctx):
        return [(P, Func(e, ctx.mod, ctx.frames, "<lambda>"))]

    def ev_IfExp(self, e, P, ctx):
        out = []
        for (p, c) in self.ev(e.test, P, ctx):
            t = self.truth(c, p)
            if ctx.spec:
                ts = z3.simplify(t)
                if z3.is_true(ts):
                    out.extend(self.ev(e.body, p, ctx))
                elif z3.is_false(ts):
                    out.extend(self.ev(e.orelse, p, ctx))
                else:
                    for (p1, a) in self.ev(e.body, p, ctx):
                        for (p2, b) in self.ev(e.orelse, p1, ctx):
                            out.append((p2, self.ite(t, a, b)))
                continue
            for (p1, tv) in self.branch(t, p):
                out.extend(self.ev(e.body if tv else e.orelse, p1, ctx))
        return out

    def ite(self, t, a, b):
        if isinstance(a, Num) and isinstance(b, Num):
            if a.isint and b.isint:
                return Num(z3.If(t, a.t, b.t), True)
            return Num(z3.If(t, a.real(), b.real()), False)
        if isinstance(a, Bool) and isinstance(b, Bool):
            return Bool(z3.If(t, a.t, b.t))
        if isinstance(a, (Ref, NoneT)) and isinstance(b, (Ref, NoneT)):
            cls = a.cls if isinstance(a, Ref) else b.cls
            ta = a.t if isinstance(a, Ref) else NULL
            tb = b.t if isinstance(b, Ref) else NULL
            return Ref(z3.If(t, ta, tb), cls)
        if isinstance(a, Tup) and isinstance(b, Tup) and len(a.items) == len(b.items):
            return Tup([self.ite(t, x, y) for x, y in zip(a.items, b.items)])
        if isinstance(a, SeqStr) and isinstance(b, SeqStr):
            return SeqStr(z3.If(t, a.t, b.t))
        raise Unsupported("cannot merge %r / %r" % (a, b))

    def ev_BoolOp(self, e, P, ctx):
        isand = isinstance(e.op, ast.And)
        if ctx.spec:
            out = []
            for (p, vs) in self.evs(e.values, P, ctx):
                ts = [self.truth(v, p) for v in vs]
                out.append((p, Bool(z3.And(*ts) if isand else z3.Or(*ts))))
            return out
        # code mode: short circuit, result is the deciding operand
        res = []
        work = [(P, 0, None)]
        while work:
            p, k, last = work.pop()
            if k == len(e.values):
                res.append((p, last))
                continue
            for (p1, v) in self.ev(e.values[k], p, ctx):
                if k == len(e.values) - 1:
                    res.append((p1, v))
                    continue
                for (p2, tv) in self.branch(self.truth(v, p1), p1):
                    if tv == isand:
                        work.append((p2, k + 1, v))
                    else:
                        res.append((p2, v))
        return res

    def ev_UnaryOp(self, e, P, ctx):
        out = []
        for (p, v) in self.ev(e.operand, P, ctx):
            if isinstance(e.op, ast.Not):
                out.append((p, Bool(z3.Not(self.truth(v, p)))))
            elif isinstance(e.op, ast.USub):
                if isinstance(v, Inf):
                    out.append((p, Inf(-v.sign)))
                elif isinstance(v, Bool):
                    out.append((p, Num(-self.unwrap(v, "int"), True)))
                else:
                    self.need_num(v)
                    out.append((p, Num(-v.t, v.isint)))
            elif isinstance(e.op, ast.UAdd):
                out.append((p, v))
            else:
                raise Unsupported("unary %s" % type(e.op).__name__)
        return out

    def need_num(self, v):
        if not isinstance(v, Num):
            raise Unsupported("number expected, got %r" % (v,))

    def ev_BinOp(self, e, P, ctx):
        out = []
        for (p, (a, b)) in self.evs([e.left, e.right], P, ctx):
            out.extend(self.binop(e.op, a, b, p, ctx))
        return out

    def num(self, v):
        if isinstance(v, Bool):
            return Num(z3.If(v.t, z3.IntVal(1), z3.IntVal(0)), True)
        return v

    def binop(self, op, a, b, P, ctx):
        a = self.num(a)
        b = self.num(b)
        # ---- strings
        if isinstance(op, ast.Add) and isinstance(a, (Str, SeqStr)) and isinstance(b, (Str, SeqStr)):
            if isinstance(a, Str) and isinstance(b, Str):
                return [(P, Str(a.parts + b.parts))]
            return [(P, SeqStr(z3.Concat(self.to_seq(a), self.to_seq(b))))]
        if isinstance(op, ast.Mod) and isinstance(a, Str):
            return self.models["str.%"](self, P, ctx, a, b)
        if isinstance(op, ast.Mult) and isinstance(a, Str) and isinstance(b, Num):
            n = z3.simplify(b.t)
            if z3.is_int_value(n):
                return [(P, Str(a.parts * n.as_long()))]
        # ---- python lists
        if isinstance(op, ast.Add) and isinstance(a, Handle) and isinstance(b, Handle) and a.kind == b.kind == "list":
            return [(P, P.new("list", P.get(a) + P.get(b)))]
        if isinstance(op, ast.Add) and isinstance(a, Handle) and a.kind == "list" and isinstance(b, SList):
            xs = P.get(a)
            RL = self.new_slist(P, b.ekind, "concat")
            nb = self.l_len(P, b)
            self.l_set_len(P, RL, nb + len(xs))
            arr = self.fresh("concat_el", z3.ArraySort(IntS, self.esort(b.ekind)))
            for k, x in enumerate(xs):
                P.assume(z3.Select(arr, z3.IntVal(k)) == self.unwrap(x, b.ekind))
            jv = z3.Const("j!cc", IntS)
            src = self.l_elems(P, b)
            # one direction only, triggered by reads of the NEW list (an additional offset-pattern axiom src[j] -> new[j+k]
            # formed a matching loop with this one: 200 000 instances)
            P.assume(z3.ForAll([jv], z3.Implies(z3.And(len(xs) <= jv, jv < nb + len(xs)), z3.Select(arr, jv) == z3.Select(src, jv - len(xs))),
                               patterns=[z3.Select(arr, jv)]))
            self.l_set_elems(P, RL, arr)
            return [(P, RL)]
        if isinstance(op, ast.Mult) and isinstance(a, Handle) and a.kind == "list" and isinstance(b, Num):
            n = z3.simplify(b.t)
            if z3.is_int_value(n):
                return [(P, P.new("list", P.get(a) * n.as_long()))]
            kind = (self.contracts.get(self.current) or {}).get("none_list_kind")
            if kind and len(P.get(a)) == 1 and P.get(a)[0] is NONE and b.isint and kind.startswith("ref:"):
                # [None] * n for a symbolic n: a fresh SMT list of max(0, n) null references (element kind named by the contract)
                RL = self.new_slist(P, kind, "nones")
                self.l_set_len(P, RL, z3.If(b.t >= 0, b.t, z3.IntVal(0)))
                row = self.fresh("row", z3.ArraySort(IntS, RefS))
                jv = z3.Const("j!nones", IntS)
                P.assume(z3.ForAll([jv], z3.Select(row, jv) == NULL, patterns=[z3.Select(row, jv)]))
                self.l_set_elems(P, RL, row)
                return [(P, RL)]
            raise Unsupported("list * symbolic")
        if isinstance(a, Opaque) or isinstance(b, Opaque):
            return self.models["opaque.binop"](self, P, ctx, op, a, b)
        if isinstance(b, Inf) and isinstance(op, ast.Div) and isinstance(a, Num):
            return [(P, R(0))]
        if not (isinstance(a, Num) and isinstance(b, Num)):
            raise Unsupported("binop %s on %r, %r" % (type(op).__name__, a, b))
        bothint = a.isint and b.isint
        if isinstance(op, ast.Add):
            return [(P, Num(a.t + b.t, True) if bothint else Num(a.real() + b.real(), False))]
        if isinstance(op, ast.Sub):
            return [(P, Num(a.t - b.t, True) if bothint else Num(a.real() - b.real(), False))]
        if isinstance(op, ast.Mult):
            return [(P, Num(a.t * b.t, True) if bothint else Num(a.real() * b.real(), False))]
        if isinstance(op, ast.Div):
            if not ctx.spec:
                self.oblige(P, "safe.div#%d" % self.site(), b.real() != 0, "safe")
            return [(P, Num(a.real() / b.real(), False))]
        if isinstance(op, ast.FloorDiv):
            if bothint:
                if not ctx.spec:
                    self.oblige(P, "safe.floordiv#%d" % self.site(), b.t != 0, "safe")
                return [(P, Num(self.floordiv(a.t, b.t), True))]
            if not ctx.spec:
                self.oblige(P, "safe.floordiv#%d" % self.site(), b.real() != 0, "safe")
            return [(P, Num(z3.ToReal(z3.ToInt(a.real() / b.real())), False))]
        if isinstance(op, ast.Mod):
            if bothint:
                if not ctx.spec:
                    self.oblige(P, "safe.mod#%d" % self.site(), b.t != 0, "safe")
                bs = z3.simplify(b.t)
                if z3.is_int_value(bs):
                    return [(P, Num(self.pymod(a.t, b.t), True))]
                # symbolic divisor: an uninterpreted PYMOD(a, b) with its defining facts instantiated here.  z3's own
                # non-linear mod gives every occurrence its own quotient/remainder pair and then cannot conclude
                # x % d == y % d from x == y; with the function symbol that is plain congruence.
                f = self.uf.get("PYMOD")
                if f is None:
                    f = self.uf["PYMOD"] = z3.Function("PYMOD", IntS, IntS, IntS)
                    self.uf["PYDIV"] = z3.Function("PYDIV", IntS, IntS, IntS)
                g = self.uf["PYDIV"]
                r = f(a.t, b.t)
                if not getattr(self, "quant_depth", 0):
                    P.assume(z3.Implies(b.t > 0, z3.And(0 <= r, r < b.t)))
                    P.assume(z3.Implies(b.t < 0, z3.And(b.t < r, r <= 0)))
                    # (the defining product a == b * PYDIV(a, b) + r is NOT added: one non-linear term switches z3 to its
                    #  non-linear engine for the whole query - measured 0.1 s -> 30 s+ on the enumeration loops - and no
                    #  contract so far needs more of a symbolic-divisor remainder than its range and congruence)
                return [(P, Num(r, True))]
            q = z3.ToReal(z3.ToInt(a.real() / b.real()))
            return [(P, Num(a.real() - q * b.real(), False))]
        if isinstance(op, ast.Pow):
            return self.models["pow"](self, P, ctx, a, b)
        if isinstance(op, ast.BitAnd) and bothint:
            bv = z3.simplify(b.t)
            if z3.is_int_value(bv) and bv.as_long() >= 0 and (bv.as_long() + 1) & bv.as_long() == 0:
                # x & (2**k - 1) == x mod 2**k  (Python ints: two's complement semantics, also for negative x)
                return [(P, Num(self.pymod(a.t, z3.IntVal(bv.as_long() + 1)), True))]
        if isinstance(op, ast.RShift) and bothint:
            bv = z3.simplify(b.t)
            if z3.is_int_value(bv):
                return [(P, Num(self.floordiv(a.t, z3.IntVal(2 ** bv.as_long())), True))]
        raise Unsupported("binop %s" % type(op).__name__)

    @staticmethod
    def floordiv(a, b):
        # Python floor division; z3 div rounds toward -inf only for positive divisors
        return z3.If(b > 0, a / b, z3.If(a % (-b) == 0, -(a / (-b)), -(a / (-b)) - 1)) if not z3.is_int_value(z3.simplify(b)) \
            else (a / b if z3.simplify(b).as_long() > 0 else z3.If(a % (-b) == 0, -(a / (-b)), -(a / (-b)) - 1))

    @staticmethod
    def pymod(a, b):
        bs = z3.simplify(b)
        if z3.is_int_value(bs) and bs.as_long() > 0:
            return a % b
        return z3.If(b > 0, a % b, -((-a) % (-b)))

    _site = 0

    def site(self):
        Engine._site += 1
        return Engine._site

    def to_seq(self, v):
        if isinstance(v, SeqStr):
            return v.t
        c = v.chars()
        if c is None:
            raise Unsupported("abstract string to sequence")
        units = [z3.Unit(z3.IntVal(ord(x)) if isinstance(x, str) else x) for x in c]
        if not units:
            return z3.Empty(z3.SeqSort(IntS))
        if len(units) == 1:
            return units[0]
        return z3.Concat(*units)

    def ev_Compare(self, e, P, ctx):
        out = []
        for (p, vs) in self.evs([e.left] + list(e.comparators), P, ctx):
            terms = []
            cur = vs[0]
            ok = True
            for op, nxt in zip(e.ops, vs[1:]):
                if isinstance(op, (ast.In, ast.NotIn)) and nxt is NONE and not ctx.spec:
                    # `x in None` raises TypeError in Python: an exception-freedom obligation, not an engine limit
                    self.fail(p, "safe.in_none#%d" % self.site(), "argument of type 'NoneType' is not iterable")
                    ok = False
                    break
                terms.append(self.compare(op, cur, nxt, p, ctx))
                cur = nxt
            if not ok:
                continue
            t = terms[0] if len(terms) == 1 else z3.And(*terms)
            out.append((p, Bool(t)))
        return out

    def compare(self, op, a, b, P, ctx):
        if isinstance(op, (ast.Is, ast.IsNot, ast.Eq, ast.NotEq)):
            t = self.equal(a, b, P, identity=isinstance(op, (ast.Is, ast.IsNot)))
            return z3.Not(t) if isinstance(op, (ast.IsNot, ast.NotEq)) else t
        if isinstance(op, (ast.In, ast.NotIn)):
            t = self.contains(b, a, P)
            return z3.Not(t) if isinstance(op, ast.NotIn) else t
        if isinstance(a, Opaque) or isinstance(b, Opaque):
            return self.models["opaque.compare"](self, P, ctx, op, a, b)
        a = self.num(a)
        b = self.num(b)
        if isinstance(a, Inf) or isinstance(b, Inf):
            raise Unsupported("comparison with inf")
        if not (isinstance(a, Num) and isinstance(b, Num)):
            raise Unsupported("ordering of %r and %r" % (a, b))
        x, y = (a.t, b.t) if (a.isint and b.isint) else (a.real(), b.real())
        if isinstance(op, ast.Lt):
            return x < y
        if isinstance(op, ast.LtE):
            return x <= y
        if isinstance(op, ast.Gt):
            return x > y
        if isinstance(op, ast.GtE):
            return x >= y
        raise Unsupported("compare op")

    def equal(self, a, b, P, identity=False):
        if isinstance(a, NoneT) and isinstance(b, NoneT):
            return z3.BoolVal(True)
        if isinstance(a, NoneT) or isinstance(b, NoneT):
            o = b if isinstance(a, NoneT) else a
            if isinstance(o, (Ref, SList)):
                return o.t == NULL
            return z3.BoolVal(False)
        if isinstance(a, (Ref, SList)) and isinstance(b, (Ref, SList)):
            return a.t == b.t
        for x, y in ((a, b), (b, a)):
            if isinstance(x, Opaque) and x.tag == "ucat" and isinstance(y, Str) and y.concrete() is not None:
                # category(c) == "Mn": an uninterpreted predicate per literal, tied to CAT_M by the literal's first letter
                lit = y.concrete()
                f = self.uf.get("CAT_IS_" + lit)
                if f is None:
                    f = self.uf["CAT_IS_" + lit] = z3.Function("CAT_IS_" + lit, IntS, BoolS)
                c = x.payload[0]
                m = self.uni_funcs["CAT_M"](c)
                P.assume(z3.Implies(f(c), m if lit.startswith("M") else z3.Not(m)))
                return f(c)
        if isinstance(a, Handle) and isinstance(b, Handle):
            if identity or a.kind in ("obj", "frame"):
                return z3.BoolVal(a.id == b.id)
            if a.kind == b.kind == "list":
                xa, xb = P.get(a), P.get(b)
                if len(xa) != len(xb):
                    return z3.BoolVal(False)
                return z3.And(*[self.equal(x, y, P) for x, y in zip(xa, xb)]) if xa else z3.BoolVal(True)
            raise Unsupported("== on %s" % a.kind)
        a2, b2 = self.num(a), self.num(b)
        if isinstance(a2, Num) and isinstance(b2, Num):
            if a2.isint and b2.isint:
                return a2.t == b2.t
            return a2.real() == b2.real()
        if isinstance(a, Bool) and isinstance(b, Bool):
            return a.t == b.t
        if isinstance(a, Str) and isinstance(b, Str):
            ca, cb = a.chars(), b.chars()
            if ca is not None and cb is not None:
                if len(ca) != len(cb):
                    return z3.BoolVal(False)
                ts = []
                for x, y in zip(ca, cb):
                    x = z3.IntVal(ord(x)) if isinstance(x, str) else x
                    y = z3.IntVal(ord(y)) if isinstance(y, str) else y
                    ts.append(x == y)
                return z3.And(*ts) if ts else z3.BoolVal(True)
            return self.str_equal(a, b)
        if isinstance(a, (Str, SeqStr)) and isinstance(b, (Str, SeqStr)):
            return self.to_seq(a) == self.to_seq(b)
        if isinstance(a, Tup) and isinstance(b, Tup):
            if len(a.items) != len(b.items):
                return z3.BoolVal(False)
            return z3.And(*[self.equal(x, y, P) for x, y in zip(a.items, b.items)]) if a.items else z3.BoolVal(True)
        if isinstance(a, Opaque) and isinstance(b, Opaque):
            return self.models["opaque.equal"](self, P, a, b)
        if isinstance(a, (Func, ClassV, Builtin)) or isinstance(b, (Func, ClassV, Builtin)):
            return z3.BoolVal(a is b)
        if type(a) is not type(b):
            return z3.BoolVal(False)
        raise Unsupported("equality of %r and %r" % (a, b))

    def str_equal(self, a, b):
        """Structural equality of abstract strings (A-STR): same literal skeleton, same format specs, equal
        arguments.  Different skeletons are not decided (Unsupported), never assumed unequal - with one exception that is
        decidable: when every abstract part of both texts is a FIXED-POINT or INTEGER number format ("%.Nf", "%i", "%d",
        "{:.Nf}": digits, sign and point only, reals being finite under A-REAL), the letters of the two texts come from
        their literals alone, so texts whose letter sequences differ ARE different (an extra "L x y" segment in a path)."""
        import re as _re

        def letters(s_):
            out = []
            for part in s_.parts:
                if isinstance(part, str):
                    out.extend(ch for ch in part if ch.isalpha())
                elif part[0] == "fmt" and isinstance(part[1], str) and _re.fullmatch(r"%?\{?:?\.?\d*[fid]\}?", part[1]):
                    continue
                else:
                    return None
            return out

        la, lb = letters(a), letters(b)
        if la is not None and lb is not None and la != lb:
            return z3.BoolVal(False)
        if len(a.parts) != len(b.parts):
            raise Unsupported("equality of abstract strings with different skeletons")
        ts = []
        for x, y in zip(a.parts, b.parts):
            if isinstance(x, str) or isinstance(y, str):
                if x != y if (isinstance(x, str) and isinstance(y, str)) else True:
                    raise Unsupported("equality of abstract strings with different skeletons")
                continue
            if x[0] != y[0]:
                raise Unsupported("equality of abstract strings with different skeletons")
            if x[0] == "chr":
                ts.append(x[1] == y[1])
            elif x[0] == "sym":
                if x[1] != y[1]:
                    raise Unsupported("equality of two different opaque text atoms")
            elif x[0] == "fmt":
                if x[1] != y[1]:
                    raise Unsupported("equality of abstract strings with different format specs")
                u, v = self.num(x[2]), self.num(y[2])
                if x[1] in ("str", "s") and (u.isint != v.isint):
                    raise Unsupported("str() of int vs float")
                ts.append(u.real() == v.real())
            else:
                raise Unsupported("equality of abstract string parts %r" % (x[0],))
        return z3.And(*ts) if ts else z3.BoolVal(True)

    def contains(self, cont, item, P):
        if isinstance(cont, Handle) and cont.kind == "dict":
            d = P.get(cont)
            if item is NONE:
                return z3.BoolVal(None in d)
            if isinstance(item, Num) and item.isint and self.cint(item) is None and all(isinstance(k, int) for k in d):
                return z3.Or(*[item.t == k for k in d]) if d else z3.BoolVal(False)
            return z3.BoolVal(self.dict_key(item) in d)
        if isinstance(cont, Handle) and cont.kind == "list":
            xs = P.get(cont)
            return z3.Or(*[self.equal(x, item, P) for x in xs]) if xs else z3.BoolVal(False)
        if isinstance(cont, Tup):
            return z3.Or(*[self.equal(x, item, P) for x in cont.items]) if cont.items else z3.BoolVal(False)
        raise Unsupported("'in' on %r" % (cont,))

    def ev_Attribute(self, e, P, ctx):
        out = []
        for (p, o) in self.ev(e.value, P, ctx):
            out.extend(self.getattr(p, ctx, o, e.attr))
        return out

    def getattr(self, P, ctx, o, attr):
        if isinstance(o, Handle) and o.kind == "obj":
            d = P.get(o)
            if attr in d:
                return [(P, d[attr])]
            try:
                m, fn = self.repo.method(*o.cls, attr)
            except KeyError:
                if ctx.spec:
                    raise SpecError("no attribute %s on %r" % (attr, o))
                if o.id not in getattr(self, "_constructed", ()):
                    # the object was described field by field in a contract's setup: an attribute the setup does not list
                    # is outside the contract's object model (e.g. one added to __init__ later) - not an AttributeError
                    raise Unsupported("attribute %s of a %s is not part of the contract's object model" % (attr, o.cls[1]))
                return self.fail(P, "safe.attr.%s#%d" % (attr, self.site()), "attribute %s unset" % attr)
            return [(P, Bound(Func(fn, m, (), attr, cls=o.cls[1], qual="%s.%s.%s" % (m, o.cls[1], attr)), o))]
        if isinstance(o, Ref):
            t = self.types.get(o.cls, {})
            if attr in t:
                if not ctx.spec:
                    self.oblige(P, "safe.null.%s#%d" % (attr, self.site()), o.t != NULL, "safe")
                return [(P, self.hread(P, o.t, o.cls, attr, spec=ctx.spec))]
            mod = self.class_module(o.cls)
            try:
                m, fn = self.repo.method(mod, o.cls, attr)
            except KeyError:
                raise Unsupported("attribute %s of %s" % (attr, o.cls))
            return [(P, Bound(Func(fn, m, (), attr, cls=o.cls, qual="%s.%s.%s" % (m, o.cls, attr)), o))]
        if isinstance(o, ModuleV):
            if o.internal:
                return [(P, self.global_name(P, o.name, attr))]
            return [(P, self.external(o.name, attr))]
        if isinstance(o, ClassV):
            # class attribute (constant) or unbound method
            m, c = self.repo.klass(o.mod, o.name)
            for st in c.body:
                if isinstance(st, ast.Assign) and isinstance(st.targets[0], ast.Name) and st.targets[0].id == attr:
                    return self.ev(st.value, P, Ctx(m, (self.new_frame(P),), ctx.spec, ctx.fname))
                if isinstance(st, ast.FunctionDef) and st.name == attr:
                    iscm = any(isinstance(d, ast.Name) and d.id == "classmethod" for d in st.decorator_list)
                    f = Func(st, m, (), attr, cls=o.name, qual="%s.%s.%s" % (m, o.name, attr))
                    return [(P, Bound(f, o) if iscm else f)]
            raise Unsupported("class attribute %s.%s" % (o.name, attr))
        if isinstance(o, Opaque) and o.tag in ("dt", "td"):
            v = self.dt_attr(self, P, ctx, o, attr)
            if v is not None:
                return [(P, v)]
        if isinstance(o, (Handle, Str, SeqStr, SList, Tup, Opaque)):
            return [(P, Builtin("method." + attr, o))]
        raise Unsupported("attribute %s of %r" % (attr, o))

    def class_module(self, cls):
        for m in self.repo.mods:
            e = self.repo.globals_of(m).get(cls)
            if e and e[0] == "class":
                return m
        raise Unsupported("class %s not found" % cls)

    def ev_Subscript(self, e, P, ctx):
        out = []
        if isinstance(e.slice, ast.Slice):
            parts = [e.value] + [x if x is not None else ast.Constant(value=None)
                                 for x in (e.slice.lower, e.slice.upper, e.slice.step)]
            for (p, (o, lo, hi, st)) in self.evs(parts, P, ctx):
                out.extend(self.slice(p, ctx, o, lo, hi, st))
            return out
        for (p, (o, k)) in self.evs([e.value, e.slice], P, ctx):
            out.extend(self.index(p, ctx, o, k))
        return out

    def cint(self, v):
        """concrete python int of a Num if it simplifies to a numeral, else None"""
        if isinstance(v, Num) and v.isint:
            s = z3.simplify(v.t)
            if z3.is_int_value(s):
                return s.as_long()
        return None

    def index(self, P, ctx, o, k):
        if isinstance(o, Handle) and o.kind == "dict":
            d = P.get(o)
            if isinstance(k, Num) and k.isint and self.cint(k) is None and d and all(isinstance(x, int) for x in d):
                # symbolic int key of an int-keyed table: the key must be one of the keys (obligation), one path per key
                if not ctx.spec:
                    self.oblige(P, "safe.key#%d" % self.site(), z3.Or(*[k.t == x for x in d]), "safe")
                vals = list(d.values())
                if all(isinstance(v, Str) and v.concrete() is not None and len(v.concrete()) == 1 for v in vals):
                    # a table of single characters: one symbolic character instead of one path per key
                    t = z3.IntVal(ord(vals[-1].concrete()))
                    for x, v in list(d.items())[:-1]:
                        t = z3.If(k.t == x, z3.IntVal(ord(v.concrete())), t)
                    return [(P, Str([("chr", t)]))]
                outs = []
                for x, v in d.items():
                    q = P.clone()
                    q.assume(k.t == x)
                    if self.feasible(q):
                        outs.append((q, v))
                return outs
            key = self.dict_key(k)
            if key not in d:
                return self.fail(P, "safe.key#%d" % self.site(), "missing key %r" % (key,))
            return [(P, d[key])]
        if isinstance(o, (Handle, Tup, Str)):
            if isinstance(o, Handle):
                if o.kind != "list":
                    raise Unsupported("index on %s" % o.kind)
                xs = P.get(o)
            elif isinstance(o, Tup):
                xs = o.items
            else:
                cs = o.chars()
                if cs is None:
                    raise Unsupported("index into abstract string")
                xs = tuple(str_from_chars([c]) for c in cs)
            n = self.cint(k)
            if n is not None:
                if -len(xs) <= n < len(xs):
                    return [(P, xs[n])]
                return self.fail(P, "safe.index#%d" % self.site(), "index %d out of range(%d)" % (n, len(xs)))
            if not (isinstance(k, Num) and k.isint):
                raise Unsupported("index %r" % (k,))
            if not ctx.spec:
                self.oblige(P, "safe.index#%d" % self.site(), z3.And(k.t >= -len(xs), k.t < len(xs)), "safe")
            if not xs:
                return []
            try:
                res = xs[-1]
                for j in range(len(xs) - 2, -1, -1):
                    res = self.ite(z3.Or(k.t == j, k.t == j - len(xs)), xs[j], res)
                return [(P, res)]
            except Unsupported:
                if ctx.spec:
                    raise
                # elements that cannot be merged into one conditional value (objects, closures): one path per index
                outs = []
                for j in range(len(xs)):
                    cond = z3.Or(k.t == j, k.t == j - len(xs))
                    if self.feasible(P, cond):
                        q = P.clone()
                        q.assume(cond)
                        outs.append((q, xs[j]))
                return outs
        if isinstance(o, SList):
            if not (isinstance(k, Num) and k.isint):
                raise Unsupported("index %r" % (k,))
            n = self.cint(k)
            ln = self.l_len(P, o)
            idx = k.t
            if n is not None and n < 0:
                idx = ln + n
            # a SYMBOLIC index is used as it is (no If(k < 0, len + k, k) wrapper, which would defeat quantifier triggers);
            # in code the obligation below demands 0 <= k < len, i.e. symbolic negative indexing is not accepted
            if not ctx.spec:
                self.oblige(P, "safe.index#%d" % self.site(), z3.And(idx >= 0, idx < ln), "safe")
            return [(P, self.l_get(P, o, idx))]
        if isinstance(o, SeqStr):
            if isinstance(k, Num) and k.isint:
                return [(P, SeqStr(z3.SubSeq(o.t, k.t, z3.IntVal(1))))]
        raise Unsupported("subscript of %r" % (o,))

    def slice(self, P, ctx, o, lo, hi, st):
        if not isinstance(st, NoneT):
            raise Unsupported("slice step")
        if isinstance(o, (Handle, Tup, Str)):
            if isinstance(o, Handle):
                if o.kind != "list":
                    raise Unsupported("slice of %s" % o.kind)
                xs = P.get(o)
            elif isinstance(o, Tup):
                xs = o.items
            else:
                xs = o.chars()
                if xs is None:
                    raise Unsupported("slice of abstract string")
            a = None if isinstance(lo, NoneT) else self.cint(lo)
            b = None if isinstance(hi, NoneT) else self.cint(hi)
            if (not isinstance(lo, NoneT) and a is None) or (not isinstance(hi, NoneT) and b is None):
                raise Unsupported("symbolic slice bounds")
            r = xs[a:b]
            if isinstance(o, Handle):
                return [(P, P.new("list", tuple(r)))]
            if isinstance(o, Tup):
                return [(P, Tup(r))]
            return [(P, str_from_chars(r))]
        if isinstance(o, SList):
            ln = self.l_len(P, o)
            a = z3.IntVal(0) if isinstance(lo, NoneT) else self.norm_index(lo, ln)
            b = ln if isinstance(hi, NoneT) else self.norm_index(hi, ln)
            new = self.new_slist(P, o.ekind, "slice")
            n = z3.If(b - a > 0, b - a, z3.IntVal(0))
            self.l_set_len(P, new, n)
            src = self.l_elems(P, o)
            arr = self.fresh("slice_el", z3.ArraySort(IntS, self.esort(o.ekind)))
            j = z3.Const("j!sl", IntS)
            P.assume(z3.ForAll([j], z3.Implies(z3.And(0 <= j, j < n), z3.Select(arr, j) == z3.Select(src, j + a)),
                               patterns=[z3.Select(arr, j)]))
            self.l_set_elems(P, new, arr)
            return [(P, new)]
        raise Unsupported("slice of %r" % (o,))

    def norm_index(self, v, ln):
        self.need_num(v)
        n = self.cint(v)
        if n is not None:
            return z3.If(ln + n > 0, ln + n, z3.IntVal(0)) if n < 0 else z3.If(z3.IntVal(n) < ln, z3.IntVal(n), ln)
        t = z3.If(v.t < 0, ln + v.t, v.t)
        return z3.If(t < 0, z3.IntVal(0), z3.If(t > ln, ln, t))

    def ev_ListComp(self, e, P, ctx):
        return [(p, vs if isinstance(vs, SList) else p.new("list", tuple(vs)))
                for (p, vs) in self.comprehension(e.elt, e.generators, P, ctx)]

    def slist_comprehension(self, elt, g, P, ctx, L):
        """[f(x) for x in L] with a map-safe contract on f, or [x for x in L if cond(x)], over a symbolic-length list.
        -> (path, SList)"""
        if not isinstance(g.target, ast.Name):
            raise Unsupported("comprehension target")
        var = g.target.id
        n = self.l_len(P, L)
        j = self.fresh("j_cmp", IntS)
        # ---- filter: [x for x in L if cond]
        if isinstance(elt, ast.Name) and elt.id == var and len(g.ifs) == 1:
            R = self.new_slist(P, L.ekind, "filtered")
            m = self.fresh("len_filtered", IntS)
            self.l_set_len(P, R, m)
            P.assume(z3.And(m >= 0, m <= n))
            relems = self.fresh("filtered_el", z3.ArraySort(IntS, self.esort(L.ekind)))
            self.l_set_elems(P, R, relems)
            sig = z3.Function("sigma!%d" % fresh_id(), IntS, IntS)
            tau = z3.Function("tau!%d" % fresh_id(), IntS, IntS)

            def cond_at(term):
                fr = self.new_frame(P, {var: self.wrap(term, L.ekind)})
                res = self.ev(g.ifs[0], P, ctx.child(fr).asspec())
                if len(res) != 1:
                    raise Unsupported("filter condition forks")
                return self.truth(res[0][1], P)

            k = z3.Const("k!flt", IntS)
            i = z3.Const("i!flt", IntS)
            lel = self.l_elems(P, L)
            rk = z3.Select(relems, k)
            # sigma: position in L of the k-th kept element; tau: position in the result of a kept element of L.
            # tau(sigma(k)) == k makes sigma injective by congruence (distinct positions of the result come from distinct
            # positions of L).  Order preservation (sigma strictly increasing) is true of Python's comprehension but is NOT
            # stated: as a two-variable trigger it caused a matching explosion (200 000 instances) and no contract needs it.
            P.assume(z3.ForAll([k], z3.Implies(z3.And(0 <= k, k < m),
                                               z3.And(0 <= sig(k), sig(k) < n, rk == z3.Select(lel, sig(k)), cond_at(rk),
                                                      tau(sig(k)) == k)),
                               patterns=[rk]))
            li = z3.Select(lel, i)
            P.assume(z3.ForAll([i], z3.Implies(z3.And(0 <= i, i < n, cond_at(li)),
                                               z3.And(0 <= tau(i), tau(i) < m, z3.Select(relems, tau(i)) == li, sig(tau(i)) == i)),
                               patterns=[li]))
            self.assume_used("A-LIB:filter-comprehension (order-preserving sub-list, complete)")
            return (P, R)
        # ---- map: [f(x) for x in L]
        if (isinstance(elt, ast.Call) and len(elt.args) == 1 and isinstance(elt.args[0], ast.Name) and elt.args[0].id == var
                and not elt.keywords and not g.ifs):
            fv = self.ev(elt.func, P, ctx)
            if len(fv) != 1 or not isinstance(fv[0][1], Func):
                raise Unsupported("map comprehension callee")
            f = fv[0][1]
            con = self.contracts.get(f.qual)
            if con is None or not con.get("map_safe"):
                raise Unsupported("comprehension over a symbolic-length list needs a map-safe contract on %s" % (f.qual or f.name))
            pname = [a.arg for a in f.node.args.args][0]
            rk_ = con["returns"]
            # preconditions for every element
            sk = self.fresh("sk_cmp", IntS)
            Q = P.clone()
            Q.assume(z3.And(0 <= sk, sk < n))
            fr = self.new_frame(Q, {pname: self.l_get(Q, L, sk)})
            site = self.site()
            for (nm, src) in self.named(con.get("requires", [])):
                self.prove_spec(Q, "call.%s.pre.%s#%d" % (f.qual, nm, site), src, Ctx(f.mod, (fr,), True, f.qual), "pre")
            pre = P.clone()
            for key in con.get("modifies", []):
                self.havoc_heap(P, key)
            self.wf_after_havoc(P, pre, tuple(con.get("allocates", ())) + ("list",))
            R = SList(self.fresh("mapped", RefS), rk_)
            P.assume(R.t != NULL)
            P.assume(z3.Select(self.alloc_arr(P), R.t))
            P.assume(z3.Not(z3.Select(self.alloc_arr(pre), R.t)))
            P.assume(self.type_is(P, R.t, "list"))
            P.assume(self.l_len(P, R) == n)
            saved_old = P.old
            P.old = pre
            jv = z3.Const("j!map", IntS)
            fr2 = self.new_frame(P, {pname: self.l_get(pre, L, jv), "result": self.l_get(P, R, jv)})
            body = []

            def mentions(t, v, seen):
                if t.get_id() in seen:
                    return False
                seen.add(t.get_id())
                if t.get_id() == v.get_id():
                    return True
                return any(mentions(c, v, seen) for c in t.children())

            for (nm, src) in self.named(con.get("ensures", [])):
                res = self.ev(self.parse(src), P, Ctx(f.mod, (fr2,), True, f.qual))
                t = self.truth(res[0][1], P)
                if mentions(t, jv, set()):
                    body.append(t)
                else:
                    P.assume(z3.Implies(n > 0, t))   # a frame clause: independent of the element, holds once for the whole map
            P.old = saved_old
            rj = z3.Select(self.l_elems(P, R), jv)
            P.assume(z3.ForAll([jv], z3.Implies(z3.And(0 <= jv, jv < n), z3.And(*body)), patterns=[rj]))
            # the results are pairwise distinct (each call allocated its own object): stated through a fresh inverse index
            # (midx[R[j]] == j, single-variable trigger) - distinctness then follows by congruence; the pairwise form
            # (two-variable trigger over every pair of reads of R) was measured to explode the instantiation search
            midx = self.fresh("mapidx", z3.ArraySort(RefS, IntS))
            P.assume(z3.ForAll([jv], z3.Implies(z3.And(0 <= jv, jv < n), z3.Select(midx, rj) == jv), patterns=[rj]))
            self.assume_used("contract:" + f.qual)
            return (P, R)
        raise Unsupported("this comprehension over a symbolic-length list")

    def ev_GeneratorExp(self, e, P, ctx):
        return self.ev_ListComp(e, P, ctx)

    def ev_DictComp(self, e, P, ctx):
        out = []
        pair = ast.Tuple(elts=[e.key, e.value], ctx=ast.Load())
        for (p, vs) in self.comprehension(pair, e.generators, P, ctx):
            d = {}
            for kv in vs:
                d[self.dict_key(kv.items[0])] = kv.items[1]
            out.append((p, p.new("dict", d)))
        return out

    def comprehension(self, elt, gens, P, ctx):
        if len(gens) != 1:
            raise Unsupported("nested comprehension")
        g = gens[0]
        out = []
        for (p, it) in self.ev(g.iter, P, ctx):
            items = self.iter_items(p, it)
            if items is None and isinstance(it, SList):
                out.append(self.slist_comprehension(elt, g, p, ctx, it))
                continue
            if items is None:
                raise Unsupported("comprehension over symbolic-length iterable")
            fr = self.new_frame(p)
            c2 = ctx.child(fr)
            res = [(p, [])]
            for x in items:
                nxt = []
                for (q, acc) in res:
                    self.bind_target(q, c2, g.target, x, ())
                    conds = [(q, True)]
                    for cnd in g.ifs:
                        nc = []
                        for (q1, ok) in conds:
                            if not ok:
                                nc.append((q1, False))
                                continue
                            for (q2, cv) in self.ev(cnd, q1, c2):
                                for (q3, tv) in self.branch(self.truth(cv, q2), q2):
                                    nc.append((q3, tv))
                        conds = nc
                    for (q1, ok) in conds:
                        if not ok:
                            nxt.append((q1, acc))
                            continue
                        for (q2, v) in self.ev(elt, q1, c2):
                            nxt.append((q2, acc + [v]))
                res = nxt
            out.extend(res)
        return out

    def iter_items(self, P, it):
        """Concrete tuple of items of an iterable with statically known length, else None."""
        if isinstance(it, Handle) and it.kind == "list":
            return P.get(it)
        if isinstance(it, Handle) and it.kind == "dict":
            return tuple(Str([k]) if isinstance(k, str) else I(k) for k in P.get(it))
        if isinstance(it, Tup):
            return it.items
        if isinstance(it, Str):
            c = it.chars()
            return None if c is None else tuple(str_from_chars([x]) for x in c)
        if isinstance(it, Opaque) and it.tag == "range":
            lo, hi, st = (self.cint(x) for x in it.payload)
            if lo is None or hi is None or st is None:
                return None
            r = range(lo, hi, st)
            if len(r) > MAX_UNROLL:
                return None
            return tuple(I(k) for k in r)
        if isinstance(it, Opaque) and it.tag == "items":
            return it.payload
        return None

    def ev_Yield(self, e, P, ctx):
        if e.value is None:
            raise Unsupported("bare yield")
        out = []
        for (p, v) in self.ev(e.value, P, ctx):
            lst = self.lookup(p, ctx, "yielded")
            for (q, _) in self.models["method.append"](self, p, ctx, lst, v):
                out.append((q, NONE))
        return out

    def ev_Starred(self, e, P, ctx):
        raise Unsupported("starred expression")

    def ev_JoinedStr(self, e, P, ctx):
        raise Unsupported("f-string")

    # ------------------------------------------------------------------ calls
    def ev_Call(self, e, P, ctx):
        if isinstance(e.func, ast.Name) and e.func.id in ("old", "forall", "exists") and ctx.spec:
            return self.spec_form(e, P, ctx)
        if (isinstance(e.func, ast.Name) and e.func.id == "next" and len(e.args) == 1 and isinstance(e.args[0], ast.Name)
                and not e.keywords and not ctx.spec):
            # next(it) for a LOCAL NAME bound to an iterator over statically known items (enumerate/zip/reversed of a list of
            # known length): the first remaining item is returned and the name is re-bound to the rest - the iterator's
            # state.  Sound while the iterator object is reachable through that one name only (no alias is created by the
            # supported subset: an `items` value that is assigned to a second name is a copy of the REMAINING items at that
            # moment, which over-approximates nothing the function under contract does - generatePath uses one name).
            it = self.lookup(P, ctx, e.args[0].id)
            if isinstance(it, Opaque) and it.tag == "items":
                if not it.payload:
                    return self.fail(P, "safe.next_exhausted#%d" % self.site(), "next() on an exhausted iterator")
                self.assign_name(P, ctx, e.args[0].id, Opaque("items", tuple(it.payload[1:])))
                return [(P, it.payload[0])]
            raise Unsupported("next() on %r" % (it,))
        if isinstance(e.func, ast.Name) and e.func.id == "implies" and ctx.spec and len(e.args) == 2:
            # lazy implication: a statically false hypothesis (e.g. `v is not None` while v is None) guards the conclusion
            out = []
            for (p, a) in self.ev(e.args[0], P, ctx):
                ta = self.truth(a, p)
                if z3.is_false(z3.simplify(ta)):
                    out.append((p, B(True)))
                    continue
                for (p2, b) in self.ev(e.args[1], p, ctx):
                    out.append((p2, Bool(z3.Implies(ta, self.truth(b, p2)))))
            return out
        out = []
        argn = []
        star = False
        for a in e.args:
            if isinstance(a, ast.Starred):
                star = True
                argn.append(a.value)
            else:
                argn.append(a)
        kwn = [k.value for k in e.keywords]
        if any(k.arg is None for k in e.keywords):
            raise Unsupported("**kwargs call")
        for (p, vs) in self.evs([e.func] + argn + kwn, P, ctx):
            f = vs[0]
            args = vs[1:1 + len(argn)]
            if star:
                flat = []
                for a_node, v in zip(e.args, args):
                    if isinstance(a_node, ast.Starred):
                        items = self.iter_items(p, v)
                        if items is None:
                            raise Unsupported("*args of unknown length")
                        flat.extend(items)
                    else:
                        flat.append(v)
                args = flat
            kwargs = dict(zip([k.arg for k in e.keywords], vs[1 + len(argn):]))
            out.extend(self.call(p, ctx, f, list(args), kwargs))
        return out

    def spec_form(self, e, P, ctx):
        name = e.func.id
        if name == "old":
            if P.old is None:
                raise SpecError("old() outside a postcondition")
            V = P.old.clone()
            st = dict(P.store)
            st.update(P.old.store)
            for fr in ctx.frames:   # names bound after the snapshot (result, ghost bindings) stay visible inside old()
                if fr.id in P.old.store and fr.id in P.store:
                    d = dict(P.store[fr.id])
                    d.update(P.old.store[fr.id])
                    st[fr.id] = d
            V.store = st
            V.pc = P.pc
            V.old = None
            res = self.ev(e.args[0], V, ctx)
            if len(res) != 1:
                raise SpecError("old() argument forks")
            return [(P, res[0][1])]
        lam = e.args[0]
        if not isinstance(lam, ast.Lambda):
            raise SpecError("%s needs a lambda" % name)
        kinds = []
        for a in e.args[1:]:
            if not (isinstance(a, ast.Constant) and isinstance(a.value, str)):
                raise SpecError("%s kind arguments must be string literals" % name)
            kinds.append(a.value)
        names = [a.arg for a in lam.args.args]
        while len(kinds) < len(names):
            kinds.append("int")
        bound = [self.sym("q_" + n, k) for n, k in zip(names, kinds)]
        fr = self.new_frame(P, dict(zip(names, bound)))
        # on-demand axiom instantiation (datetime theory, definitional spec functions) is switched off under a binder: an
        # instance at a bound variable is an assumption about one arbitrary constant - useless, and it bloats the path
        self.quant_depth = getattr(self, "quant_depth", 0) + 1
        try:
            res = self.ev(lam.body, P, ctx.child(fr))
        finally:
            self.quant_depth -= 1
        if len(res) != 1:
            raise SpecError("quantifier body forks")
        body = self.truth(res[0][1], P)
        vs = [b.payload[0] if isinstance(b, Opaque) else b.t for b in bound]      # an instant is bound through its microseconds
        if name == "exists":
            return [(P, Bool(z3.Exists(vs, body)))]
        pats = self.infer_patterns(vs, body)
        try:
            q = z3.ForAll(vs, body, patterns=pats) if pats else z3.ForAll(vs, body)
        except z3.Z3Exception:
            q = z3.ForAll(vs, body)
        return [(P, Bool(q))]

    @staticmethod
    def infer_patterns(vs, body):
        """Triggers for a contract quantifier: array reads A[x] whose index is exactly a bound variable (list elements,
        heap fields of a bound reference).  Offset indices (A[x + 1]) never make good triggers, so they are not used.
        Returns [] when no such cover of all bound variables exists (z3 then chooses)."""
        ids = {v.get_id(): v for v in vs}
        found = {}     # var id -> list of candidate terms

        def uses(t, acc):
            if t.get_id() in ids:
                acc.add(t.get_id())
            for c in t.children():
                uses(c, acc)

        seen = set()
        ite_cache = {}

        def has_ite(t):
            k = t.get_id()
            if k not in ite_cache:
                ite_cache[k] = (z3.is_app(t) and t.decl().kind() == z3.Z3_OP_ITE) or any(has_ite(c) for c in t.children())
            return ite_cache[k]

        def walk(t):
            if t.get_id() in seen:
                return
            seen.add(t.get_id())
            if z3.is_quantifier(t):
                return
            if z3.is_app(t) and t.decl().kind() == z3.Z3_OP_SELECT and t.num_args() == 2:
                idx = t.arg(1)
                if idx.get_id() in ids:
                    acc = set()
                    uses(t.arg(0), acc)
                    if (not acc or acc == {idx.get_id()}) and not has_ite(t.arg(0)):
                        # (the array term must itself be trigger-friendly: z3 rejects an `if` inside a pattern)
                        found.setdefault(idx.get_id(), []).append(t)
            for c in t.children():
                walk(c)

        walk(body)
        if not all(i in found for i in ids):
            return []
        # prefer list-element reads (nested selects on the elems arrays) over plain field reads: take up to 2 per var
        per = []
        single = len(ids) == 1
        for i in ids:
            uniq = {}
            for t in found[i]:
                uniq.setdefault(t.get_id(), t)
            cands = sorted(uniq.values(), key=lambda t: (-len(str(t.arg(0))), str(t)))
            per.append(cands[:10] if single else cands[:2])
        pats = []
        import itertools
        for combo in itertools.islice(itertools.product(*per), 10 if single else 4):
            pats.append(combo[0] if len(combo) == 1 else z3.MultiPattern(*combo))
        return pats

    def call(self, P, ctx, f, args, kwargs):
        if isinstance(f, Bound):
            return self.call(P, ctx, f.func, [f.selfv] + args, kwargs)
        if isinstance(f, Func):
            return self.call_func(P, ctx, f, args, kwargs)
        if isinstance(f, Builtin):
            name = f.name
            if f.selfv is not None:
                args = [f.selfv] + args
            if name in self.specfuns:
                return self.specfuns[name](self, P, ctx, *args, **kwargs)
            if name.startswith("method.") and f.selfv is not None and isinstance(f.selfv, Opaque) \
                    and f.selfv.tag in ("udecomp", "udfield", "udfields", "ucat"):
                return self.uni_method(self, P, ctx, f.selfv, name[7:], args[1:])
            h = self.models.get(name)
            if h is None:
                raise Unsupported("library call %s" % name)
            self.assume_used("A-LIB:" + name)
            return h(self, P, ctx, *args, **kwargs)
        if isinstance(f, ClassV):
            return self.instantiate(P, ctx, f, args, kwargs)
        if isinstance(f, Handle) and f.kind == "obj":
            for (p, m) in self.getattr(P, ctx, f, "__call__"):
                return self.call(p, ctx, m, args, kwargs)
        raise Unsupported("call of %r" % (f,))

    def bind_args(self, P, f, args, kwargs, ctx):
        a = f.node.args
        if a.vararg or a.kwarg or a.kwonlyargs or getattr(a, "posonlyargs", None):
            raise Unsupported("varargs in %s" % f.name)
        names = [x.arg for x in a.args]
        if len(args) > len(names):
            raise Unsupported("too many arguments for %s" % f.name)
        env = dict(zip(names, args))
        for k, v in kwargs.items():
            if k not in names or k in env:
                raise Unsupported("bad keyword %s for %s" % (k, f.name))
            env[k] = v
        ndef = len(a.defaults)
        for i, d in enumerate(a.defaults):
            nm = names[len(names) - ndef + i]
            if nm not in env:
                res = self.ev(d, P, Ctx(f.mod, f.frames or (self.new_frame(P),), False, f.name))
                if len(res) != 1:
                    raise Unsupported("default forks")
                env[nm] = res[0][1]
        missing = [n for n in names if n not in env]
        if missing:
            raise Unsupported("missing arguments %s for %s" % (missing, f.name))
        return env

    def call_func(self, P, ctx, f, args, kwargs):
        qual = f.qual
        con = self.contracts.get(qual) if qual else None
        # a caller may name a WEAKER summary of a callee for its own proof (e.g. only the callee's frame); the callee's own
        # preconditions are then not established at that call site -> recorded as an assumption of the caller
        over = (self.contracts.get(self.current) or {}).get("callee_contracts", {}).get(qual) if (qual and not ctx.spec) else None
        if over is not None:
            con = over
            self.assume_used("call-site summary of %s inside %s (callee preconditions not established here)" % (qual, self.current))
        hook = (self.contracts.get(ctx.fname) or {}).get("ghost", {}).get("before_call:%s" % qual) if not ctx.spec else None
        if hook is not None:
            hook(self, P, ctx, args)
        if ctx.spec:
            con = None  # contract text calls real (pure) functions by inlining them; side-effect free by construction
        if con is not None and not con.get("inline", False) and qual not in self.func_stack[-1:]:
            if not (self.current == qual and P.depth == 0):
                return self.call_contract(P, ctx, f, con, args, kwargs)
        if P.depth >= MAX_INLINE_DEPTH:
            raise Unsupported("inline depth exceeded at %s (recursion?)" % (f.qual or f.name))
        if f.qual and self.func_stack.count(f.qual) >= 2:
            raise Unsupported("recursive function %s has no contract" % f.qual)
        env = self.bind_args(P, f, args, kwargs, ctx)
        self.touched.add(ast.dump(f.node))
        fr = self.new_frame(P, env)
        c2 = Ctx(f.mod, f.frames + (fr,), ctx.spec, f.qual or f.name)
        self.func_stack.append(f.qual or f.name)
        depth0 = P.depth
        P.depth += 1
        own_floor = False
        if ctx.spec and self._spec_floor is None:
            from .values import fresh_id
            self._spec_floor = fresh_id()
            own_floor = True
        try:
            if isinstance(f.node, ast.Lambda):
                res = self.ev(f.node.body, P, c2)
                for (p, v) in res:
                    p.depth -= 1
                return res
            gen = None
            if any(isinstance(n, (ast.Yield, ast.YieldFrom)) for n in ast.walk(f.node)):
                # A-GEN: a generator whose body has no side effects is modelled by the LIST of the values it yields when it
                # is run to exhaustion (ghost list `yielded`, element kind from the contract's "yields")
                ykind = (self.contracts.get(f.qual) or {}).get("yields") if f.qual else None
                if ykind is None or any(isinstance(n, ast.YieldFrom) for n in ast.walk(f.node)):
                    raise Unsupported("generator function %s" % f.name)
                gen = self.new_slist(P, ykind, "yielded")
                d = dict(P.get(fr))
                d["yielded"] = gen
                P.put(fr, d)
                self.assume_used("A-GEN")
            self.index_loops(f.node)
            outs = self.exec_block(f.node.body, P, c2, self.nonlocals_of(f.node))
            res = []
            for (p, o) in outs:
                p.depth -= 1
                if gen is not None and o[0] in ("ret", "next"):
                    res.append((p, gen))
                elif o[0] == "ret":
                    res.append((p, o[1]))
                elif o[0] == "next":
                    res.append((p, NONE))
                elif o[0] == "exc":
                    self.raised.append((p, o[1]))
                else:
                    raise Unsupported("break/continue escaped function")
            if ctx.spec and len(res) > 1:
                P.depth = depth0          # the merged value lives on the caller's path, whose depth the callee's forks left raised
                return [self.merge_pure(P, res)]
            return res
        finally:
            if own_floor:
                self._spec_floor = None
            self.func_stack.pop()

    raised = []

    def merge_pure(self, P, res):
        """Merge the outcomes of a pure call (spec mode) into one conditional value on the caller's path."""
        base = len(P.pc)

        def lift(p, v):
            # python-side lists become tuples of their contents (the merged value is a fresh list on P)
            if isinstance(v, Handle) and v.kind == "list":
                return ("list", tuple(lift(p, x) for x in p.get(v)))
            return v

        def merge(cond, a, b):
            if isinstance(a, tuple) and isinstance(b, tuple) and a[0] == b[0] == "list":
                if len(a[1]) != len(b[1]):
                    raise Unsupported("cannot merge lists of different length from a pure call")
                return ("list", tuple(merge(cond, x, y) for x, y in zip(a[1], b[1])))
            return self.ite(cond, a, b)

        def lower(v):
            if isinstance(v, tuple) and v[0] == "list":
                return P.new("list", tuple(lower(x) for x in v[1]))
            return v

        val = lift(res[-1][0], res[-1][1])
        for (p, v) in reversed(res[:-1]):
            cond = z3.And(*p.pc[base:]) if len(p.pc) > base else z3.BoolVal(True)
            val = merge(cond, lift(p, v), val)
        # facts the callee's models assumed on its paths (pow10 laws, quotient lemmas) hold on P under the path guard
        alts = [z3.And(*p.pc[base:]) if len(p.pc) > base else z3.BoolVal(True) for (p, v) in res]
        P.assume(z3.Or(*alts))
        return (P, lower(val))

    def nonlocals_of(self, node):
        if isinstance(node, ast.Lambda):
            return ()
        return tuple(assigned_names(node)[1])

    def instantiate(self, P, ctx, c, args, kwargs):
        kindmap = self.types.get(c.name)
        if kindmap is not None and not kindmap.get("$python", False):
            r = Ref(self.alloc(P, c.name.lower(), c.name), c.name)
            obj = r
        else:
            obj = P.new("obj", {}, cls=(c.mod, c.name))
            self._constructed = getattr(self, "_constructed", set())
            self._constructed.add(obj.id)       # built by the REAL constructor on this path: its attribute set is exact
        try:
            m, init = self.repo.method(c.mod, c.name, "__init__")
        except KeyError:
            return [(P, obj)]
        f = Func(init, m, (), "__init__", cls=c.name, qual="%s.%s.__init__" % (m, c.name))
        return [(p, obj) for (p, _) in self.call(P, ctx, f, [obj] + args, kwargs)]

    # ------------------------------------------------------------------ contracts at call sites
    def call_contract(self, P, ctx, f, con, args, kwargs):
        env = self.bind_args(P, f, args, kwargs, ctx)
        qual = f.qual
        fr = self.new_frame(P, env)
        sctx = Ctx(f.mod, (fr,), True, qual)
        k = self.site()
        for i, (nm, src) in enumerate(self.named(con.get("requires", []))):
            self.prove_spec(P, "call.%s.pre.%s#%d" % (qual, nm, k), src, sctx, "pre")
        pre = P.clone()
        # havoc
        for key in con.get("modifies", []):
            self.havoc_heap(P, key)
        if con.get("modifies"):
            self.wf_after_havoc(P, pre, con.get("allocates", ()), con.get("modifies"))
        alts = con.get("returns_cases") or [{"returns": con.get("returns"), "ensures": []}]
        outs = []
        for ai, alt in enumerate(alts):
            Q = P.clone() if len(alts) > 1 else P
            rk = alt.get("returns")
            if rk is None or rk == "none":
                result = NONE
            elif rk == "self":
                result = args[0]
            elif callable(rk):
                # a summary may compute its result value from the ARGUMENTS of the call (third parameter)
                import inspect
                result = rk(self, Q, args) if len(inspect.signature(rk).parameters) >= 3 else rk(self, Q)
            else:
                result = self.sym("ret_" + f.name, rk)
                if isinstance(result, (Ref, SList)):
                    self.assume_allocated(Q, result.t)
                    if rk.startswith("slist:"):
                        Q.assume(result.t != NULL)
                        Q.assume(self.l_len(Q, result) >= 0)
            d = dict(Q.get(fr))
            d["result"] = result
            Q.put(fr, d)
            saved_old = Q.old
            Q.old = pre
            for (nm, src) in self.named(list(con.get("ensures", [])) + list(alt.get("ensures", []))):
                for (p, v) in self.ev(self.parse(src), Q, sctx):
                    Q.assume(self.truth(v, Q))
            Q.old = saved_old
            if len(alts) == 1 or self.feasible(Q):
                outs.append((Q, result))
        self.assume_used("contract:" + qual)
        return outs
        result = None
        self.assume_used("contract:" + qual)
        return [(P, result)]

    def wf_after_havoc(self, P, pre, allocates=(), modified=None):
        """allocation only grows, and only by objects of the classes the contract says it may allocate"""
        if not allocates:
            self.wf_axioms(P, only=set(modified) if modified is not None else None)
            return
        a0 = self.alloc_arr(pre)
        self.havoc_heap(P, "$alloc")
        a1 = self.alloc_arr(P)
        o = z3.Const("o!al", RefS)
        P.assume(z3.ForAll([o], z3.Implies(z3.Select(a0, o), z3.Select(a1, o)), patterns=[z3.Select(a1, o), z3.Select(a0, o)]))
        t0 = self.heap_array(pre, "$type", IntS)
        self.havoc_heap(P, "$type")
        t1 = self.heap_array(P, "$type", IntS)
        P.assume(z3.ForAll([o], z3.Implies(z3.Select(a0, o), z3.Select(t1, o) == z3.Select(t0, o)),
                           patterns=[z3.Select(t1, o), z3.Select(t0, o)]))
        ids = [self.type_id(c) for c in allocates]
        P.assume(z3.ForAll([o], z3.Implies(z3.And(z3.Not(z3.Select(a0, o)), z3.Select(a1, o)),
                                           z3.Or(*[z3.Select(t1, o) == i for i in ids])), patterns=[z3.Select(a1, o)]))
        self.wf_axioms(P)

    def havoc_heap(self, P, key):
        if key not in P.heap:
            if key == "$alloc":
                self.alloc_arr(P)
            else:
                # find the sort
                if key.startswith("list.len.") or key == "$type":
                    self.heap_array(P, key, IntS)
                elif key.startswith("list.$pos."):
                    self.heap_array(P, key, z3.ArraySort(IntS, IntS))
                elif key.startswith("list.elems."):
                    ek = key[len("list.elems."):].replace("~", ":")
                    self.heap_array(P, key, z3.ArraySort(IntS, self.esort(ek)))
                elif key.endswith("$set"):
                    self.heap_array(P, key, BoolS)
                elif key.endswith("$lastpos") or key.endswith("$vidx") or key.endswith("$nidx") or (key.split(".")[-1].startswith("$") and key.endswith("pos")):
                    self.heap_array(P, key, IntS)
                elif key.endswith("$lastlist"):
                    self.heap_array(P, key, RefS)
                else:
                    cls, fld = key.split(".", 1)
                    self.heap_array(P, key, self.sort_of_kind(self.field_kind(cls, fld).rstrip("?")))
        old = P.heap[key]
        P.heap[key] = self.fresh("H_" + key, old.sort())
        P.written.add(key)

    @staticmethod
    def named(lst):
        out = []
        for i, x in enumerate(lst):
            if isinstance(x, (tuple, list)):
                out.append((x[0], x[1]))
            else:
                out.append((str(i), x))
        return out

    _parse_cache = {}

    def parse(self, src):
        if src not in self._parse_cache:
            try:
                self._parse_cache[src] = ast.parse(src.strip(), mode="eval").body
            except SyntaxError as ex:
                raise SpecError("cannot parse contract expression %r: %s" % (src, ex))
        return self._parse_cache[src]

    # ------------------------------------------------------------------ statements
    def exec_block(self, stmts, P, ctx, nonlocals=()):
        """-> list of (path, outcome); outcome = ('next',) | ('ret', v) | ('brk',) | ('cont',) | ('exc', name)"""
        states = [(P, ("next",))]
        for st in stmts:
            nxt = []
            for (p, o) in states:
                if o[0] != "next":
                    nxt.append((p, o))
                    continue
                nxt.extend(self.exec_stmt(st, p, ctx, nonlocals))
            if self.debug and states and not nxt:
                import sys
                sys.stderr.write("[pyvc-debug] all paths ended at %s line %s: %s\n" % (ctx.fname, getattr(st, "lineno", "?"), ast.unparse(st)[:120]))
            states = nxt
            if not states:
                break
        return states

    def exec_stmt(self, st, P, ctx, nl):
        m = getattr(self, "st_" + type(st).__name__, None)
        if m is None:
            raise Unsupported("statement %s" % type(st).__name__)
        return m(st, P, ctx, nl)

    def st_Pass(self, st, P, ctx, nl):
        return [(P, ("next",))]

    def st_Expr(self, st, P, ctx, nl):
        if isinstance(st.value, ast.Constant):
            return [(P, ("next",))]
        outs = [(p, ("next",)) for (p, _) in self.ev(st.value, P, ctx)]
        k = self._expr_ord.get(id(st))
        if k is not None and ctx.fname == self.current and not ctx.spec:
            key = "after_expr#%d" % k
            cuts = list((self.contracts.get(ctx.fname) or {}).get("cuts", {}).get(key, [])) + \
                list((self.active_case or {}).get("cuts", {}).get(key, []))
            for (p, _) in outs:
                for (nm, src) in cuts:
                    self.prove_spec(p, "cut.expr%d.%s" % (k, nm), src, ctx.asspec(), "assert")
        return outs

    def st_Return(self, st, P, ctx, nl):
        if st.value is None:
            return [(P, ("ret", NONE))]
        return [(p, ("ret", v)) for (p, v) in self.ev(st.value, P, ctx)]

    def st_Break(self, st, P, ctx, nl):
        return [(P, ("brk",))]

    def st_Continue(self, st, P, ctx, nl):
        return [(P, ("cont",))]

    def st_Nonlocal(self, st, P, ctx, nl):
        return [(P, ("next",))]

    def st_Global(self, st, P, ctx, nl):
        raise Unsupported("global statement")

    def st_Raise(self, st, P, ctx, nl):
        name = "Exception"
        if st.exc is not None:
            n = st.exc.func if isinstance(st.exc, ast.Call) else st.exc
            if isinstance(n, ast.Name):
                name = n.id
        return [(P, ("exc", name))]

    def st_Assert(self, st, P, ctx, nl):
        out = []
        for (p, v) in self.ev(st.test, P, ctx):
            self.oblige(p, "assert#%d" % self.site(), self.truth(v, p), "safe")
            out.append((p, ("next",)))
        return out

    def st_FunctionDef(self, st, P, ctx, nl):
        self.assign_name(P, ctx, st.name, Func(st, ctx.mod, ctx.frames, st.name), nl)
        return [(P, ("next",))]

    def st_Assign(self, st, P, ctx, nl):
        con = self.contracts.get(ctx.fname)
        if (con and con.get("slist_locals") and len(st.targets) == 1 and isinstance(st.targets[0], ast.Name)
                and st.targets[0].id in con["slist_locals"] and isinstance(st.value, ast.List) and not st.value.elts):
            lst = self.new_slist(P, con["slist_locals"][st.targets[0].id][6:], st.targets[0].id)
            self.assign_name(P, ctx, st.targets[0].id, lst, nl)
            return [(P, ("next",))]
        out = []
        k = self._assign_ord.get(id(st))
        for (p, v) in self.ev(st.value, P, ctx):
            ps = [p]
            for t in st.targets:
                nps = []
                for q in ps:
                    nps.extend(self.bind_target(q, ctx, t, v, nl))
                ps = nps
            if k is not None and not ctx.spec and isinstance(st.targets[0], ast.Name):
                # ghost: the value given by the k-th assignment statement (source order) to this local stays nameable in
                # contract text as <name>__<k> (no program value depends on it)
                for q in ps:
                    self.assign_name(q, ctx, "%s__%d" % (st.targets[0].id, k), v, ())
                # cut-point assertions attached to this assignment site by the contract (proved, then assumed)
                if ctx.fname == self.current:
                    key = "after_assign:%s#%d" % (st.targets[0].id, k)
                    cuts = list((self.contracts.get(ctx.fname) or {}).get("cuts", {}).get(key, [])) + \
                        list((self.active_case or {}).get("cuts", {}).get(key, []))
                    for q in ps:
                        for (nm, src) in cuts:
                            self.prove_spec(q, "cut.%s.%s" % (key.split(":")[1], nm), src, ctx.asspec(), "assert")
            out.extend((q, ("next",)) for q in ps)
        return out

    def st_AnnAssign(self, st, P, ctx, nl):
        if st.value is None:
            return [(P, ("next",))]
        out = []
        for (p, v) in self.ev(st.value, P, ctx):
            out.extend((q, ("next",)) for q in self.bind_target(p, ctx, st.target, v, nl))
        return out

    def st_AugAssign(self, st, P, ctx, nl):
        load = self.as_load(st.target)
        out = []
        for (p, (cur, rhs)) in self.evs([load, st.value], P, ctx):
            if isinstance(cur, Handle) and cur.kind == "list" and isinstance(st.op, ast.Add):
                items = self.iter_items(p, rhs)
                if items is None:
                    raise Unsupported("list += symbolic")
                p.put(cur, p.get(cur) + tuple(items))
                out.append((p, ("next",)))
                continue
            for (q, v) in self.binop(st.op, cur, rhs, p, ctx):
                out.extend((r, ("next",)) for r in self.bind_target(q, ctx, st.target, v, nl))
        return out

    @staticmethod
    def as_load(t):
        t2 = ast.parse(ast.unparse(t), mode="eval").body
        return t2

    def bind_target(self, P, ctx, t, v, nl):
        """-> list of paths"""
        if isinstance(t, ast.Name):
            self.assign_name(P, ctx, t.id, v, nl)
            return [P]
        if isinstance(t, (ast.Tuple, ast.List)):
            items = self.iter_items(P, v)
            if items is None and isinstance(v, Opaque) and v.tag == "udfields" and len(t.elts) == 2 \
                    and not any(isinstance(x, ast.Starred) for x in t.elts):
                # a, b = decomposition(c).split() on the path where it does NOT have two fields: ValueError
                self.fail(P, "safe.unpack#%d" % self.site(), "not exactly 2 values to unpack")
                return []
            if items is None:
                raise Unsupported("unpacking of %r" % (v,))
            if len(items) != len(t.elts):
                self.fail(P, "safe.unpack#%d" % self.site(), "unpack %d into %d" % (len(items), len(t.elts)))
                return []
            ps = [P]
            for sub, x in zip(t.elts, items):
                nps = []
                for q in ps:
                    nps.extend(self.bind_target(q, ctx, sub, x, nl))
                ps = nps
            return ps
        if isinstance(t, ast.Attribute):
            out = []
            for (p, o) in self.ev(t.value, P, ctx):
                self.setattr(p, ctx, o, t.attr, v)
                out.append(p)
            return out
        if isinstance(t, ast.Subscript):
            out = []
            if isinstance(t.slice, ast.Slice):
                raise Unsupported("slice assignment")
            for (p, (o, k)) in self.evs([t.value, t.slice], P, ctx):
                out.extend(self.setitem(p, ctx, o, k, v))
            return out
        raise Unsupported("assignment target %s" % type(t).__name__)

    def setattr(self, P, ctx, o, attr, v):
        self.guard_global_write(o, P)
        if isinstance(o, Handle) and o.kind == "obj":
            d = dict(P.get(o))
            d[attr] = v
            P.put(o, d)
            P.written.add("py:%s.%s" % (o.cls[1] if o.cls else "?", attr))
            return
        if isinstance(o, Ref):
            self.guard_spec_write(o)
            self.oblige(P, "safe.null.%s#%d" % (attr, self.site()), o.t != NULL, "safe")
            self.hwrite(P, o.t, o.cls, attr, v)
            return
        raise Unsupported("attribute store on %r" % (o,))

    _spec_floor = None

    def guard_spec_write(self, o):
        """Contract text may only call PURE functions: forks of a call made from contract text are merged into one value and
        the stores of all but one fork are dropped, so a callee that writes into an object that existed before the call
        (a cache filled on first use) would be mis-modelled.  Such a call leaves the subset (never an alarm)."""
        if self._spec_floor is None or not isinstance(o, (Handle, Ref)):
            return
        if isinstance(o, Handle) and o.id >= self._spec_floor:
            return          # an object created by this very call
        raise Unsupported("a function called from contract text writes into an existing object (contract text may only call pure functions)")

    def guard_global_write(self, o, P=None):
        self.guard_spec_write(o)
        if isinstance(o, Handle) and o.id in getattr(self, "_global_ids", ()) and not getattr(self, "_in_module_init", False):
            if P is not None and (self.contracts.get(self.current) or {}).get("module_state") == "obligation":
                # this contract's frame excludes module-level state and SAYS a write is the violation (C10)
                self.oblige(P, "frame.module_state_untouched#%d" % self.site(), z3.BoolVal(False), "frame",
                            {"detail": "the path writes into a module-level object"})
                return
            raise Unsupported("write into a module-level object (global state is outside the model)")

    def setitem(self, P, ctx, o, k, v):
        self.guard_global_write(o, P)
        if isinstance(o, Handle) and o.kind == "dict":
            d = dict(P.get(o))
            d[self.dict_key(k)] = v
            P.put(o, d)
            return [P]
        if isinstance(o, Handle) and o.kind == "list":
            xs = list(P.get(o))
            n = self.cint(k)
            if n is None:
                raise Unsupported("store at symbolic index of python-side list")
            if not (-len(xs) <= n < len(xs)):
                self.fail(P, "safe.index#%d" % self.site(), "store index out of range")
                return []
            xs[n] = v
            P.put(o, tuple(xs))
            P.written.add("pylist")
            return [P]
        if isinstance(o, SList):
            self.need_num(k)
            ln = self.l_len(P, o)
            n = self.cint(k)
            idx = ln + n if (n is not None and n < 0) else k.t
            self.oblige(P, "safe.index#%d" % self.site(), z3.And(idx >= 0, idx < ln), "safe")
            self.l_store(P, o, idx, self.unwrap(v, o.ekind))
            return [P]
        raise Unsupported("item store on %r" % (o,))

    def st_If(self, st, P, ctx, nl):
        out = []
        for (p, c) in self.ev(st.test, P, ctx):
            for (q, tv) in self.branch(self.truth(c, p), p):
                out.extend(self.exec_block(st.body if tv else st.orelse, q, ctx, nl))
        return out

    # ------------------------------------------------------------------ loops
    _loop_ord = {}
    _assign_ord = {}
    _expr_ord = {}

    def loop_ordinal(self, st):
        """static ordinal of a loop statement: its pre-order position among the loops of the enclosing function
        (nested defs excluded) - independent of the path taken and of line numbers"""
        k = self._loop_ord.get(id(st))
        if k is not None:
            return k
        raise Unsupported("loop outside an indexed function body")

    def index_loops(self, fnode):
        if id(fnode) in self._loop_ord:
            return
        self._loop_ord[id(fnode)] = -1
        self._keep = getattr(self, "_keep", [])
        self._keep.append(fnode)
        count = [0]

        acount = {}
        ecount = [0]

        def walk(stmts):
            for st in stmts:
                if isinstance(st, (ast.FunctionDef, ast.ClassDef, ast.Lambda)):
                    continue
                if isinstance(st, ast.Assign) and len(st.targets) == 1 and isinstance(st.targets[0], ast.Name):
                    nm = st.targets[0].id
                    self._assign_ord[id(st)] = acount.get(nm, 0)
                    acount[nm] = acount.get(nm, 0) + 1
                if isinstance(st, ast.Expr) and not isinstance(st.value, ast.Constant):
                    self._expr_ord[id(st)] = ecount[0]
                    ecount[0] += 1
                if isinstance(st, (ast.For, ast.While)):
                    self._loop_ord[id(st)] = count[0]
                    count[0] += 1
                for fld in ("body", "orelse", "finalbody"):
                    sub = getattr(st, fld, None)
                    if isinstance(sub, list):
                        walk(sub)
                if isinstance(st, ast.Try):
                    for h in st.handlers:
                        walk(h.body)

        if not isinstance(fnode, ast.Lambda):
            walk(fnode.body)

    @staticmethod
    def loop_header(st):
        if isinstance(st, ast.For):
            t = ast.unparse(st.target)
            if t.startswith("(") and t.endswith(")"):
                t = t[1:-1]
            return "for %s in %s" % (t, ast.unparse(st.iter))
        return "while %s" % ast.unparse(st.test)

    def loop_spec(self, ctx, st):
        fn = ctx.fname
        k = self.loop_ordinal(st)
        con = self.contracts.get(fn)
        spec = None
        if con is not None:
            # a loop contract is keyed by the loop's HEADER TEXT ("for node in self._nodes", "while v is not None") when that
            # is unique in the function - stable when other loops are added or removed - else by its static ordinal
            hdr = self.loop_header(st)
            spec = con.get("loops", {}).get(hdr)
            if spec is not None:
                k = spec.get("label", hdr)
            else:
                spec = con.get("loops", {}).get(k)
            extra = (self.active_case or {}).get("loops", {}).get(k) if fn == self.current else None
            if extra:
                spec = dict(spec or {})
                spec["inv"] = list(extra.get("inv", [])) + list(spec.get("inv", []))
        return k, spec

    def st_While(self, st, P, ctx, nl):
        k, spec = self.loop_spec(ctx, st)
        if st.orelse:
            raise Unsupported("while-else")
        if spec is None:
            return self.unroll_while(st, P, ctx, nl, k)
        return self.cut_loop(st, P, ctx, nl, k, spec, kind="while")

    def unroll_while(self, st, P, ctx, nl, k):
        done = []
        work = [(P, 0)]
        while work:
            p, n = work.pop()
            for (p1, c) in self.ev(st.test, p, ctx):
                for (q, tv) in self.branch(self.truth(c, p1), p1):
                    if not tv:
                        done.append((q, ("next",)))
                        continue
                    if n >= MAX_UNROLL:
                        raise Unsupported("loop %s of %s needs an invariant (unwinding bound reached)" % (k, ctx.fname))
                    for (r, o) in self.exec_block(st.body, q, ctx, nl):
                        if o[0] in ("next", "cont"):
                            work.append((r, n + 1))
                        elif o[0] == "brk":
                            done.append((r, ("next",)))
                        else:
                            done.append((r, o))
        return done

    def st_For(self, st, P, ctx, nl):
        k, spec = self.loop_spec(ctx, st)
        if st.orelse:
            raise Unsupported("for-else")
        out = []
        for (p, it) in self.ev(st.iter, P, ctx):
            items = self.iter_items(p, it) if spec is None else None
            if items is not None:
                states = [(p, ("next",))]
                for x in items:
                    nxt = []
                    for (q, o) in states:
                        if o[0] != "next":
                            nxt.append((q, o))
                            continue
                        for q2 in self.bind_target(q, ctx, st.target, x, nl):
                            for (r, o2) in self.exec_block(st.body, q2, ctx, nl):
                                if o2[0] in ("next", "cont"):
                                    nxt.append((r, ("next",)))
                                elif o2[0] == "brk":
                                    nxt.append((r, ("brkdone",)))
                                else:
                                    nxt.append((r, o2))
                    states = nxt
                out.extend((q, ("next",) if o[0] == "brkdone" else o) for (q, o) in states)
                continue
            if spec is None:
                raise Unsupported("loop %s of %s iterates a symbolic-length %r and has no invariant" % (k, ctx.fname, it))
            out.extend(self.cut_loop(st, p, ctx, nl, k, spec, kind="for", iterable=it))
        return out

    def cut_loop(self, st, P, ctx, nl, k, spec, kind, iterable=None):
        """Cut a loop at its invariant.  Obligations: inv.init, inv.preserve (per path), variant."""
        fn = ctx.fname
        sctx = ctx.asspec()
        invs = self.named(spec.get("inv", []))
        idxname = spec.get("index", "_k%s" % k)
        # --- iteration protocol for `for`
        lo = hi = None
        seq = None
        if kind == "for":
            if isinstance(iterable, Opaque) and iterable.tag == "range":
                lo, hi, step = iterable.payload
                sc = self.cint(step)
                if sc not in (1, -1):
                    raise Unsupported("range step %r in a cut loop" % (step,))
                self.range_step = sc
            elif isinstance(iterable, SList):
                seq = iterable
                lo, hi = I(0), Num(self.l_len(P, iterable), True)
                self.range_step = 1
            elif isinstance(iterable, Opaque) and iterable.tag == "enumerate" and isinstance(iterable.payload[0], SList):
                seq = iterable.payload[0]
                lo, hi = I(0), Num(self.l_len(P, seq), True)
                self.range_step = 1
            else:
                raise Unsupported("cut loop over %r" % (iterable,))
            step = self.range_step
            self.assign_name(P, ctx, idxname, lo, ())
        if self.debug and not self.feasible(P):
            import sys
            sys.stderr.write("[pyvc-debug] loop %s of %s: path already infeasible when the loop is reached\n" % (k, fn))
        # --- init
        for (nm, src) in invs:
            self.prove_spec(P, "loop%s.inv.init.%s" % (k, nm), src, sctx, "inv")
        # --- havoc
        mod_locals = set(loop_assigned(st.body)) | set(spec.get("extra_locals", []))
        if kind == "for":
            mod_locals |= {idxname}
            tnames = [n.id for n in ast.walk(st.target) if isinstance(n, ast.Name)]
            mod_locals -= set(tnames)
        decl = spec.get("locals", {})
        H = P.clone()
        for name in sorted(mod_locals):
            try:
                cur = self.lookup(H, ctx, name)
            except Unsupported:
                cur = None
            if name in decl:
                nv = self.sym(name, decl[name])
            elif cur is None:
                continue  # not live at the loop head
            else:
                nv = self.havoc_like(H, name, cur)
            self.assign_name(H, ctx, name, nv, nl if name in nl else ())
        for key in spec.get("modifies", []):
            self.havoc_heap(H, key)
        if spec.get("modifies"):
            self.wf_after_havoc(H, P, spec.get("allocates", ()), spec.get("modifies"))
        # Python re-reads len(seq) at every step of `for x in seq`; the cut uses the length at entry (`hi`).  If the loop may
        # write the length array of this list kind, "the iterated list keeps its length" becomes an obligation of every
        # iteration (below) and - by induction - a fact at the loop head.
        len_guard = seq is not None and self.lenkey(seq.ekind) in spec.get("modifies", [])
        if len_guard:
            H.assume(self.l_len(H, seq) == hi.t)
        if kind == "for":
            iv = self.lookup(H, ctx, idxname)
            if step == 1:
                H.assume(z3.And(iv.t >= lo.t, z3.Or(iv.t <= hi.t, iv.t == lo.t)))
            else:
                H.assume(z3.And(iv.t <= lo.t, z3.Or(iv.t >= hi.t, iv.t == lo.t)))
        if self.debug and not self.feasible(H):
            import sys
            sys.stderr.write("[pyvc-debug] loop %s of %s: infeasible right after havoc\n" % (k, fn))
        for (nm, src) in invs:
            for (p, v) in self.ev(self.parse(src), H, sctx):
                H.assume(self.truth(v, H))
            if self.debug and not self.feasible(H):
                import sys
                sys.stderr.write("[pyvc-debug] loop %s of %s: infeasible after assuming invariant %s\n" % (k, fn, nm))
        written_before = set(H.written)
        H.written = set()
        # --- exit path and body path
        results = []
        if kind == "while":
            heads = []
            for (p1, c) in self.ev(st.test, H.clone(), ctx):
                heads.extend((q, tv) for (q, tv) in self.branch(self.truth(c, p1), p1))
        else:
            iv = self.lookup(H, ctx, idxname)
            cond = iv.t < hi.t if step == 1 else iv.t > hi.t
            heads = self.branch(cond, H.clone())
        for (q, tv) in heads:
            if not tv:
                q.written = written_before | set(spec.get("modifies", []))
                results.append((q, ("next",)))
                continue
            # variant at head
            dec0 = None
            if spec.get("dec"):
                r = self.ev(self.parse(spec["dec"]), q, sctx)
                dec0 = r[0][1]
            if kind == "for":
                iv = self.lookup(q, ctx, idxname)
                if seq is not None:
                    x = self.l_get(q, seq, iv.t)
                    if isinstance(iterable, Opaque) and iterable.tag == "enumerate":
                        x = Tup([iv, x])
                else:
                    x = iv
                qs = self.bind_target(q, ctx, st.target, x, nl)
            else:
                qs = [q]
            for q2 in qs:
                for (r, o) in self.exec_block(st.body, q2, ctx, nl):
                    if o[0] in ("next", "cont"):
                        if kind == "for":
                            iv = self.lookup(r, ctx, idxname)
                            self.assign_name(r, ctx, idxname, Num(iv.t + step, True), ())
                        undeclared = {w for w in r.written if not w.startswith("py") and w not in ("$alloc", "$type")} - set(spec.get("modifies", []))
                        if undeclared:
                            raise SpecError("loop %s of %s writes heap fields %s not in its modifies clause"
                                            % (k, fn, sorted(undeclared)))
                        if len_guard:
                            self.oblige(r, "loop%s.iterated_list_keeps_its_length" % k, self.l_len(r, seq) == hi.t, "safe")
                        for (nm, src) in invs:
                            self._splits = (spec.get("preserve_splits") or {}).get(nm)
                            try:
                                self.prove_spec(r, "loop%s.inv.preserve.%s" % (k, nm), src, sctx, "inv")
                            finally:
                                self._splits = None
                        if dec0 is not None:
                            d1 = self.ev(self.parse(spec["dec"]), r, sctx)[0][1]
                            self.oblige(r, "loop%s.variant" % k,
                                        z3.And(self.num(dec0).t >= 0, self.num(d1).t < self.num(dec0).t), "variant")
                    elif o[0] == "brk":
                        r.written = written_before | r.written | set(spec.get("modifies", []))
                        results.append((r, ("next",)))
                    else:
                        r.written = written_before | r.written
                        results.append((r, o))
        return results

    def havoc_like(self, P, name, cur):
        if isinstance(cur, Num):
            return Num(self.fresh(name, IntS if cur.isint else RealS), cur.isint)
        if isinstance(cur, Bool):
            return Bool(self.fresh(name, BoolS))
        if isinstance(cur, Ref):
            r = Ref(self.fresh(name, RefS), cur.cls)
            self.assume_allocated(P, r.t)
            P.assume(z3.Or(r.t == NULL, self.type_is(P, r.t, cur.cls)))
            return r
        if isinstance(cur, SList):
            r = SList(self.fresh(name, RefS), cur.ekind)
            P.assume(r.t != NULL)
            self.assume_allocated(P, r.t)
            P.assume(self.l_len(P, r) >= 0)
            return r
        if isinstance(cur, SeqStr):
            return SeqStr(self.fresh(name, z3.SeqSort(IntS)))
        if isinstance(cur, Str):
            return SeqStr(self.fresh(name, z3.SeqSort(IntS)))
        if isinstance(cur, Opaque) and cur.tag in ("dt", "td"):
            return Opaque(cur.tag, (self.fresh(name + "_us", IntS),))
        if isinstance(cur, (Func, ClassV, Builtin, ModuleV)):
            return cur
        raise Unsupported("cannot havoc local %s of shape %r (declare it in the loop spec 'locals')" % (name, cur))

    # ------------------------------------------------------------------ verifying one function
    builtin_names = set()
    ext_values = {}
