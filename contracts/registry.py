"""Which contracts, lemmas and bounded drivers decide which property (DESIGN.md section 6).

`inherits`: the property's check also runs the obligations of these properties (dependency closure, DESIGN section 1).
`t2`:       bounded stand-in drivers (tier T2) — reported as bounded, never as proved.
`level`:    'proof' only if every obligation on the property's critical path is T1/T3; else 'other'.
"""

CONTRACT_MODULES = ["utils", "scale", "renderer", "node", "vpsc", "removeoverlap", "distributor", "force", "d3time",
                    "timeline", "tex"]

PROPERTIES = {
    "C01": dict(t2=["c01"], inherits=[], level="other"),
    "C02": dict(t2=["c02"], inherits=[], level="other"),
    "C03": dict(t2=["c03"], inherits=[], level="other"),
    "C04": dict(t2=["c04"], inherits=[], level="other"),
    "C05": dict(t2=["c05"], inherits=[], level="other"),
    "C06": dict(t2=["c06"], inherits=[], level="other"),
    "C07": dict(t2=["c07"], inherits=[], level="other"),
    "C08": dict(t2=["c08"], inherits=[], level="other"),
    "C09": dict(t2=["c09"], inherits=["C20"], level="other"),
    "C10": dict(t2=["c10"], inherits=[], level="other"),
    "C11": dict(t2=["c11"], inherits=[], level="other", t1_all=True),
    "C12": dict(t2=["c12"], inherits=[], level="other"),
    "C13": dict(t2=["c13"], inherits=[], level="other"),
    "C14": dict(t2=["c14"], inherits=[], level="other"),
    "C15": dict(t2=["c15"], inherits=[], level="other"),
    "C16": dict(t2=["c16"], inherits=[], level="other"),
    "C17": dict(t2=["c17"], inherits=[], level="other"),
    "C18": dict(t2=["c18"], inherits=[], level="other"),
    "C19": dict(t2=["c19"], inherits=[], level="other"),
    "C20": dict(t2=["c20"], inherits=[], level="other"),
}


def load():
    """-> (types, contracts, specfuns, lemmas) merged over all sidecar modules that exist."""
    import importlib
    types, contracts, specfuns, lemmas = {}, {}, {}, {}
    for m in CONTRACT_MODULES:
        try:
            mod = importlib.import_module("contracts." + m)
        except ModuleNotFoundError as ex:
            if ex.name == "contracts." + m:
                continue
            raise
        for cls, fields in getattr(mod, "TYPES", {}).items():
            types.setdefault(cls, {}).update(fields)
        contracts.update(getattr(mod, "CONTRACTS", {}))
        specfuns.update(getattr(mod, "SPECFUNS", {}))
        lemmas.update(getattr(mod, "LEMMAS", {}))
    return types, contracts, specfuns, lemmas


def closure(prop):
    seen, todo = [], [prop]
    while todo:
        p = todo.pop(0)
        if p in seen:
            continue
        seen.append(p)
        todo.extend(PROPERTIES[p].get("inherits", []))
    return seen
