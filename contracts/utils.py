"""Sidecar contracts for labella/utils.py (property C20; used by C09)."""
import z3

from pyvc.values import SeqStr, Str, Num, Bool, IntS, RealS, Unsupported

TYPES = {}


# ---- spec functions over unbounded strings (sequences of code points) -------------------------------------
def _seq(E, s):
    return E.to_seq(s)


def _uf(E, name, *sorts):
    if name not in E.uf:
        E.uf[name] = z3.Function(name, *sorts)
    return E.uf[name]


def pow26(E, P, ctx, n):
    """26**n for n >= 0, as an uninterpreted function with the step law instantiated at n."""
    f = _uf(E, "pow26", IntS, IntS)
    t = n.t
    P.assume(f(z3.IntVal(0)) == 1)
    P.assume(z3.Implies(t >= 0, f(t) >= 1))
    P.assume(z3.Implies(t >= 0, f(t + 1) == 26 * f(t)))
    return [(P, Num(f(t), True))]


def bval(E, P, ctx, s):
    """bijective base-26 value of a string over A-Z: bval('') = 0, bval(c + s) = (ord(c)-64) * 26**len(s) + bval(s)."""
    f = _uf(E, "bval", z3.SeqSort(IntS), IntS)
    p26 = _uf(E, "pow26", IntS, IntS)
    t = z3.simplify(_seq(E, s))
    P.assume(f(z3.Empty(z3.SeqSort(IntS))) == 0)
    # unfold along the concrete spine of the term: Concat(Unit(c), rest)
    cur = t
    for _ in range(8):
        if z3.is_app(cur) and cur.decl().kind() == z3.Z3_OP_SEQ_CONCAT and cur.num_args() >= 2:
            head = cur.arg(0)
            rest = cur.arg(1) if cur.num_args() == 2 else z3.Concat(*[cur.arg(i) for i in range(1, cur.num_args())])
            if z3.is_app(head) and head.decl().kind() == z3.Z3_OP_SEQ_UNIT:
                c = head.arg(0)
                n = z3.Length(rest)
                P.assume(z3.Length(cur) == 1 + n)
                P.assume(p26(z3.IntVal(0)) == 1)
                P.assume(p26(n) >= 1)
                P.assume(p26(n + 1) == 26 * p26(n))
                P.assume(p26(z3.Length(cur)) == 26 * p26(n))
                P.assume(f(cur) == (c - 64) * p26(n) + f(rest))
                cur = rest
                continue
        if z3.is_app(cur) and cur.decl().kind() == z3.Z3_OP_SEQ_UNIT:
            P.assume(f(cur) == (cur.arg(0) - 64))
        break
    return [(P, Num(f(t), True))]


def val26(E, P, ctx, d, s):
    """V(d, s) = d * 26**len(s) + bval(s), kept UNINTERPRETED in code obligations (no nonlinear arithmetic there).
    The facts assumed here are instances of the T3 lemmas `C20/lemma.val26.*` (contracts/lemmas.py):
      step:  d > 0  =>  V(d, s) == V((d - m) div 26, chr(65 + m) + s)   with m = (d - 1) mod 26
      zero:  V(0, s) == bval(s)          empty: V(d, '') == d
    The step is the SPEC's step (Excel column naming); code that steps differently fails inv.preserve."""
    V = _uf(E, "val26", IntS, z3.SeqSort(IntS), IntS)
    f = _uf(E, "bval", z3.SeqSort(IntS), IntS)
    t = z3.simplify(_seq(E, s))
    dt = d.t
    m = (dt - 1) % 26
    P.assume(z3.Implies(dt > 0, V(dt, t) == V((dt - m) / 26, z3.Concat(z3.Unit(65 + m), t))))
    P.assume(V(z3.IntVal(0), t) == f(t))
    P.assume(V(dt, z3.Empty(z3.SeqSort(IntS))) == dt)
    return [(P, Num(V(dt, t), True))]


def letters(E, P, ctx, s):
    """every element of s is a code point of A..Z (uninterpreted predicate unfolded like bval)."""
    g = _uf(E, "letters", z3.SeqSort(IntS), z3.BoolSort())
    t = z3.simplify(_seq(E, s))
    P.assume(g(z3.Empty(z3.SeqSort(IntS))))
    cur = t
    if z3.is_app(cur) and cur.decl().kind() == z3.Z3_OP_SEQ_CONCAT and cur.num_args() == 2:
        head, rest = cur.arg(0), cur.arg(1)
        if z3.is_app(head) and head.decl().kind() == z3.Z3_OP_SEQ_UNIT:
            c = head.arg(0)
            P.assume(g(cur) == z3.And(c >= 65, c <= 90, g(rest)))
    return [(P, Bool(g(t)))]


def upperhex(E, P, ctx, s):
    cs = s.chars()
    ts = []
    for c in cs:
        t = z3.IntVal(ord(c)) if isinstance(c, str) else c
        ts.append(z3.Or(z3.And(t >= 48, t <= 57), z3.And(t >= 65, t <= 70)))
    return [(P, Bool(z3.And(*ts)))]


SPECFUNS = {"pow26": pow26, "bval": bval, "letters": letters, "upperhex": upperhex, "val26": val26}

# colour denoted by a 6-character code, by pairs of hex digits
_PAIR = "16 * hexvalue(%s[%d:%d]) + hexvalue(%s[%d:%d])"


def _six(var, off=0):
    return [_PAIR % (var, off + 2 * k, off + 2 * k + 1, var, off + 2 * k + 1, off + 2 * k + 2) for k in range(3)]


def _three(var, off=0):
    return ["17 * hexvalue(%s[%d:%d])" % (var, off + k, off + k + 1) for k in range(3)]


def _colour_cases():
    out = []
    for hashed in (False, True):
        for n in (3, 6):
            off = 1 if hashed else 0
            req = ["hexdigit(code[%d:%d])" % (off, off + n)]
            if hashed:
                req.append("code[0:1] == '#'")
            comps = _three("old(code)", off) if n == 3 else _six("old(code)", off)
            out.append({"params": {"code": "str:%d" % (n + off)}, "requires": req, "_comps": comps,
                        "_name": ("#" if hashed else "") + "%ddigits" % n})
    return out


def _with(cases, ens):
    out = []
    for c in cases:
        c2 = {k: v for k, v in c.items() if not k.startswith("_")}
        c2["ensures"] = [(nm, src.format(r=c["_comps"][0], g=c["_comps"][1], b=c["_comps"][2])) for nm, src in ens]
        out.append(c2)
    return out


CONTRACTS = {
    "utils.hex2dec": {
        "props": ["C20"], "inline": True,
        "params": {"s": "str:2"},
        "requires": ["hexdigit(s)"],
        "ensures": [("value", "result == 16 * hexvalue(s[0:1]) + hexvalue(s[1:2])"), ("is_int", "is_int(result)")],
    },
    "utils.hex2rgb": {
        "props": ["C20"], "inline": True,
        "cases": _with(_colour_cases(), [("r", "result[0] == {r}"), ("g", "result[1] == {g}"), ("b", "result[2] == {b}"),
                                         ("triple", "len(result) == 3"),
                                         ("bytes", "0 <= result[0] <= 255 and 0 <= result[1] <= 255 and 0 <= result[2] <= 255")]),
    },
    "utils.hex2rgbstr": {
        "props": ["C20"], "inline": True,
        "cases": _with(_colour_cases(), [("text", "result == 'rgb(' + str({r}) + ', ' + str({g}) + ', ' + str({b}) + ')'")]),
    },
    "utils.hex2html": {
        "props": ["C20"], "inline": True,
        "cases": _with(_colour_cases(), [("len6", "len(result) == 6"), ("upper", "upperhex(result)"),
                                         ("r", _PAIR % ("result", 0, 1, "result", 1, 2) + " == {r}"),
                                         ("g", _PAIR % ("result", 2, 3, "result", 3, 4) + " == {g}"),
                                         ("b", _PAIR % ("result", 4, 5, "result", 5, 6) + " == {b}")]),
    },
    "utils.int2name": {
        "props": ["C20"], "inline": True,
        "params": {"i": "int"},
        "requires": ["i >= 0"],
        "loops": {0: {"inv": [("div_nonneg", "div >= 0"),
                              ("value", "val26(div, name) == i + 1"),
                              ("letters", "letters(name)"),
                              ("nonempty", "div == i + 1 or len(name) >= 1")],
                      "dec": "div"}},
        "ensures": [("value", "bval(result) == i + 1"), ("letters", "letters(result)"), ("nonempty", "len(result) >= 1")],
    },
}


# ---- T3 lemmas (pure mathematics over the spec functions; independent of the repository) -------------------
def _lemma_val26_step():
    d, q, m, P, B = z3.Ints("d q m P B")
    mm = (d - 1) % 26
    dd = (d - mm) / 26
    linear = z3.ForAll([d], z3.Implies(d > 0, z3.And(d == 26 * dd + mm + 1, mm >= 0, mm < 26, dd >= 0, dd < d)))
    # with d = 26 q + m + 1:  V(q, c+s) = q*(26P) + ((m+1)P + B)  equals  V(d, s) = d*P + B     (P = 26**len(s), B = bval(s))
    poly = z3.ForAll([q, m, P, B], q * (26 * P) + ((m + 1) * P + B) == (26 * q + m + 1) * P + B)
    return [("division", linear), ("polynomial", poly)]


def _lemma_bval_order(maxlen=5):
    """length-then-alphabetical order on non-empty A-Z strings  <=>  numeric order of bval, for lengths <= maxlen
    (26 + ... + 26**5 = 12 356 630 names > the 10**6 of the statement's quantifier)."""
    goals = []
    for n in range(1, maxlen + 1):
        s = [z3.Int("s%d" % k) for k in range(n)]
        t = [z3.Int("t%d" % k) for k in range(n)]
        dom = z3.And(*[z3.And(x >= 1, x <= 26) for x in s + t])
        val = lambda ds: sum(ds[k] * 26 ** (len(ds) - 1 - k) for k in range(len(ds)))
        lex = z3.Or(*[z3.And(*([s[j] == t[j] for j in range(k)] + [s[k] < t[k]])) for k in range(n)])
        goals.append(("same_length_%d" % n, z3.ForAll(s + t, z3.Implies(dom, lex == (val(s) < val(t))))))
        u = [z3.Int("u%d" % k) for k in range(n + 1)]
        dom2 = z3.And(*[z3.And(x >= 1, x <= 26) for x in s + u])
        goals.append(("shorter_first_%d" % n, z3.ForAll(s + u, z3.Implies(dom2, val(s) < val(u)))))
    return goals


LEMMAS = {
    "C20/lemma.val26.step": {"props": ["C20"], "build": _lemma_val26_step,
                             "text": "one step of the bijective base-26 conversion preserves d*26**len(s) + bval(s)"},
    "C20/lemma.bval.order": {"props": ["C20"], "build": _lemma_bval_order,
                             "text": "bval is strictly monotone for the length-then-alphabetical order (lengths <= 5), hence injective: "
                                     "distinct indices get distinct names, enumerated in that order"},
}
