"""Sidecar contracts for labella/timeline.py (C10: a timeline's export depends only on its own data and options).

Under contract: the OPTION MERGE of Timeline.__init__ ("option defaults merged per instance", timeline.py:142-158).  The rest of
the constructor (parse_items, equal_heights, rotate_items, init_axis) is summarised at the call sites as not touching the
option dictionaries' identity (assumed; they are exercised by drivers c07-c11).  Obligations:
  * the instance owns its option dict, its `labella` dict, its `latex` dict and - unless the caller passed one - its scale:
    none of them IS the module-level default object;
  * the caller's dict is not written;
  * **no module-level object is written** (`module_state: obligation`): in this contract a write into DEFAULT_OPTIONS or into an
    object reachable from it is not merely "outside the model", it is the violation the property names ("timelines share
    nothing unless the caller passes them the same objects").
The emitters, get_nodes/compute and the module-level default scale's use after construction are not under contract.
"""
import z3

from pyvc.values import Str, NONE, Num, RefS, RealS, IntS

TYPES = {}
SPECFUNS = {}
LEMMAS = {}

_NOOP = {"requires": [], "modifies": [], "returns": "none", "ensures": []}
_SUMMARIES = {
    "timeline.Timeline.parse_items": dict(_NOOP, returns=lambda E, Q: Q.new("list", ())),
    "timeline.Timeline.equal_heights": _NOOP,
    "timeline.Timeline.rotate_items": _NOOP,
    "timeline.Timeline.init_axis": _NOOP,
}

_REPLAY = """
def replay(m):
    import copy
    import labella.timeline as tl
    before = repr(sorted((k, repr(v)) for k, v in tl.DEFAULT_OPTIONS.items() if k not in ("scale", "timeFn", "textFn")))
    items = [{"time": 1, "width": 30, "text": "a"}, {"time": 5, "width": 30, "text": "b"}]
    from labella.scale import LinearScale
    a = tl.Timeline(items, options={"scale": LinearScale(), "labella": {"maxPos": 77}, "latex": {"fontsize": "8pt"},
                                    "margin": {"left": 1, "right": 2, "top": 3, "bottom": 4}})
    b = tl.Timeline(items, options={"scale": LinearScale()})
    after = repr(sorted((k, repr(v)) for k, v in tl.DEFAULT_OPTIONS.items() if k not in ("scale", "timeFn", "textFn")))
    shared = [k for k in ("labella", "latex") if b.options[k] is tl.DEFAULT_OPTIONS[k] or b.options[k] is a.options[k]]
    leaked = {k: b.options[k] for k in ("labella", "latex", "margin") if repr(b.options[k]) != repr(tl.Timeline(items, options={"scale": LinearScale()}).options[k])}
    failed = before != after or bool(shared) or b.options["labella"].get("maxPos") == 77 or b.options["latex"]["fontsize"] != "11pt" \\
        or b.options["margin"] != {"left": 20, "right": 20, "top": 20, "bottom": 20}
    return failed, "DEFAULT_OPTIONS changed: %s; objects shared with the defaults/another instance: %r; second timeline's labella=%r fontsize=%r margin=%r" % (
        before != after, shared, b.options["labella"], b.options["latex"]["fontsize"], b.options["margin"]), \\
        "Timeline(items, {scale, labella: {maxPos: 77}, latex: {fontsize: 8pt}, margin: {...}}) then Timeline(items, {scale})"
"""

CONTRACTS = {}
for _name, _opts in (("none", "none"),
                     ("empty", {"$dict": {}}),
                     ("nested", {"$dict": {"labella": {"$dict": {"maxPos": "real"}},
                                           "latex": {"$dict": {"fontsize": lambda E, P, name: Str(["8pt"])}},
                                           "direction": lambda E, P, name: Str(["up"])}})):
    CONTRACTS["timeline.Timeline.__init__@options_%s" % _name] = {
        "props": ["C10", "C11"], "inline": True, "func_alias": "timeline.Timeline.__init__",
        "params": {"self": {"$obj": ("timeline", "Timeline"), "fields": {}}, "dicts": "none", "options": _opts,
                   "output_mode": lambda E, P, name: Str(["svg"])},
        "callee_contracts": _SUMMARIES,
        "module_state": "obligation",
        "replay": _REPLAY,
        "ensures": [
            ("own_option_dict", "self.options is not DEFAULT_OPTIONS"),
            ("own_labella_dict", "self.options['labella'] is not DEFAULT_OPTIONS['labella']"),
            ("own_latex_dict", "self.options['latex'] is not DEFAULT_OPTIONS['latex']"),
            ("own_scale_unless_given", "self.options['scale'] is not DEFAULT_OPTIONS['scale']"),
            ("direction_passed_to_the_engine", "self.options['labella']['direction'] == self.options['direction']"),
        ] + ([("callers_nested_dicts_not_adopted_for_writing", "self.options['labella'] is not old(options)['labella']"),
              ("callers_dict_unchanged", "'scale' not in old(options) and len(old(options)) == 3 and len(old(options)['labella']) == 1 "
                                         "and len(old(options)['latex']) == 1")]
             if _name == "nested" else []),
    }


# ---------------------------------------------------------------------------------------------------- Timeline.get_nodes
# C07 "exactly one label box per datum ... at its true time", C08: the width handed to the solver is the extent of the DRAWN
# box along the axis (the emitters draw node.w x node.h; Renderer.layout spaces the boxes by node.width).
def TP(E, P, ctx, d):
    """position of a datum on the axis = scale(timeFn(datum)): uninterpreted here (scale contracts: contracts/scale.py)"""
    f = E.uf.get("TIMEPOS")
    if f is None:
        f = E.uf["TIMEPOS"] = z3.Function("TIMEPOS", RefS, RealS)
    return [(P, Num(f(d.t), False))]


def nlast(E, P, ctx, n):
    return [(P, Num(z3.Select(E.heap_array(P, "Node.$lastpos", IntS), n.t), True))]


SPECFUNS.update({"TP": TP, "nlast": nlast})

_TIMEPOS_SUMMARY = {"requires": [], "modifies": [], "returns": "real", "ensures": ["result == TP(thedict)"]}
_PAD = {"$dict": {"left": "real", "right": "real", "top": "real", "bottom": "real"}}
_ALONG = "self.items[j].width + self.options['labelPadding']['left'] + self.options['labelPadding']['right']"
_ACROSS = "self.items[j].height + self.options['labelPadding']['top'] + self.options['labelPadding']['bottom']"
_NODE_W = ["Node.w", "Node.h", "Node.width"]
_NODE_NEW = ["Node.child", "Node.currentPos", "Node.data", "Node.dx", "Node.dx$set", "Node.dy", "Node.dy$set", "Node.h", "Node.idealPos",
             "Node.layerIndex", "Node.overlap", "Node.overlapCount", "Node.parent", "Node.w", "Node.width", "Node.x", "Node.x$set",
             "Node.y", "Node.y$set"]
_CREATED = ("nodes[j] is not None and nlast(nodes[j]) == j and nodes[j].data is self.items[j] and nodes[j].idealPos == TP(self.items[j].data) "
            "and nodes[j].currentPos == nodes[j].idealPos and nodes[j].parent is None and nodes[j].child is None and nodes[j].layerIndex == 0")
for _d in ("up", "down", "left", "right"):
    _vert = _d in ("left", "right")
    # the box drawn for a node is w x h in screen coordinates; vertical timelines swap the two
    _sized = ("nodes[j].w == %s and nodes[j].h == %s and nodes[j].width == %s" % ((_ACROSS, _ALONG, "nodes[j].h") if _vert
                                                                                 else (_ALONG, _ACROSS, "nodes[j].w")))
    CONTRACTS["timeline.Timeline.get_nodes@%s" % _d] = {
        "props": ["C07", "C08"], "heap": True, "func_alias": "timeline.Timeline.get_nodes",
        "params": {"self": {"$obj": ("timeline", "Timeline"),
                            "fields": {"items": "slist:ref:Item",
                                       "options": {"$dict": {"labelPadding": _PAD, "direction": lambda E, P, name, _d=_d: Str([_d])}}}}},
        "requires": ["forall(lambda j: implies(0 <= j < len(self.items), self.items[j] is not None))"],
        "callee_contracts": {"timeline.Timeline.timePos": _TIMEPOS_SUMMARY},
        "slist_locals": {"nodes": "slist:ref:Node"},
        "modifies": ["list.len.ref~Node", "list.elems.ref~Node", "Node.$lastpos", "Node.$lastlist"] + _NODE_NEW,
        "allocates": ["Node", "list"], "returns": "slist:ref:Node",
        "loops": {
            "for it in self.items": {
                "label": "_create", "index": "_kc", "locals": {"it": "ref:Item", "n": "ref:Node"},
                "modifies": ["list.len.ref~Node", "list.elems.ref~Node", "Node.$lastpos", "Node.$lastlist"] + _NODE_NEW, "allocates": ["Node"],
                "inv": [("one_node_per_item", "nodes is not None and fresh(nodes) and len(nodes) == _kc"),
                        ("created", "forall(lambda j: implies(0 <= j < _kc, %s and fresh(nodes[j])))" % _CREATED)]},
            "for node in nodes": {
                "label": "_size", "index": "_ks", "locals": {"node": "ref:Node"}, "modifies": _NODE_W,
                "inv": [("created_kept", "len(nodes) == len(self.items) and forall(lambda j: implies(0 <= j < len(nodes), %s))" % _CREATED),
                        ("prefix_sized", "forall(lambda j: implies(0 <= j < _ks, %s))" % _sized)]},
        },
        "ensures": [("one_node_per_datum", "result is not None and len(result) == len(self.items)"),
                    ("node_of_datum_j", "forall(lambda j: implies(0 <= j < len(result), result[j] is not None and result[j].data is self.items[j]))"),
                    ("at_its_own_time", "forall(lambda j: implies(0 <= j < len(result), result[j].idealPos == TP(self.items[j].data) and result[j].currentPos == result[j].idealPos))"),
                    ("no_stubs_yet", "forall(lambda j: implies(0 <= j < len(result), result[j].parent is None and result[j].child is None and result[j].layerIndex == 0))"),
                    ("box_is_text_plus_padding", "forall(lambda j: implies(0 <= j < len(result), %s))" % _sized.replace("nodes[j]", "result[j]").rsplit(" and ", 1)[0]),
                    ("solver_width_is_drawn_extent_along_the_axis", "forall(lambda j: implies(0 <= j < len(result), result[j].width == %s))"
                     % ("result[j].h" if _vert else "result[j].w"))],
    }
