"""Sidecar contracts for labella/timeline.py (C10: a timeline's export depends only on its own data and options).

Under contract: the OPTION MERGE of Timeline.__init__ ("option defaults merged per instance", timeline.py:142-158).  The rest of
the constructor (parse_items, equal_heights, rotate_items, init_axis) is summarised at the call sites as not touching the
option dictionaries' identity (assumed; they are exercised by drivers c07-c11).  Obligations:
  * the instance owns its option dict, its `labella` dict, its `latex` dict and - unless the caller passed one - its scale:
    none of them IS the module-level default object;
  * the caller's dict is not written;
  * **no module-level object is written** (`module_state: obligation`): in this contract a write into DEFAULT_OPTIONS or into an
    object reachable from it is not merely "outside the model", it is the violation the property names ("timelines share
    nothing unless the caller passes them the same objects").
The emitters, get_nodes/compute and the module-level default scale's use after construction are not under contract.
"""
from pyvc.values import Str, NONE

TYPES = {}
SPECFUNS = {}
LEMMAS = {}

_NOOP = {"requires": [], "modifies": [], "returns": "none", "ensures": []}
_SUMMARIES = {
    "timeline.Timeline.parse_items": dict(_NOOP, returns=lambda E, Q: Q.new("list", ())),
    "timeline.Timeline.equal_heights": _NOOP,
    "timeline.Timeline.rotate_items": _NOOP,
    "timeline.Timeline.init_axis": _NOOP,
}

_REPLAY = """
def replay(m):
    import copy
    import labella.timeline as tl
    before = repr(sorted((k, repr(v)) for k, v in tl.DEFAULT_OPTIONS.items() if k not in ("scale", "timeFn", "textFn")))
    items = [{"time": 1, "width": 30, "text": "a"}, {"time": 5, "width": 30, "text": "b"}]
    from labella.scale import LinearScale
    a = tl.Timeline(items, options={"scale": LinearScale(), "labella": {"maxPos": 77}, "latex": {"fontsize": "8pt"},
                                    "margin": {"left": 1, "right": 2, "top": 3, "bottom": 4}})
    b = tl.Timeline(items, options={"scale": LinearScale()})
    after = repr(sorted((k, repr(v)) for k, v in tl.DEFAULT_OPTIONS.items() if k not in ("scale", "timeFn", "textFn")))
    shared = [k for k in ("labella", "latex") if b.options[k] is tl.DEFAULT_OPTIONS[k] or b.options[k] is a.options[k]]
    leaked = {k: b.options[k] for k in ("labella", "latex", "margin") if repr(b.options[k]) != repr(tl.Timeline(items, options={"scale": LinearScale()}).options[k])}
    failed = before != after or bool(shared) or b.options["labella"].get("maxPos") == 77 or b.options["latex"]["fontsize"] != "11pt" \\
        or b.options["margin"] != {"left": 20, "right": 20, "top": 20, "bottom": 20}
    return failed, "DEFAULT_OPTIONS changed: %s; objects shared with the defaults/another instance: %r; second timeline's labella=%r fontsize=%r margin=%r" % (
        before != after, shared, b.options["labella"], b.options["latex"]["fontsize"], b.options["margin"]), \\
        "Timeline(items, {scale, labella: {maxPos: 77}, latex: {fontsize: 8pt}, margin: {...}}) then Timeline(items, {scale})"
"""

CONTRACTS = {}
for _name, _opts in (("none", "none"),
                     ("empty", {"$dict": {}}),
                     ("nested", {"$dict": {"labella": {"$dict": {"maxPos": "real"}},
                                           "latex": {"$dict": {"fontsize": lambda E, P, name: Str(["8pt"])}},
                                           "direction": lambda E, P, name: Str(["up"])}})):
    CONTRACTS["timeline.Timeline.__init__@options_%s" % _name] = {
        "props": ["C10", "C11"], "inline": True, "func_alias": "timeline.Timeline.__init__",
        "params": {"self": {"$obj": ("timeline", "Timeline"), "fields": {}}, "dicts": "none", "options": _opts,
                   "output_mode": lambda E, P, name: Str(["svg"])},
        "callee_contracts": _SUMMARIES,
        "module_state": "obligation",
        "replay": _REPLAY,
        "ensures": [
            ("own_option_dict", "self.options is not DEFAULT_OPTIONS"),
            ("own_labella_dict", "self.options['labella'] is not DEFAULT_OPTIONS['labella']"),
            ("own_latex_dict", "self.options['latex'] is not DEFAULT_OPTIONS['latex']"),
            ("own_scale_unless_given", "self.options['scale'] is not DEFAULT_OPTIONS['scale']"),
            ("direction_passed_to_the_engine", "self.options['labella']['direction'] == self.options['direction']"),
        ] + ([("callers_nested_dicts_not_adopted_for_writing", "self.options['labella'] is not old(options)['labella']"),
              ("callers_dict_unchanged", "'scale' not in old(options) and len(old(options)) == 3 and len(old(options)['labella']) == 1 "
                                         "and len(old(options)['latex']) == 1")]
             if _name == "nested" else []),
    }
