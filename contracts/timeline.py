"""Sidecar contracts for labella/timeline.py (C10: a timeline's export depends only on its own data and options).

Under contract: the OPTION MERGE of Timeline.__init__ ("option defaults merged per instance", timeline.py:142-158).  The rest of
the constructor (parse_items, equal_heights, rotate_items, init_axis) is summarised at the call sites as not touching the
option dictionaries' identity (assumed; they are exercised by drivers c07-c11).  Obligations:
  * the instance owns its option dict, its `labella` dict, its `latex` dict and - unless the caller passed one - its scale:
    none of them IS the module-level default object;
  * the caller's dict is not written;
  * **no module-level object is written** (`module_state: obligation`): in this contract a write into DEFAULT_OPTIONS or into an
    object reachable from it is not merely "outside the model", it is the violation the property names ("timelines share
    nothing unless the caller passes them the same objects").
The emitters, get_nodes/compute and the module-level default scale's use after construction are not under contract.
"""
import z3

from pyvc.values import Str, NONE, Num, RefS, RealS, IntS, Bool

TYPES = {}
SPECFUNS = {}
LEMMAS = {}

_NOOP = {"requires": [], "modifies": [], "returns": "none", "ensures": []}
_SUMMARIES = {
    "timeline.Timeline.parse_items": dict(_NOOP, returns=lambda E, Q: Q.new("list", ())),
    "timeline.Timeline.equal_heights": _NOOP,
    "timeline.Timeline.rotate_items": _NOOP,
    "timeline.Timeline.init_axis": _NOOP,
}

_REPLAY = """
def replay(m):
    import copy
    import labella.timeline as tl
    before = repr(sorted((k, repr(v)) for k, v in tl.DEFAULT_OPTIONS.items() if k not in ("scale", "timeFn", "textFn")))
    items = [{"time": 1, "width": 30, "text": "a"}, {"time": 5, "width": 30, "text": "b"}]
    from labella.scale import LinearScale
    a = tl.Timeline(items, options={"scale": LinearScale(), "labella": {"maxPos": 77}, "latex": {"fontsize": "8pt"},
                                    "margin": {"left": 1, "right": 2, "top": 3, "bottom": 4}})
    b = tl.Timeline(items, options={"scale": LinearScale()})
    after = repr(sorted((k, repr(v)) for k, v in tl.DEFAULT_OPTIONS.items() if k not in ("scale", "timeFn", "textFn")))
    shared = [k for k in ("labella", "latex") if b.options[k] is tl.DEFAULT_OPTIONS[k] or b.options[k] is a.options[k]]
    leaked = {k: b.options[k] for k in ("labella", "latex", "margin") if repr(b.options[k]) != repr(tl.Timeline(items, options={"scale": LinearScale()}).options[k])}
    failed = before != after or bool(shared) or b.options["labella"].get("maxPos") == 77 or b.options["latex"]["fontsize"] != "11pt" \\
        or b.options["margin"] != {"left": 20, "right": 20, "top": 20, "bottom": 20}
    return failed, "DEFAULT_OPTIONS changed: %s; objects shared with the defaults/another instance: %r; second timeline's labella=%r fontsize=%r margin=%r" % (
        before != after, shared, b.options["labella"], b.options["latex"]["fontsize"], b.options["margin"]), \\
        "Timeline(items, {scale, labella: {maxPos: 77}, latex: {fontsize: 8pt}, margin: {...}}) then Timeline(items, {scale})"
"""

CONTRACTS = {}
for _name, _opts in (("none", "none"),
                     ("empty", {"$dict": {}}),
                     ("nested", {"$dict": {"labella": {"$dict": {"maxPos": "real"}},
                                           "latex": {"$dict": {"fontsize": lambda E, P, name: Str(["8pt"])}},
                                           "direction": lambda E, P, name: Str(["up"])}})):
    CONTRACTS["timeline.Timeline.__init__@options_%s" % _name] = {
        "props": ["C10", "C11"], "inline": True, "func_alias": "timeline.Timeline.__init__",
        "params": {"self": {"$obj": ("timeline", "Timeline"), "fields": {}}, "dicts": "none", "options": _opts,
                   "output_mode": lambda E, P, name: Str(["svg"])},
        "callee_contracts": _SUMMARIES,
        "module_state": "obligation",
        "replay": _REPLAY,
        "ensures": [
            ("own_option_dict", "self.options is not DEFAULT_OPTIONS"),
            ("own_labella_dict", "self.options['labella'] is not DEFAULT_OPTIONS['labella']"),
            ("own_latex_dict", "self.options['latex'] is not DEFAULT_OPTIONS['latex']"),
            ("own_scale_unless_given", "self.options['scale'] is not DEFAULT_OPTIONS['scale']"),
            ("direction_passed_to_the_engine", "self.options['labella']['direction'] == self.options['direction']"),
        ] + ([("callers_nested_dicts_not_adopted_for_writing", "self.options['labella'] is not old(options)['labella']"),
              ("callers_dict_unchanged", "'scale' not in old(options) and len(old(options)) == 3 and len(old(options)['labella']) == 1 "
                                         "and len(old(options)['latex']) == 1")]
             if _name == "nested" else []),
    }


# ---------------------------------------------------------------------------------------------------- Timeline.get_nodes
# C07 "exactly one label box per datum ... at its true time", C08: the width handed to the solver is the extent of the DRAWN
# box along the axis (the emitters draw node.w x node.h; Renderer.layout spaces the boxes by node.width).
def TP(E, P, ctx, d):
    """position of a datum on the axis = scale(timeFn(datum)): uninterpreted here (scale contracts: contracts/scale.py)"""
    f = E.uf.get("TIMEPOS")
    if f is None:
        f = E.uf["TIMEPOS"] = z3.Function("TIMEPOS", RefS, RealS)
    return [(P, Num(f(d.t), False))]


def nlast(E, P, ctx, n):
    return [(P, Num(z3.Select(E.heap_array(P, "Node.$lastpos", IntS), n.t), True))]


SPECFUNS.update({"TP": TP, "nlast": nlast})

_TIMEPOS_SUMMARY = {"requires": [], "modifies": [], "returns": "real", "ensures": ["result == TP(thedict)"]}
_PAD = {"$dict": {"left": "real", "right": "real", "top": "real", "bottom": "real"}}
_ALONG = "self.items[j].width + self.options['labelPadding']['left'] + self.options['labelPadding']['right']"
_ACROSS = "self.items[j].height + self.options['labelPadding']['top'] + self.options['labelPadding']['bottom']"
_NODE_W = ["Node.w", "Node.h", "Node.width"]
_NODE_NEW = ["Node.child", "Node.currentPos", "Node.data", "Node.dx", "Node.dx$set", "Node.dy", "Node.dy$set", "Node.h", "Node.idealPos",
             "Node.layerIndex", "Node.overlap", "Node.overlapCount", "Node.parent", "Node.w", "Node.width", "Node.x", "Node.x$set",
             "Node.y", "Node.y$set"]
_CREATED = ("nodes[j] is not None and nlast(nodes[j]) == j and nodes[j].data is self.items[j] and nodes[j].idealPos == TP(self.items[j].data) "
            "and nodes[j].currentPos == nodes[j].idealPos and nodes[j].parent is None and nodes[j].child is None and nodes[j].layerIndex == 0")
for _d in ("up", "down", "left", "right"):
    _vert = _d in ("left", "right")
    # the box drawn for a node is w x h in screen coordinates; vertical timelines swap the two
    _sized = ("nodes[j].w == %s and nodes[j].h == %s and nodes[j].width == %s" % ((_ACROSS, _ALONG, "nodes[j].h") if _vert
                                                                                 else (_ALONG, _ACROSS, "nodes[j].w")))
    CONTRACTS["timeline.Timeline.get_nodes@%s" % _d] = {
        "props": ["C07", "C08"], "heap": True, "func_alias": "timeline.Timeline.get_nodes",
        "params": {"self": {"$obj": ("timeline", "Timeline"),
                            "fields": {"items": "slist:ref:Item",
                                       "options": {"$dict": {"labelPadding": _PAD, "direction": lambda E, P, name, _d=_d: Str([_d])}}}}},
        "requires": ["forall(lambda j: implies(0 <= j < len(self.items), self.items[j] is not None))"],
        "callee_contracts": {"timeline.Timeline.timePos": _TIMEPOS_SUMMARY},
        "slist_locals": {"nodes": "slist:ref:Node"},
        "modifies": ["list.len.ref~Node", "list.elems.ref~Node", "Node.$lastpos", "Node.$lastlist"] + _NODE_NEW,
        "allocates": ["Node", "list"], "returns": "slist:ref:Node",
        "loops": {
            "for it in self.items": {
                "label": "_create", "index": "_kc", "locals": {"it": "ref:Item", "n": "ref:Node"},
                "modifies": ["list.len.ref~Node", "list.elems.ref~Node", "Node.$lastpos", "Node.$lastlist"] + _NODE_NEW, "allocates": ["Node"],
                "inv": [("one_node_per_item", "nodes is not None and fresh(nodes) and len(nodes) == _kc"),
                        ("created", "forall(lambda j: implies(0 <= j < _kc, %s and fresh(nodes[j])))" % _CREATED)]},
            "for node in nodes": {
                "label": "_size", "index": "_ks", "locals": {"node": "ref:Node"}, "modifies": _NODE_W,
                "inv": [("created_kept", "len(nodes) == len(self.items) and forall(lambda j: implies(0 <= j < len(nodes), %s))" % _CREATED),
                        ("prefix_sized", "forall(lambda j: implies(0 <= j < _ks, %s))" % _sized)]},
        },
        "ensures": [("one_node_per_datum", "result is not None and len(result) == len(self.items)"),
                    ("node_of_datum_j", "forall(lambda j: implies(0 <= j < len(result), result[j] is not None and result[j].data is self.items[j]))"),
                    ("at_its_own_time", "forall(lambda j: implies(0 <= j < len(result), result[j].idealPos == TP(self.items[j].data) and result[j].currentPos == result[j].idealPos))"),
                    ("no_stubs_yet", "forall(lambda j: implies(0 <= j < len(result), result[j].parent is None and result[j].child is None and result[j].layerIndex == 0))"),
                    ("box_is_text_plus_padding", "forall(lambda j: implies(0 <= j < len(result), %s))" % _sized.replace("nodes[j]", "result[j]").rsplit(" and ", 1)[0]),
                    ("solver_width_is_drawn_extent_along_the_axis", "forall(lambda j: implies(0 <= j < len(result), result[j].width == %s))"
                     % ("result[j].h" if _vert else "result[j].w"))],
    }


# ---------------------------------------------------------------------------------------------------- TikZ emitters (C07, C09)
# The TikZ back-end writes plain text lines into a list, which the string model (A-STR) reaches; the SVG back-end builds an
# ElementTree and stays bounded (drivers c07-c09 parse both).  Loop-free harnesses: every number is symbolic, the node list has
# a stated concrete shape.
def _tex_obj(direction, extra=None, fields=None):
    opts = {"initialWidth": "real", "initialHeight": "real",
            "margin": {"$dict": {"left": "real", "right": "real", "top": "real", "bottom": "real"}},
            "latex": {"$dict": {"axisThickness": lambda E, P, name: Str(["thick"]), "linkThickness": lambda E, P, name: Str(["thin"])}},
            "dotRadius": "real", "direction": lambda E, P, name: Str([direction])}
    opts.update(extra or {})
    f = {"direction": lambda E, P, name: Str([direction]), "options": {"$dict": opts}}
    f.update(fields or {})
    return {"$obj": ("timeline", "TimelineTex"), "fields": f}


_IW = "(self.options['initialWidth'] - self.options['margin']['left'] - self.options['margin']['right'])"
_IH = "(self.options['initialHeight'] - self.options['margin']['top'] - self.options['margin']['bottom'])"
for _d in ("up", "down", "left", "right"):
    _vert = _d in ("left", "right")
    # C07: the axis line runs from the origin of the main layer over the FULL inner length (the range the scale maps onto)
    CONTRACTS["timeline.TimelineTex.add_timeline@%s" % _d] = {
        "props": ["C07", "C09"], "inline": True, "func_alias": "timeline.TimelineTex.add_timeline",
        "params": {"self": _tex_obj(_d), "doc": ["list"]},
        "ensures": [("five_lines", "len(doc) == 5"),
                    ("axis_line_over_the_full_inner_length",
                     ("doc[2] == '\\\\draw[thick] (0, 0) -- (0, %%i);' %% %s" % _IH) if _vert else ("doc[2] == '\\\\draw[thick] (0, 0) -- (%%i, 0);' %% %s" % _IW))],
    }
    # the main layer is shifted so that the axis origin sits where the SVG back-end's translate() puts it
    _shift = {"right": ("0", "0"), "down": ("0", "0"), "left": (_IW, "0"), "up": ("0", _IH)}[_d]
    CONTRACTS["timeline.TimelineTex.add_main@%s" % _d] = {
        "props": ["C09"], "inline": True, "func_alias": "timeline.TimelineTex.add_main",
        "params": {"self": _tex_obj(_d), "doc": ["list"]},
        "ensures": [("two_lines", "len(doc) == 2"),
                    ("shift_of_the_main_layer", "doc[1] == '\\\\begin{scope}[shift={(%%i, %%i)}]' %% (%s, %s)" % _shift)],
    }

# one opaque text atom stands for the per-datum macro suffix int2name(i) (its own contract: contracts/utils.py, C20)
SPECFUNS["MACRO_ID"] = lambda E, P, ctx: [(P, Str([("sym", "ID")]))]
_ID_SUMMARY = {"requires": [], "modifies": [], "returns": lambda E, Q: Str([("sym", "ID")]), "ensures": []}
_TWO_NODES = ["self.nodes[0] is not None and self.nodes[0].parent is None",
              # the second datum was pushed to layer 1: it owns one stub, which carries its data position (Node.createStub)
              "self.nodes[1] is not None and self.nodes[1].parent is not None and self.nodes[1].parent.parent is None",
              "self.nodes[1].parent.idealPos == self.nodes[1].idealPos"]
_DOT = "'\\\\draw node [circle, inner sep=0pt, minimum size=%%sbp, \\nfill=dotColor%%s] at %s {};' %% (str(2 * self.options['dotRadius']), MACRO_ID(), %s)"
for _d in ("up", "down", "left", "right"):
    _at = "(0, %f)" if _d in ("left", "right") else "(%f, 0)"
    # C07: one dot per datum, ON the axis line (the other coordinate is the literal 0), at the datum's own data position
    CONTRACTS["timeline.TimelineTex.add_dots@%s" % _d] = {
        "props": ["C07", "C09"], "heap": True, "inline": True, "func_alias": "timeline.TimelineTex.add_dots",
        "params": {"self": _tex_obj(_d, fields={"nodes": ["list", "ref:Node", "ref:Node"]}), "doc": ["list"]},
        "requires": list(_TWO_NODES), "modifies": [],
        "callee_contracts": {"utils.int2name": _ID_SUMMARY},
        "ensures": [("one_dot_per_datum", "len(doc) == 2 + 2 + 2"),
                    ("dot_0_on_the_axis_at_its_data_position", "doc[2] == " + _DOT % (_at, "self.nodes[0].idealPos")),
                    ("dot_1_on_the_axis_at_its_data_position", "doc[3] == " + _DOT % (_at, "self.nodes[1].idealPos"))],
    }


# ---- add_links: the step list of Renderer.generatePath (its own contract: contracts/renderer.py) is turned into \draw commands.
# Harness: ONE datum in layer 1 - move, curve, line, curve (every kind of step, a line followed by a curve) - with symbolic numbers.
def _gp(k):
    return Num(z3.Real("gp_%d" % k), False)


def _gp_steps(E, Q):
    f = lambda k: ("fmt", ".8f", _gp(k))
    def step(letter, ks):
        parts = [letter + " "]
        for i, k in enumerate(ks):
            if i:
                parts.append(" ")
            parts.append(f(k))
        return Str(parts)
    return Q.new("list", (step("M", [0, 1]), step("C", [2, 3, 4, 5, 6, 7]), step("L", [8, 9]), step("C", [10, 11, 12, 13, 14, 15])))


SPECFUNS["GP"] = lambda E, P, ctx, k: [(P, _gp(E.cint(k)))]
_GENPATH_SUMMARY = {"requires": [], "modifies": [], "returns": _gp_steps, "ensures": []}
_F = "'%.8f' % GP({})".format
_CURVE = "'\\\\draw[color=linkColor%s, thin] (%s, %s) .. controls\\n(%s, %s) and (%s, %s) .. (%s, %s);' % (MACRO_ID(), {})"
_LINE = "'\\\\draw[color=linkColor%s, thin] (%s, %s) -- (%s, %s);' % (MACRO_ID(), {})"
_LINKS_TEXT = " + '\\n' + ".join([
    # curve: from the point of the move to the end of the first curve
    _CURVE.format(", ".join(_F(k) for k in (0, 1, 2, 3, 4, 5, 6, 7))),
    # line: starts where the curve ENDED (6, 7)
    _LINE.format(", ".join(_F(k) for k in (6, 7, 8, 9))),
    # curve: starts where the line ENDED (8, 9) - the path is continuous
    _CURVE.format(", ".join(_F(k) for k in (8, 9, 10, 11, 12, 13, 14, 15)))])
CONTRACTS["timeline.TimelineTex.add_links"] = {
    "props": ["C07", "C09"], "heap": True, "inline": True,
    "params": {"self": _tex_obj("up", fields={"nodes": ["list", "ref:Node"], "renderer": {"$obj": ("renderer", "Renderer"), "fields": {}}}),
               "doc": ["list"]},
    "requires": ["self.nodes[0] is not None"], "modifies": [],
    "callee_contracts": {"utils.int2name": _ID_SUMMARY, "renderer.Renderer.generatePath": _GENPATH_SUMMARY},
    "ensures": [("one_link_per_datum", "len(doc) == 2 + 1 + 2"),
                ("continuous_path_through_the_steps_in_order", "doc[2] == " + _LINKS_TEXT)],
}


# ---- add_labels: one box per datum, its origin at nodePos (printed with %i: the 1-unit truncation of C08/C09), its size the
# node's w x h (what get_nodes computed), colours and text macro of THAT datum.  Harness: two laid-out data, no border.
def _laid_out(E, P, env):
    from contracts.renderer import _set_flags
    for n in P.get(P.get(env["self"])["nodes"]):
        _set_flags(E, P, n)
    return [(P, env)]


from contracts.renderer import NODEPOS_POST as _NP
_BOX = ("'\\\\fill[color=labelBgColor%s, rounded corners=2pt]\\n(0, 0) rectangle (%s, %s) node[midway, yshift=-.75bp, anchor=center, "
        "text=labelTextColor%s] {{\\\\strut %s}};' % (MACRO_ID(), str({n}.w), str({n}.h), MACRO_ID(), '\\\\text' + MACRO_ID())")
for _d in ("up", "down", "left", "right"):
    def _origin(n, _d=_d):
        return "'\\\\begin{scope}[shift={(%%i, %%i)}]' %% (%s, %s)" % tuple(e.replace("d.", n + ".") for e in _NP[_d])
    CONTRACTS["timeline.TimelineTex.add_labels@%s" % _d] = {
        "props": ["C08", "C09", "C07"], "heap": True, "inline": True, "func_alias": "timeline.TimelineTex.add_labels",
        "params": {"self": _tex_obj(_d, extra={"showBorder": lambda E, P, name: Bool(z3.BoolVal(False))},
                                    fields={"nodes": ["list", "ref:Node", "ref:Node"]}), "doc": ["list"]},
        "setup": _laid_out,
        "requires": ["self.nodes[0] is not None and self.nodes[1] is not None",
                     "self.nodes[0].data is not None and self.nodes[0].data.text is not None and self.nodes[1].data is not None and self.nodes[1].data.text is not None"],
        "modifies": [], "callee_contracts": {"utils.int2name": _ID_SUMMARY},
        "ensures": [("one_box_per_datum", "len(doc) == 2 + 3 * 2 + 2"),
                    ("box_0_origin", "doc[2] == " + _origin("self.nodes[0]")), ("box_0_size_colours_text", "doc[3] == " + _BOX.format(n="self.nodes[0]")),
                    ("box_1_origin", "doc[5] == " + _origin("self.nodes[1]")), ("box_1_size_colours_text", "doc[6] == " + _BOX.format(n="self.nodes[1]"))],
    }


# ---- add_header_colors: every per-datum colour macro is defined from the colour option entry OF THAT DATUM (index i, cycling
# through a list-valued option) under the macro name OF THAT DATUM.  Harness: three data, every colour option a list of two
# literal colours (so the third datum cycles back to the first entry), border shown; int2name and hex2html are the real
# functions, executed on these concrete values.
def _colour_list(a, b):
    return lambda E, P, name: P.new("list", (Str([a]), Str([b])))


_COLS = {"dotColor": ("#112233", "#abc"), "labelBgColor": ("#445566", "#DEF"), "labelTextColor": ("#000000", "#fff"),
         "linkColor": ("#778899", "#123"), "borderColor": ("#aabbcc", "#9f0")}
_HTML = {"#112233": "112233", "#abc": "AABBCC", "#445566": "445566", "#DEF": "DDEEFF", "#000000": "000000", "#fff": "FFFFFF",
         "#778899": "778899", "#123": "112233", "#aabbcc": "AABBCC", "#9f0": "99FF00"}
_exp = []
_line = 0
for _name in ("dotColor", "labelBgColor", "labelTextColor", "linkColor", "borderColor"):
    for _i in range(3):
        _exp.append(("%s_of_datum_%d" % (_name, _i),
                     "doc[%d] == '\\\\definecolor{%s%s}{HTML}{%s}'" % (_line, _name, "ABC"[_i], _HTML[_COLS[_name][_i % 2]])))
        _line += 1
    _line += 1          # the empty separator line
CONTRACTS["timeline.TimelineTex.add_header_colors"] = {
    "props": ["C09"], "heap": True, "inline": True,
    "params": {"self": _tex_obj("up", extra=dict({k: _colour_list(*v) for k, v in _COLS.items()},
                                                 showBorder=lambda E, P, name: Bool(z3.BoolVal(True))),
                                fields={"nodes": ["list", "ref:Node", "ref:Node", "ref:Node"]}), "doc": ["list"]},
    "requires": ["self.nodes[0] is not None and self.nodes[1] is not None and self.nodes[2] is not None",
                 "self.nodes[0].data is not None and self.nodes[1].data is not None and self.nodes[2].data is not None"],
    "modifies": [], "callee_contracts": {"utils.int2name": {"requires": [], "modifies": [], "ensures": [],
                                            # int2name(0..2) == 'A', 'B', 'C' (contracts/utils.py proves the enumeration order)
                                            "returns": lambda E, Q, args: Str(["ABC"[E.cint(args[0])]])},
                         "utils.hex2html": {"inline": True}},
    "ensures": [("five_blocks", "len(doc) == %d" % _line)] + _exp,
}


# ---------------------------------------------------------------------------------------------------- Timeline.parse_items
# C07 "the datum's time exactly as supplied, including its time of day" (D9 was: datetimes truncated to midnight).  Harness:
# one datum with an explicit width and text; the time is (a) a datetime: kept to the microsecond, (b) a number: kept as it is.
def _one_datum(kind):
    return ["list", {"$dict": {"time": kind, "width": "real", "text": lambda E, P, name: Str(["label"])}}]


_PARSE_SELF = {"$obj": ("timeline", "Timeline"),
               "fields": {"options": {"$dict": {"textFn": "none",
                                                "latex": {"$dict": {"fontsize": lambda E, P, name: Str(["11pt"]), "preamble": lambda E, P, name: Str([""]),
                                                                    "latexmkOptions": "none"}}}}}}
for _kind, _same in (("dt", "us(result[0].time) == us(dicts[0]['time'])"), ("real", "result[0].time == dicts[0]['time']")):
    CONTRACTS["timeline.Timeline.parse_items@%s" % ("datetime" if _kind == "dt" else "number")] = {
        "props": ["C07", "C11"], "inline": True, "func_alias": "timeline.Timeline.parse_items", "py_classes": ["Item"],
        "params": {"self": _PARSE_SELF, "dicts": _one_datum(_kind), "output_mode": lambda E, P, name: Str(["svg"])},
        "ensures": [("one_item_per_datum", "len(result) == 1"),
                    ("time_exactly_as_supplied", _same),
                    ("explicit_width_kept", "result[0].width == dicts[0]['width']"),
                    ("payload_is_the_datum", "result[0].data is dicts[0]")],
    }


# ---------------------------------------------------------------------------------------------------- Timeline.init_axis
# C07 "maps the axis domain onto the full axis length": with an explicit numeric domain the scale (a real LinearScale in an
# arbitrary earlier state) sends the two domain ends to 0 and to the inner length ALONG the axis; probes are made by the epilogue.
def _init_axis_setup(direction):
    def setup(E, P, env):
        from contracts.scale import new_linear_scale
        outs = []
        for (p, sc, g) in new_linear_scale(E, P, "ax", False):
            d0, d1 = E.sym("dom0", "real"), E.sym("dom1", "real")
            opts = p.new("dict", {"domain": p.new("list", (d0, d1)), "scale": sc, "direction": Str([direction]),
                                  "initialWidth": E.sym("iw", "real"), "initialHeight": E.sym("ih", "real"),
                                  "margin": p.new("dict", {k: E.sym("m_" + k, "real") for k in ("left", "right", "top", "bottom")})})
            obj = p.new("obj", {"options": opts, "direction": Str([direction])}, cls=("timeline", "Timeline"))
            outs.append((p, dict(env, self=obj, d0=d0, d1=d1)))
        return outs
    return setup


for _d in ("up", "down", "left", "right"):
    _len = _IH if _d in ("left", "right") else _IW
    CONTRACTS["timeline.Timeline.init_axis@%s_explicit_domain" % _d] = {
        "props": ["C07"], "inline": True, "func_alias": "timeline.Timeline.init_axis",
        "params": {"data": "none"}, "setup": _init_axis_setup(_d),
        "requires": ["d0 != d1"],
        "epilogue": "_p0 = self.options['scale'](d0)\n_p1 = self.options['scale'](d1)\n_dm = self.options['scale'].domain()\n",
        "ensures": [("domain_is_the_one_given_not_niced", "_dm[0] == d0 and _dm[1] == d1"),
                    ("domain_start_maps_to_the_axis_origin", "_p0 == 0"),
                    ("domain_end_maps_to_the_full_axis_length", "_p1 == " + _len)],
    }
