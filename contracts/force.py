"""Sidecar contracts for labella/force.py (C03, C04, C06).

Under contract: Force.set_options (the available width handed to the layering step) and Force.compute from both entry
states (no layering reported yet / a layering already reported): the detach loop establishes the precondition of
distribute() (no label arrives with a stale stub), which is an obligation of compute; the reported layering is the list
distribute() returned.  distribute()'s postcondition is assumed and removeOverlap is used through its frame (call-site
summaries below); the layering algorithms themselves are bounded only (drivers c04, c06).
"""
from pyvc.values import Str

TYPES = {}
SPECFUNS = {}
LEMMAS = {}


def force_obj(minpos, maxpos):
    return {"$obj": ("force", "Force"),
            "fields": {"options": {"$dict": {"nodeSpacing": "real", "minPos": minpos, "maxPos": maxpos,
                                             "algorithm": lambda E, P, name: Str(["overlap"]), "density": "real", "stubWidth": "real"}},
                       "distributor": {"$obj": ("distributor", "Distributor"),
                                       "fields": {"options": {"$dict": {"algorithm": lambda E, P, name: Str(["simple"]),
                                                                        "layerWidth": "real", "density": "real", "nodeSpacing": "real",
                                                                        "stubWidth": "real"}}}}}}


CONTRACTS = {}
for _mn in ("none", "real"):
    for _mx in ("none", "real"):
        both = _mn == "real" and _mx == "real"
        CONTRACTS["force.Force.set_options@min_%s_max_%s" % (_mn, _mx)] = {
            "props": ["C03", "C04"], "inline": True, "func_alias": "force.Force.set_options",
            "params": {"self": force_obj(_mn, _mx), "x": "none"},
            "ensures": [
                # "available width handed to the layering step": the distance between the bounds, or none
                ("layer_width", "self.distributor.options['layerWidth'] == self.options['maxPos'] - self.options['minPos']" if both
                 else "self.distributor.options['layerWidth'] is None"),
                ("same_spacing", "self.distributor.options['nodeSpacing'] == self.options['nodeSpacing']"),
                ("same_density", "self.distributor.options['density'] == self.options['density']"),
                ("same_stub_width", "self.distributor.options['stubWidth'] == self.options['stubWidth']"),
                ("same_algorithm", "self.distributor.options['algorithm'] == self.options['algorithm']"),
            ],
        }


# ---------------------------------------------------------------------------------------------------- Force.compute (C04, C06)
def force_full(layers="none", minpos="real"):
    return {"$obj": ("force", "Force"),
            "fields": {"options": {"$dict": {"nodeSpacing": "real", "minPos": minpos, "maxPos": "real",
                                             "algorithm": lambda E, P, name: Str(["overlap"]), "density": "real", "stubWidth": "real"}},
                       "distributor": {"$obj": ("distributor", "Distributor"),
                                       "fields": {"options": {"$dict": {"algorithm": lambda E, P, name: Str(["overlap"]),
                                                                        "layerWidth": "real", "density": "real", "nodeSpacing": "real",
                                                                        "stubWidth": "real"}}}},
                       "_nodes": "slist:ref:Node", "layers": layers, "force": {"$dict": {}}}}


_NODE_ALL = ["Node.idealPos", "Node.currentPos", "Node.width", "Node.data", "Node.layerIndex", "Node.parent", "Node.child",
             "Node.overlap", "Node.overlapCount", "Node.targetPos", "Node.targetPos$set"]
_LISTS = ["list.len.ref~Node", "list.elems.ref~Node", "list.len.slist~ref~Node", "list.elems.slist~ref~Node"]

# Call-site summaries used inside Force.compute.  distribute: ASSUMED (bounded driver c04 checks the structure it returns);
# its precondition IS an obligation of compute.  removeOverlap: only its frame is used here (its own contract is verified in
# contracts/removeoverlap.py; its preconditions are not established from distribute's assumed postcondition).
_DISTRIBUTE_SUMMARY = {
    # labels arrive without stubs of an earlier layout: otherwise a label that now sits in layer 0 keeps a stub that is in
    # no layer ("no other items exist", "owns exactly one stub in each layer nearer the axis")
    "requires": [("labels_arrive_without_stale_stubs", "forall(lambda j: implies(0 <= j < len(nodes), nodes[j].parent is None))")],
    "modifies": _NODE_ALL + _LISTS, "allocates": ["Node", "list"], "returns": "slist:slist:ref:Node",
    "ensures": ["forall(lambda k: implies(0 <= k < len(result), result[k] is not None and fresh(result[k]) or result[k] is nodes))",
                "forall(lambda k: implies(0 <= k < len(result), result[k] is not None))",
                "forall(lambda k: implies(0 <= k < len(result), forall(lambda j: implies(0 <= j < len(result[k]), result[k][j] is not None))))",
                "fresh(result)"],
}
_REMOVEOVERLAP_SUMMARY = {
    "requires": [],
    "modifies": ["Node.targetPos", "Node.targetPos$set", "Node.currentPos", "list.elems.ref~Node"],
    "allocates": ["Variable", "Constraint", "Solver", "Blocks", "Block", "PositionStats", "list"],
    "returns": "slist:ref:Node",
    "ensures": ["result is nodes",
                # sorts the layer in place: same items (none is lost to None); every other list is untouched
                "forall(lambda j: implies(0 <= j < len(nodes), nodes[j] is not None))",
                "forall(lambda l, j: implies(l is not nodes and old(alloc(l)), l[j] is old_at(l, j)), 'slist:ref:Node', 'int')"],
}

def _ghost_passed_options(E, P, ctx, args):
    """before every `removeOverlap.removeOverlap(nodes, simOptions)`: the options handed to the overlap-removal step are the
    engine's CONFIGURED spacing and bounds (C01 "the configured spacing", C03 "a lower and/or upper bound is configured") -
    stated over the value that is passed, not over the name of a local"""
    fr = E.new_frame(P, {"passed": args[1]})
    sctx = ctx.child(fr).asspec()
    for k in ("nodeSpacing", "minPos", "maxPos"):
        E.prove_spec(P, "call.removeOverlap.receives_configured_%s.present" % k, "'%s' in passed" % k, sctx, "assert")
        E.prove_spec(P, "call.removeOverlap.receives_configured_%s.value" % k,
                     "implies('%s' in passed, passed['%s'] == self.options['%s'])" % (k, k, k), sctx, "assert")


CONTRACTS["force.Force.compute"] = {
    "props": ["C04", "C06", "C02", "C01", "C03"], "heap": True,
    "ghost": {"before_call:removeOverlap.removeOverlap": _ghost_passed_options},
    "params": {"self": force_full()},
    "requires": ["forall(lambda j: implies(0 <= j < len(self._nodes), self._nodes[j] is not None))"],
    "modifies": _NODE_ALL + _LISTS,
    "allocates": ["Node", "list", "Variable", "Constraint", "Solver", "Blocks", "Block", "PositionStats"],
    "callee_contracts": {"distributor.Distributor.distribute": _DISTRIBUTE_SUMMARY,
                         "removeOverlap.removeOverlap": _REMOVEOVERLAP_SUMMARY},
    "loops": {
        # every registered label is detached from the stub chain of whatever layout it was part of before
        "for node in self._nodes": {
            "label": "_detach", "index": "_kd", "modifies": ["Node.parent", "Node.child"], "locals": {"node": "ref:Node"},
            "inv": [("prefix_detached", "forall(lambda j: implies(0 <= j < _kd, self._nodes[j].parent is None))")]},
        "for layerIndex, nodes in enumerate(layers)": {
            "label": "_layers", "index": "_kl", "modifies": ["Node.layerIndex", "Node.targetPos", "Node.targetPos$set", "Node.currentPos", "list.elems.ref~Node"],
            "allocates": ["Variable", "Constraint", "Solver", "Blocks", "Block", "PositionStats", "list"],
            "locals": {"layerIndex": "int", "nodes": "slist:ref:Node", "node": "ref:Node"},
            "inv": [("layers_nonnull", "forall(lambda k: implies(0 <= k < len(layers), layers[k] is not None))"),
                    ("items_nonnull", "forall(lambda k: implies(0 <= k < len(layers), forall(lambda j: implies(0 <= j < len(layers[k]), layers[k][j] is not None))))")]},
        "for node in nodes": {
            "label": "_stamp", "index": "_ks", "modifies": ["Node.layerIndex"], "locals": {"node": "ref:Node"},
            "inv": [("prefix_stamped", "forall(lambda j: implies(0 <= j < _ks, nodes[j].layerIndex == layerIndex))")]},
    },
    # concrete scenario of the two clauses a counter-model cannot be rebuilt for (heap contract): labels that carry the stub
    # chains of an earlier, crowded layout are laid out again with room for all of them
    "replay": """
def replay(m):
    from labella.force import Force
    from labella.node import Node
    nodes = [Node(10 + 2 * k, 12) for k in range(9)]
    f = Force({"maxPos": 60}); f.nodes(nodes); f.compute()
    g = Force({"maxPos": None}); g.nodes(nodes); g.compute()
    layers = g.getLayers()
    stale = [k for k, n in enumerate(nodes) if n.parent is not None]
    # the same on ONE engine: compute, re-configure with room for everything, compute again
    nodes2 = [Node(10 + 2 * k, 12) for k in range(9)]
    h = Force({"maxPos": 60}); h.nodes(nodes2); h.compute(); h.set_options({"maxPos": None}); h.compute()
    stale2 = [k for k, n in enumerate(nodes2) if n.parent is not None]
    failed = layers is None or bool(stale) or bool(stale2) or h.getLayers() is None
    return failed, "getLayers() = %s; labels still owning a stub after a single-layer layout: second engine %r, same engine re-configured %r" % (
        "None" if layers is None else "%d layer(s)" % len(layers), stale, stale2), \
        "9 labels at 10,12,..,26 width 12; (a) Force({'maxPos': 60}).nodes(nodes).compute(); Force({'maxPos': None}).nodes(nodes).compute()  (b) one Force: compute(); set_options({'maxPos': None}); compute()"
""",
    # "the engine reports exactly this layering after a layout" (D2 was: never set)
    "ensures": [("reports_the_layering", "self.layers is layers__0")],
}

# the same contract from the other entry state: the engine already reports a layering (a second compute on the same engine)
CONTRACTS["force.Force.compute@again"] = dict(CONTRACTS["force.Force.compute"], func_alias="force.Force.compute",
                                              params={"self": force_full(layers="slist:slist:ref:Node")})

# ... and with the lower bound switched off (`minPos: None`, a documented configuration): `None` must reach removeOverlap as
# `None` - an option that is dropped on the way is replaced by removeOverlap's own default bound 0
CONTRACTS["force.Force.compute@no_lower_bound"] = dict(CONTRACTS["force.Force.compute"], func_alias="force.Force.compute",
                                                       params={"self": force_full(minpos="none")})


# ---------------------------------------------------------------------------------------------------- Force.__init__ / nodes
# C10 "timelines share nothing unless the caller passes them the same objects", C01-C03 "the documented defaults": a new
# engine owns its option dictionary (and so does its distributor), starts from the documented defaults, takes the caller's
# values on top, never writes a module-level default object and never adopts the caller's dictionary.
for _nm, _opts in (("defaults", "none"), ("given", {"$dict": {"nodeSpacing": "real", "maxPos": "real"}})):
    CONTRACTS["force.Force.__init__@%s" % _nm] = {
        "props": ["C10", "C01", "C03"], "inline": True, "func_alias": "force.Force.__init__",
        "params": {"self": {"$obj": ("force", "Force"), "fields": {}}, "options": _opts},
        "module_state": "obligation",
        "ensures": [("own_option_dict", "self.options is not DEFAULT_OPTIONS"),
                    ("distributor_owns_its_options", "self.distributor.options is not distributor.DEFAULT_OPTIONS and self.distributor.options is not self.options"),
                    ("no_layering_reported_yet", "self.layers is None and len(self._nodes) == 0"),
                    ("documented_default_bounds", "self.options['minPos'] == 0" + (" and self.options['maxPos'] is None and self.options['nodeSpacing'] == 3"
                                                                                   if _nm == "defaults" else "")),
                    ("distributor_follows_the_engine", "self.distributor.options['nodeSpacing'] == self.options['nodeSpacing'] "
                                                       "and self.distributor.options['stubWidth'] == self.options['stubWidth']")]
        + ([("callers_values_on_top", "self.options['nodeSpacing'] == options['nodeSpacing'] and self.options['maxPos'] == options['maxPos']"),
            ("callers_dict_not_adopted", "self.options is not options and len(options) == 2"),
            ("layer_width_is_the_distance_between_the_bounds", "self.distributor.options['layerWidth'] == options['maxPos'] - 0")] if _nm == "given" else
           [("no_layer_width_without_an_upper_bound", "self.distributor.options['layerWidth'] is None")]),
    }
