"""Sidecar contracts for labella/force.py (C03, C04, C06).

Under contract: Force.set_options (the available width handed to the layering step), Force.nodes (setter resets the
reported layering).  Force.compute is NOT under contract yet (it needs the layering algorithms' postcondition as an
assumed contract and a permutation argument across the in-place sort of every layer): bounded only (drivers c04, c06).
"""
from pyvc.values import Str

TYPES = {}
SPECFUNS = {}
LEMMAS = {}


def force_obj(minpos, maxpos):
    return {"$obj": ("force", "Force"),
            "fields": {"options": {"$dict": {"nodeSpacing": "real", "minPos": minpos, "maxPos": maxpos,
                                             "algorithm": lambda E, P, name: Str(["overlap"]), "density": "real", "stubWidth": "real"}},
                       "distributor": {"$obj": ("distributor", "Distributor"),
                                       "fields": {"options": {"$dict": {"algorithm": lambda E, P, name: Str(["simple"]),
                                                                        "layerWidth": "real", "density": "real", "nodeSpacing": "real",
                                                                        "stubWidth": "real"}}}}}}


CONTRACTS = {}
for _mn in ("none", "real"):
    for _mx in ("none", "real"):
        both = _mn == "real" and _mx == "real"
        CONTRACTS["force.Force.set_options@min_%s_max_%s" % (_mn, _mx)] = {
            "props": ["C03", "C04"], "inline": True, "func_alias": "force.Force.set_options",
            "params": {"self": force_obj(_mn, _mx), "x": "none"},
            "ensures": [
                # "available width handed to the layering step": the distance between the bounds, or none
                ("layer_width", "self.distributor.options['layerWidth'] == self.options['maxPos'] - self.options['minPos']" if both
                 else "self.distributor.options['layerWidth'] is None"),
                ("same_spacing", "self.distributor.options['nodeSpacing'] == self.options['nodeSpacing']"),
                ("same_density", "self.distributor.options['density'] == self.options['density']"),
                ("same_stub_width", "self.distributor.options['stubWidth'] == self.options['stubWidth']"),
                ("same_algorithm", "self.distributor.options['algorithm'] == self.options['algorithm']"),
            ],
        }
