"""Sidecar contracts for labella/d3_time.py (C17; used by C14, C16, C18) over the datetime theory A-DT (pyvc/models_dt.py).

Every unit's interval object is the REAL object built by the module-level statements `d3_time["unit"] = d3_time_interval(
lambda ..., lambda ..., lambda ...)`: the contracts below run d3_time_interval.floor/ceil/round/offset on that object, so
the three lambdas of each unit are verified through the generic methods (inlined).

Boundaries: second/minute/hour/day/week are arithmetic progressions of microsecond instants (length L, phase PH; the week
phase is Sunday 00:00 = day 3 of the epoch week, 1970-01-01 being a Thursday); month and year boundaries are the first
instants of civil months/years (spec functions month_start / year_start below, with their successor).

C18: no function here reads the time zone - timestamp()/fromtimestamp()/today() are not modelled by A-DT, so a function
using one would leave tier T1 (status left-subset) and be reported as such.
"""
import z3

from pyvc.values import Num, Bool, Opaque, I, IntS, Unsupported, SpecError
from pyvc.engine import Ctx
from pyvc.models_dt import DAY_US

TYPES = {}
SEC, MIN, HOUR = 10 ** 6, 60 * 10 ** 6, 3600 * 10 ** 6
FIXED = {"second": (SEC, 0), "minute": (MIN, 0), "hour": (HOUR, 0), "day": (DAY_US, 0), "week": (7 * DAY_US, 3 * DAY_US)}


def _u(x):
    return x.payload[0]


def month_start(E, P, ctx, t):
    n = E.dt_dn(_u(t))
    E.dt_civil_facts(P, n)
    f = E.dt_funcs
    return [(P, Num(f["DAYS"](f["CY"](n), f["CM"](n), z3.IntVal(1)) * DAY_US, True))]


def month_len(E, P, ctx, t):
    n = E.dt_dn(_u(t))
    E.dt_civil_facts(P, n)
    f = E.dt_funcs
    return [(P, Num(E.dt_dim(f["CY"](n), f["CM"](n)) * DAY_US, True))]


def year_start(E, P, ctx, t):
    n = E.dt_dn(_u(t))
    E.dt_civil_facts(P, n)
    f = E.dt_funcs
    y = f["CY"](n)
    E.dt_days_facts(P, y, z3.IntVal(1), z3.IntVal(1))
    return [(P, Num(f["DAYS"](y, z3.IntVal(1), z3.IntVal(1)) * DAY_US, True))]


def year_len(E, P, ctx, t):
    n = E.dt_dn(_u(t))
    E.dt_civil_facts(P, n)
    y = E.dt_funcs["CY"](n)
    return [(P, Num(z3.If(E.dt_leap(y), 366, 365) * DAY_US, True))]


def month_index(E, P, ctx, t):
    """12 * year + month - 1 of the civil month containing t"""
    n = E.dt_dn(_u(t))
    E.dt_civil_facts(P, n)
    f = E.dt_funcs
    return [(P, Num(12 * f["CY"](n) + f["CM"](n) - 1, True))]


def civil_year(E, P, ctx, t):
    n = E.dt_dn(_u(t))
    E.dt_civil_facts(P, n)
    return [(P, Num(E.dt_funcs["CY"](n), True))]


def is_month_start(E, P, ctx, t):
    n = E.dt_dn(_u(t))
    E.dt_civil_facts(P, n)
    return [(P, Bool(z3.And(E.dt_funcs["CD"](n) == 1, E.dt_tod(_u(t)) == 0)))]


def is_year_start(E, P, ctx, t):
    n = E.dt_dn(_u(t))
    E.dt_civil_facts(P, n)
    f = E.dt_funcs
    return [(P, Bool(z3.And(f["CD"](n) == 1, f["CM"](n) == 1, E.dt_tod(_u(t)) == 0)))]


LO_US = -25567 * DAY_US        # 1900-01-01T00:00
HI_US = 84371 * DAY_US         # 2201-01-01T00:00


def in_range_years(E, P, ctx, t):
    """the quantifier of C14-C18: years 1900 .. 2200 (well inside datetime's 1..9999), stated on the instant itself:
    1900-01-01 <= t < 2201-01-01.  That these instants have a civil year in 1900..2200 is one more calendar fact
    (A-DT; the two day numbers and the monotonicity of the year are checked by selftest/conformance.py); it is
    instantiated here, outside binders."""
    return _in_range(E, P, t, True)


def in_range_us(E, P, ctx, t):
    """the same condition, without instantiating the calendar facts of t's date and its neighbours (for callers that do
    only fixed-length arithmetic on t: the enumeration loops)"""
    return _in_range(E, P, t, False)


def _in_range(E, P, t, civil):
    u = _u(t)
    n = E.dt_dn(u)
    inside = z3.And(u >= LO_US, u < HI_US)
    if not getattr(E, "quant_depth", 0):
        if civil:
            E.dt_civil_facts(P, n)
        y = E.dt_funcs["CY"](n)
        P.assume(z3.Implies(inside, z3.And(y >= 1900, y <= 2200)))
        P.assume(z3.Implies(z3.And(y >= 1900, y <= 2200, E.dt_valid(y, E.dt_funcs["CM"](n), E.dt_funcs["CD"](n)),
                                   E.dt_funcs["DAYS"](y, E.dt_funcs["CM"](n), E.dt_funcs["CD"](n)) == n), inside))
        E.assume_used("A-DT")
    return [(P, Bool(inside))]


SPECFUNS = {"month_start": month_start, "month_len": month_len, "year_start": year_start, "year_len": year_len,
            "month_index": month_index, "civil_year": civil_year, "is_month_start": is_month_start,
            "is_year_start": is_year_start, "in_range_years": in_range_years, "in_range_us": in_range_us}


def interval_setup(unit):
    def setup(E, P, env):
        tab = E.global_name(P, "d3_time", "d3_time")
        out = dict(env)
        out["self"] = P.get(tab)[unit]
        return [(P, out)]
    return setup


CONTRACTS = {}
_REQ = ["in_range_years(date)"]


def _boundary(expr, unit):
    if unit in FIXED:
        L, PH = FIXED[unit]
        return "us(%s) %% %d == %d" % (expr, L, PH)
    return ("is_month_start(%s)" if unit == "month" else "is_year_start(%s)") % expr


for _unit in ("second", "minute", "hour", "day", "week", "month", "year"):
    base = {"props": ["C17", "C14", "C16", "C18"], "inline": True, "setup": interval_setup(_unit)}
    if _unit in FIXED:
        L, PH = FIXED[_unit]
        floor_post = [("boundary", _boundary("result", _unit)),
                      ("latest_not_after", "us(result) <= us(date) < us(result) + %d" % L)]
        ceil_post = [("boundary", _boundary("result", _unit)),
                     ("earliest_not_before", "us(result) - %d < us(date) <= us(result)" % L)]
        round_post = [("boundary", _boundary("result", _unit)),
                      ("nearer_later_on_tie", "2 * (us(date) - us(result)) < %d and 2 * (us(result) - us(date)) <= %d" % (L, L))]
        offset_post = [("kth_following", "us(result) == us(date) + k * %d" % L), ("boundary", _boundary("result", _unit))]
    else:
        st, ln = ("month_start", "month_len") if _unit == "month" else ("year_start", "year_len")
        floor_post = [("boundary", _boundary("result", _unit)),
                      ("is_start_of_own_period", "us(result) == %s(date)" % st),
                      ("latest_not_after", "us(result) <= us(date) < us(result) + %s(date)" % ln)]
        ceil_post = [("boundary", _boundary("result", _unit)),
                     ("earliest_not_before", "us(result) >= us(date)"),
                     ("less_than_one_period_later", "us(result) - us(date) < %s(date)" % ln),
                     ("no_earlier_boundary", "implies(%s, result == date) and implies(not %s, us(result) == %s(date) + %s(date))"
                      % (_boundary("date", _unit), _boundary("date", _unit), st, ln))]
        round_post = [("boundary", _boundary("result", _unit)),
                      ("one_of_the_two", "us(result) == %s(date) or us(result) == %s(date) + %s(date)" % (st, st, ln)),
                      ("nearer_later_on_tie", "implies(us(result) == %s(date), 2 * (us(date) - us(result)) < %s(date)) and "
                                              "implies(us(result) != %s(date), 2 * (us(result) - us(date)) <= %s(date))" % (st, ln, st, ln))]
        if _unit == "month":
            offset_post = [("boundary", _boundary("result", _unit)),
                           ("kth_following", "month_index(result) == month_index(date) + k")]
        else:
            offset_post = [("boundary", _boundary("result", _unit)),
                           ("kth_following", "civil_year(result) == civil_year(date) + k")]
    CONTRACTS["d3_time.d3_time_interval.floor@%s" % _unit] = dict(
        base, func_alias="d3_time.d3_time_interval.floor", params={"date": "dt"}, requires=_REQ, ensures=floor_post)
    CONTRACTS["d3_time.d3_time_interval.ceil@%s" % _unit] = dict(
        base, func_alias="d3_time.d3_time_interval.ceil", params={"date": "dt_ms"}, requires=_REQ, ensures=ceil_post)
    CONTRACTS["d3_time.d3_time_interval.round@%s" % _unit] = dict(
        base, func_alias="d3_time.d3_time_interval.round", params={"date": "dt"}, requires=_REQ, ensures=round_post)
    CONTRACTS["d3_time.d3_time_interval.offset@%s" % _unit] = dict(
        base, func_alias="d3_time.d3_time_interval.offset", params={"date": "dt", "k": "int"},
        requires=_REQ + ["0 <= k <= 400", _boundary("date", _unit)], ensures=offset_post)

LEMMAS = {}

# the month step has a loop (one iteration per year carried): cut at an invariant instead of unrolling 34 times
CONTRACTS["d3_time.d3_time_month_offset"] = {
    "props": ["C17", "C14", "C16"],
    "params": {"date": "dt", "offset": "int"},
    "requires": ["1899 <= civil_year(date) <= 2201", "0 <= offset <= 400", "is_month_start(date)"],
    "modifies": [], "returns": "dt",
    "loops": {0: {"locals": {"ndate": "dt", "nmonth": "int"},
                  "inv": [("month_start", "is_month_start(ndate)"),
                          ("january_or_original", "month_index(ndate) % 12 == month_index(date) % 12"),
                          ("index", "month_index(ndate) - month_index(date) + nmonth == month_index(date) % 12 + 1 + offset"),
                          ("nmonth_low", "nmonth >= 1"),
                          ("year_range", "civil_year(date) <= civil_year(ndate) <= civil_year(date) + 34")],
                  "dec": "nmonth"}},
    "ensures": [("boundary", "is_month_start(result)"),
                ("kth_following", "month_index(result) == month_index(date) + offset"),
                # one step is exactly one month length (what the enumeration loop relies on for a strictly increasing list)
                ("single_step_is_one_month", "implies(offset == 1, us(result) == us(date) + month_len(date))")],
}


def _ceil_summary(unit):
    """inside range() the call self.ceil(t0) is summarised by the contract VERIFIED as ceil@<unit> (same clauses)"""
    L, PH = FIXED[unit]
    return {"d3_time.d3_time_interval.ceil": {
        "requires": [("in_range", "in_range_us(date)")], "modifies": [], "returns": "dt",
        "ensures": ["us(result) %% %d == %d" % (L, PH), "us(result) - %d < us(date) <= us(result)" % L]}}


# ---- range(t0, t1, dt): the two loops -------------------------------------------------------------------------------------
_NUMBER = {"second": "(us(%s) // 1000000) %% 60", "minute": "(us(%s) // 60000000) %% 60", "hour": "(us(%s) %% 86400000000) // 3600000000"}
for _unit in ("second", "minute", "hour", "day", "week"):
    L, PH = FIXED[_unit]
    B_time = "us(time) %% %d == %d" % (L, PH)
    CONTRACTS["d3_time.d3_time_interval.range@%s_step1" % _unit] = dict(
        props=["C17", "C16", "C18"], inline=True, setup=interval_setup(_unit), func_alias="d3_time.d3_time_interval.range", heap=True,
        params={"t0": "dt_ms", "t1": "dt", "dt": "int"}, requires=["in_range_us(t0)", "in_range_us(t1)", "dt == 1"], callee_contracts=_ceil_summary(_unit),
        slist_locals={"times": "slist:dt"}, modifies=["list.len.dt", "list.elems.dt", "list.$pos.dt"], allocates=["list"],
        loops={1: {"modifies": ["list.len.dt", "list.elems.dt", "list.$pos.dt"], "locals": {"time": "dt"},
                   "inv": [("list", "times is not None and len(times) >= 0"),
                           ("boundary", B_time),
                           ("arithmetic_progression", "us(time) == us(time__0) + len(times) * %d" % L),
                           ("elements", "forall(lambda k: implies(0 <= k < len(times), us(times[k]) == us(time__0) + k * %d and us(times[k]) < us(t1)))" % L)]}},
        ensures=[("first_is_ceil", "us(time__0) %% %d == %d and us(time__0) - %d < us(t0) <= us(time__0)" % (L, PH, L)),
                 # exactly the boundaries in [t0, t1): consecutive boundaries from the earliest one not before t0 ...
                 ("consecutive_boundaries", "forall(lambda k: implies(0 <= k < len(result), us(result[k]) == us(time__0) + k * %d and us(result[k]) < us(t1)))" % L),
                 # ... and none is missing: the next one is not before t1
                 ("complete", "us(time__0) + len(result) * %d >= us(t1)" % L),
                 ("each_is_a_boundary_not_before_t0", "forall(lambda k: implies(0 <= k < len(result), us(result[k]) %% %d == %d "
                                                      "and us(t0) <= us(result[k])))" % (L, PH)),
                 ("strictly_increasing", "forall(lambda k: implies(1 <= k < len(result), us(result[k - 1]) < us(result[k])))")])
    if _unit in _NUMBER:
        num = _NUMBER[_unit]
        CONTRACTS["d3_time.d3_time_interval.range@%s_skip" % _unit] = dict(
            props=["C17", "C16", "C18"], inline=True, setup=interval_setup(_unit), func_alias="d3_time.d3_time_interval.range", heap=True,
            params={"t0": "dt_ms", "t1": "dt", "dt": "int"}, requires=["in_range_us(t0)", "in_range_us(t1)", "2 <= dt <= 60"], callee_contracts=_ceil_summary(_unit),
        slice_first=True,
            slist_locals={"times": "slist:dt"}, modifies=["list.len.dt", "list.elems.dt", "list.$pos.dt"], allocates=["list"],
            loops={0: {"modifies": ["list.len.dt", "list.elems.dt", "list.$pos.dt"], "locals": {"time": "dt"},
                       "inv": [("list", "times is not None and len(times) >= 0"),
                               ("boundary", B_time + " and us(time) >= us(time__0)"),
                               ("elements", "forall(lambda k: implies(0 <= k < len(times), us(times[k]) %% %d == %d and us(time__0) <= us(times[k]) < us(time) "
                                            "and us(times[k]) < us(t1) and (%s) %% dt == 0))" % (L, PH, num % "times[k]")),
                               ("increasing", "forall(lambda k: implies(1 <= k < len(times), us(times[k - 1]) < us(times[k])))")]}},
            # (soundness of the filtered enumeration; its completeness needs an existential witness per boundary: bounded only)
            ensures=[("listed_are_qualifying_boundaries_in_range",
                      "forall(lambda k: implies(0 <= k < len(result), us(result[k]) %% %d == %d and us(t0) <= us(result[k]) < us(t1) and (%s) %% dt == 0))"
                      % (L, PH, num % "result[k]")),
                     ("strictly_increasing", "forall(lambda k: implies(1 <= k < len(result), us(result[k - 1]) < us(result[k])))")])


# ---- unit numbers used by the stepped range (C17: "filtered to those whose unit number is divisible by the step") ----------
def weekno(E, P, ctx, t):
    """Sunday-based week number inside the year, as d3 defines it: floor((day-of-year + weekday of 1 January) / 7) - 1 with
    day-of-year counted from 0 and Sunday = 0.  An uninterpreted function of the instant whose defining equation is
    instantiated at ground instants (inside a quantifier over list elements it stays an opaque term, which is all the
    enumeration loop needs: the filter's own test is the same term)."""
    u = _u(t)
    f = E.uf.get("WEEKNO")
    if f is None:
        f = E.uf["WEEKNO"] = z3.Function("WEEKNO", IntS, IntS)
    n = E.dt_dn(u)
    E.dt_civil_facts(P, n)
    fs = E.dt_funcs
    y = fs["CY"](n)
    E.dt_days_facts(P, y, z3.IntVal(1), z3.IntVal(1))
    jan1 = fs["DAYS"](y, z3.IntVal(1), z3.IntVal(1))
    if not getattr(E, "quant_depth", 0):
        P.assume(f(u) == ((n - jan1) + (jan1 + 4) % 7) / 7 - 1)
    return [(P, Num(f(u), True))]


def dayofyear(E, P, ctx, t):
    """0-based day of the year of the civil date of t"""
    n = E.dt_dn(_u(t))
    E.dt_civil_facts(P, n)
    fs = E.dt_funcs
    y = fs["CY"](n)
    E.dt_days_facts(P, y, z3.IntVal(1), z3.IntVal(1))
    return [(P, Num(n - fs["DAYS"](y, z3.IntVal(1), z3.IntVal(1)), True))]


SPECFUNS.update({"weekno": weekno, "dayofyear": dayofyear})

CONTRACTS["d3_time.day_of_year"] = {
    "props": ["C17"], "params": {"date": "dt"}, "requires": ["in_range_us(date)"], "modifies": [], "returns": "int",
    "ensures": [("days_since_1_january", "result == dayofyear(date)"), ("range", "0 <= result <= 365")],
}
CONTRACTS["d3_time.d3_time_week_number"] = {
    "props": ["C17"], "params": {"date": "dt"}, "requires": ["in_range_us(date)"], "modifies": [], "returns": "int",
    "ensures": [("sunday_based_week_of_year", "result == weekno(date)")],
}


def civil_day(E, P, ctx, t):
    n = E.dt_dn(_u(t))
    E.dt_civil_facts(P, n)
    return [(P, Num(E.dt_funcs["CD"](n), True))]


def civil_month(E, P, ctx, t):
    n = E.dt_dn(_u(t))
    E.dt_civil_facts(P, n)
    return [(P, Num(E.dt_funcs["CM"](n), True))]


def lemma_year_monotone(E, P, ctx, a, b):
    """LEMMA CALL (always true): the civil year is monotone in the instant - an instance of a calendar fact that the
    on-demand axioms do not give (they are local to a date and its neighbours).  Checked against the interpreter for every
    pair of consecutive days of years 1..9999 by selftest/conformance.py (assumption A-DT)."""
    na, nb = E.dt_dn(_u(a)), E.dt_dn(_u(b))
    E.dt_civil_facts(P, na)
    E.dt_civil_facts(P, nb)
    cy = E.dt_funcs["CY"]
    P.assume(z3.Implies(na <= nb, cy(na) <= cy(nb)))
    P.assume(z3.Implies(nb <= na, cy(nb) <= cy(na)))
    E.assume_used("A-DT")
    return [(P, Bool(z3.BoolVal(True)))]


SPECFUNS.update({"civil_day": civil_day, "civil_month": civil_month, "lemma_year_monotone": lemma_year_monotone})

# stepped enumeration of days (number = day of the month - 1) and of weeks (number = weekno): same loop, same clauses
_NUMBER2 = {"day": "civil_day(%s) - 1", "week": "weekno(%s)"}
for _unit, num in _NUMBER2.items():
    L, PH = FIXED[_unit]
    B_time = "us(time) %% %d == %d" % (L, PH)
    CONTRACTS["d3_time.d3_time_interval.range@%s_skip" % _unit] = dict(
        props=["C17", "C16", "C18"], inline=True, setup=interval_setup(_unit), func_alias="d3_time.d3_time_interval.range", heap=True,
        params={"t0": "dt_ms", "t1": "dt", "dt": "int"}, requires=["in_range_us(t0)", "in_range_us(t1)", "2 <= dt <= 60"], callee_contracts=_ceil_summary(_unit),
        slice_first=True,
        slist_locals={"times": "slist:dt"}, modifies=["list.len.dt", "list.elems.dt", "list.$pos.dt"], allocates=["list"],
        loops={0: {"modifies": ["list.len.dt", "list.elems.dt", "list.$pos.dt"], "locals": {"time": "dt"},
                   "inv": [("list", "times is not None and len(times) >= 0"),
                           ("boundary", B_time + " and us(time) >= us(time__0)"),
                           ("elements", "forall(lambda k: implies(0 <= k < len(times), us(times[k]) %% %d == %d and us(time__0) <= us(times[k]) < us(time) "
                                        "and us(times[k]) < us(t1) and (%s) %% dt == 0))" % (L, PH, num % "times[k]")),
                           ("increasing", "forall(lambda k: implies(1 <= k < len(times), us(times[k - 1]) < us(times[k])))")]}},
        ensures=[("listed_are_qualifying_boundaries_in_range",
                  "forall(lambda k: implies(0 <= k < len(result), us(result[k]) %% %d == %d and us(t0) <= us(result[k]) < us(t1) and (%s) %% dt == 0))"
                  % (L, PH, num % "result[k]")),
                 ("strictly_increasing", "forall(lambda k: implies(1 <= k < len(result), us(result[k - 1]) < us(result[k])))")])


# ---- range() for the calendar-length units (month, year): step 1 and stepped ---------------------------------------------
def _cal_ceil_summary(unit):
    """self.ceil(t0) inside range(), summarised by the clauses VERIFIED as ceil@month / ceil@year"""
    b, st, ln = ("is_month_start", "month_start", "month_len") if unit == "month" else ("is_year_start", "year_start", "year_len")
    return {"d3_time.d3_time_interval.ceil": {
        "requires": [("in_range", "in_range_years(date)")], "modifies": [], "returns": "dt",
        "ensures": ["%s(result)" % b, "us(result) >= us(date)",
                    "implies(%s(date), result == date) and implies(not %s(date), us(result) == %s(date) + %s(date))" % (b, b, st, ln)]}}


_CAL = {"month": dict(boundary="is_month_start", index="month_index", number="civil_month(%s) - 1"),
        "year": dict(boundary="is_year_start", index="civil_year", number="civil_year(%s)")}
for _unit, _c in _CAL.items():
    B, IDX, NUM = _c["boundary"], _c["index"], _c["number"]
    _common = dict(
        props=["C17", "C16", "C18"], inline=True, setup=interval_setup(_unit), func_alias="d3_time.d3_time_interval.range", heap=True,
        params={"t0": "dt_ms", "t1": "dt", "dt": "int"}, slist_locals={"times": "slist:dt"},
        modifies=["list.len.dt", "list.elems.dt", "list.$pos.dt"], allocates=["list"], callee_contracts=_cal_ceil_summary(_unit), slice_first=True)
    _inv_common = [("list", "times is not None and len(times) >= 0"),
                   ("boundary", "%s(time)" % B),
                   ("lemma", "lemma_year_monotone(t0, time__0) and lemma_year_monotone(time, t1) and lemma_year_monotone(time__0, time)"),
                   ("not_before_the_first", "%s(time) >= %s(time__0) and us(time) >= us(time__0)" % (IDX, IDX)),
                   ("below_current", "forall(lambda k: implies(0 <= k < len(times), us(time__0) <= us(times[k]) < us(time)))"),
                   ("increasing", "forall(lambda k: implies(1 <= k < len(times), us(times[k - 1]) < us(times[k])))")]
    CONTRACTS["d3_time.d3_time_interval.range@%s_step1" % _unit] = dict(
        # thorough tier only: one loop obligation needed 6-18 s over repeated runs (1000+ calendar facts on the path) - too
        # close to the quick tier's 10 s stages to be stable there
        _common, slice_first=False, thorough_tier_only=True, requires=["in_range_years(t0)", "in_range_years(t1)", "dt == 1"],
        loops={1: {"modifies": ["list.len.dt", "list.elems.dt", "list.$pos.dt"], "locals": {"time": "dt"},
                   "inv": _inv_common + [
                       ("progression", "%s(time) == %s(time__0) + len(times)" % (IDX, IDX)),
                       ("elements", "forall(lambda k: implies(0 <= k < len(times), %s(times[k]) and %s(times[k]) == %s(time__0) + k "
                                    "and us(times[k]) < us(t1)))" % (B, IDX, IDX))]}},
        ensures=[("first_is_ceil", "%s(time__0) and us(time__0) >= us(t0)" % B),
                 # exactly the boundaries in [t0, t1): consecutive periods from the earliest boundary not before t0 ...
                 ("consecutive_boundaries", "forall(lambda k: implies(0 <= k < len(result), %s(result[k]) and %s(result[k]) == %s(time__0) + k "
                                            "and us(result[k]) < us(t1)))" % (B, IDX, IDX)),
                 # ... and none is missing: the boundary after the last one listed is not before t1
                 ("complete", "%s(time) and %s(time) == %s(time__0) + len(result) and us(time) >= us(t1)" % (B, IDX, IDX)),
                 ("not_before_start", "forall(lambda k: implies(0 <= k < len(result), us(result[k]) >= us(t0)))"),
                 ("strictly_increasing", "forall(lambda k: implies(1 <= k < len(result), us(result[k - 1]) < us(result[k])))")])
    CONTRACTS["d3_time.d3_time_interval.range@%s_skip" % _unit] = dict(
        # thorough tier only as well: one loop obligation of month_skip needed the 3x-budget stage in a quick run (58 s)
        _common, thorough_tier_only=True, requires=["in_range_years(t0)", "in_range_years(t1)", "2 <= dt <= 60"],
        loops={0: {"modifies": ["list.len.dt", "list.elems.dt", "list.$pos.dt"], "locals": {"time": "dt"},
                   "inv": _inv_common + [
                       ("elements", "forall(lambda k: implies(0 <= k < len(times), %s(times[k]) and %s(times[k]) >= %s(time__0) "
                                    "and us(times[k]) < us(t1) and (%s) %% dt == 0))" % (B, IDX, IDX, NUM % "times[k]"))]}},
        ensures=[("listed_are_qualifying_boundaries_in_range",
                  "forall(lambda k: implies(0 <= k < len(result), %s(result[k]) and %s(result[k]) >= %s(time__0) and us(result[k]) < us(t1) "
                  "and (%s) %% dt == 0))" % (B, IDX, IDX, NUM % "result[k]")),
                 ("first_candidate_is_ceil", "%s(time__0) and us(time__0) >= us(t0)" % B),
                 ("not_before_start", "forall(lambda k: implies(0 <= k < len(result), us(result[k]) >= us(t0)))"),
                 ("strictly_increasing", "forall(lambda k: implies(1 <= k < len(result), us(result[k - 1]) < us(result[k])))")])


# ---- the interval object as a value: which unit is `self`?  (used by the summary of range() inside TimeScale.ticks) --------
_UNITS = ("second", "minute", "hour", "day", "week", "month", "year")


def unit_of(E, P, obj):
    tab = P.get(E.global_name(P, "d3_time", "d3_time"))
    for u in _UNITS:
        if getattr(tab.get(u), "id", None) == getattr(obj, "id", -1):
            return u
    raise SpecError("not one of the seven calendar interval objects: %r" % (obj,))


def unit_boundary(E, P, ctx, obj, t):
    """t is a boundary of the calendar unit that the interval object stands for"""
    u = unit_of(E, P, obj)
    if u in FIXED:
        L, PH = FIXED[u]
        return [(P, Bool(_u(t) % L == PH))]
    return (is_month_start if u == "month" else is_year_start)(E, P, ctx, t)


def unit_number(E, P, ctx, obj, t):
    """the unit number that the stepped enumeration filters on"""
    u = unit_of(E, P, obj)
    us_ = _u(t)
    if u == "second":
        return [(P, Num((us_ / 1000000) % 60, True))]
    if u == "minute":
        return [(P, Num((us_ / 60000000) % 60, True))]
    if u == "hour":
        return [(P, Num((us_ % 86400000000) / 3600000000, True))]
    if u == "day":
        return [(P, Num(civil_day(E, P, ctx, t)[0][1].t - 1, True))]
    if u == "week":
        return weekno(E, P, ctx, t)
    if u == "month":
        return [(P, Num(civil_month(E, P, ctx, t)[0][1].t - 1, True))]
    return civil_year(E, P, ctx, t)


SPECFUNS.update({"unit_boundary": unit_boundary, "unit_number": unit_number})

# What every range@<unit>_step1 / range@<unit>_skip contract above proves, stated once over the interval object `self`
# (the clause texts differ per unit only through the boundary predicate and the unit number):
RANGE_SUMMARY = {"d3_time.d3_time_interval.range": {
    "requires": [("start_in_range", "in_range_us(t0)"), ("stop_in_range", "in_range_us(t1)"), ("step", "1 <= dt <= 60")],
    "modifies": ["list.len.dt", "list.elems.dt", "list.$pos.dt"], "allocates": ["list"], "returns": "slist:dt",
    "ensures": ["forall(lambda k: implies(0 <= k < len(result), unit_boundary(self, result[k]) and us(t0) <= us(result[k]) < us(t1)))",
                "forall(lambda k: implies(1 <= k < len(result), us(result[k - 1]) < us(result[k])))",
                "implies(dt > 1, forall(lambda k: implies(0 <= k < len(result), unit_number(self, result[k]) % dt == 0)))",
                "fresh(result)"]}}


def unit_len_at(E, P, ctx, obj, t):
    """length of the unit's period that contains t (constant for the fixed-length units)"""
    u = unit_of(E, P, obj)
    if u in FIXED:
        return [(P, Num(z3.IntVal(FIXED[u][0]), True))]
    return (month_len if u == "month" else year_len)(E, P, ctx, t)


SPECFUNS["unit_len_at"] = unit_len_at

# floor / ceil of an interval object, stated once over `self` (clauses proved per unit by floor@<unit> / ceil@<unit>)
FLOOR_CEIL_SUMMARY = {
    "d3_time.d3_time_interval.floor": {
        "requires": [("in_range", "in_range_years(date)")], "modifies": [], "returns": "dt",
        "ensures": ["unit_boundary(self, result)", "us(result) <= us(date)", "us(date) - us(result) < unit_len_at(self, date)"]},
    "d3_time.d3_time_interval.ceil": {
        "requires": [("in_range", "in_range_years(date)")], "modifies": [], "returns": "dt",
        "ensures": ["unit_boundary(self, result)", "us(result) >= us(date)", "us(result) - us(date) < unit_len_at(self, date)"]},
}


# ---- COMPLETENESS of the stepped enumeration (the five fixed-length units) ---------------------------------------------------
# ghost pos_in(list, t): the index at which instant t was appended.  Invariant: every qualifying boundary between the first
# candidate and the current one IS listed (at pos_in); hence on exit every qualifying boundary of [t0, t1) is listed.
for _unit in ("second", "minute", "hour", "day", "week"):
    L, PH = FIXED[_unit]
    num = _NUMBER.get(_unit) or _NUMBER2[_unit]
    _q = "us(x) %% %d == %d and (%s) %% dt == 0" % (L, PH, num % "x")
    _listed = "0 <= pos_in(%s, x) < len(%s) and %s[pos_in(%s, x)] == x"
    CONTRACTS["d3_time.d3_time_interval.range@%s_skip_complete" % _unit] = dict(
        props=["C17", "C16"], inline=True, setup=interval_setup(_unit), func_alias="d3_time.d3_time_interval.range", heap=True,
        params={"t0": "dt_ms", "t1": "dt", "dt": "int"}, requires=["in_range_us(t0)", "in_range_us(t1)", "2 <= dt <= 60"],
        callee_contracts=_ceil_summary(_unit), slice_first=True,
        slist_locals={"times": "slist:dt"}, modifies=["list.len.dt", "list.elems.dt", "list.$pos.dt"], allocates=["list"],
        loops={0: {"modifies": ["list.len.dt", "list.elems.dt", "list.$pos.dt"], "locals": {"time": "dt"},
                   "inv": [("list", "times is not None and len(times) >= 0"),
                           ("boundary", "us(time) %% %d == %d and us(time) >= us(time__0)" % (L, PH)),
                           ("every_qualifying_boundary_so_far_is_listed",
                            "forall(lambda x: implies(%s and us(time__0) <= us(x) < us(time) and us(x) < us(t1), %s), 'dt')"
                            % (_q, _listed % (("times",) * 4)))]}},
        ensures=[("every_qualifying_boundary_in_range_is_listed",
                  "forall(lambda x: implies(%s and us(t0) <= us(x) < us(t1), %s), 'dt')" % (_q, _listed % (("result",) * 4)))])
