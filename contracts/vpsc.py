"""Sidecar contracts for labella/vpsc.py (C05; carried into C01, C02, C03, C08).

Heap model: Boogie style (pyvc/engine.py).  Representation invariants are spec functions over the heap:

  Inv-blk   every allocated ACTIVE constraint has both ends in one block and is tight:
            c.right.offset - c.left.offset == c.gap
  Inv-list  Blocks._list[i].blockInd == i
  Inv-cs    every constraint of Solver.cs is in Solver.inactive, or active, or flagged unsatisfiable

What is NOT under contract here (bounded only, driver c05; see DESIGN section 6 C05 / section 8): the recursive
routines compute_lm / populateSplitBlock / findPath / isActiveDirectedPathBetween and Blocks.split /
Block.splitBetween built on them (contracts of mode 'assume'), optimality, and termination of satisfy/solve.
"""
import z3

from pyvc.values import Num, Bool, Ref, SList, NONE, RefS, IntS, RealS, NULL, I, R, B, Unsupported, SpecError

MAXSIZE = 2 ** 63 - 1

TYPES = {
    "PositionStats": {"scale": "real", "AB": "real", "AD": "real", "A2": "real"},
    "Constraint": {"$ghost_lastpos": True, "$ghost_rolepos": {"cin": "$ipos", "cout": "$opos"}, "left": "ref:Variable", "right": "ref:Variable", "gap": "real", "equality": "bool", "active": "bool",
                   "unsatisfiable": "bool", "lm": "real?"},
    "Variable": {"$ghost_rolepos": {"vars": "$vpos"}, "desiredPosition": "real", "weight": "real", "scale": "real", "offset": "real", "node": "ref:Node",
                 "block": "ref:Block", "cIn": "slist:ref:Constraint@cin", "cOut": "slist:ref:Constraint@cout"},
    "Block": {"vars": "slist:ref:Variable@vars", "ps": "ref:PositionStats", "posn": "real", "blockInd": "int"},
    "Blocks": {"vs": "slist:ref:Variable", "_list": "slist:ref:Block"},
    "Solver": {"vs": "slist:ref:Variable", "cs": "slist:ref:Constraint", "inactive": "slist:ref:Constraint",
               "bs": "ref:Blocks"},
}


# ---------------------------------------------------------------------------------------------------- spec functions
def _forall(vs, body, pat):
    try:
        return z3.ForAll(vs, body, patterns=[pat])
    except z3.Z3Exception:   # e.g. the trigger simplified to a store-select term that z3 rejects as a pattern
        return z3.ForAll(vs, body)


def rd(E, P, r, cls, f):
    if r is NONE:
        r = NULL
    return E.hread(P, r.t if hasattr(r, "t") else r, cls, f)


def spos(E, P, ctx, v):
    """scaled position of a variable: v.scale * v.position() == block.ps.scale * block.posn + v.offset"""
    b = rd(E, P, v, "Variable", "block")
    ps = rd(E, P, b, "Block", "ps")
    return [(P, Num(rd(E, P, ps, "PositionStats", "scale").t * rd(E, P, b, "Block", "posn").t
                    + rd(E, P, v, "Variable", "offset").t, False))]


def slack(E, P, ctx, c):
    """the statement's slack of a constraint (maxsize once it is flagged unsatisfiable)"""
    l, r = rd(E, P, c, "Constraint", "left"), rd(E, P, c, "Constraint", "right")
    s = spos(E, P, ctx, r)[0][1].t - rd(E, P, c, "Constraint", "gap").t - spos(E, P, ctx, l)[0][1].t
    return [(P, Num(z3.If(rd(E, P, c, "Constraint", "unsatisfiable").t, z3.RealVal(MAXSIZE), s), False))]


def tight(E, P, ctx, c):
    l, r = rd(E, P, c, "Constraint", "left"), rd(E, P, c, "Constraint", "right")
    return [(P, Bool(rd(E, P, r, "Variable", "offset").t - rd(E, P, l, "Variable", "offset").t
                     == rd(E, P, c, "Constraint", "gap").t))]


def _inv_blk_body(E, P, c):
    l, r = rd(E, P, c, "Constraint", "left"), rd(E, P, c, "Constraint", "right")
    same = rd(E, P, l, "Variable", "block").t == rd(E, P, r, "Variable", "block").t
    tg = tight(E, P, None, c)[0][1].t
    return z3.Implies(z3.And(c.t != NULL, z3.Select(E.alloc_arr(P), c.t), E.type_is(P, c.t, "Constraint"),
                             rd(E, P, c, "Constraint", "active").t), z3.And(same, tg))


def inv_blk(E, P, ctx):
    c = Ref(z3.Const("c!invblk", RefS), "Constraint")
    body = _inv_blk_body(E, P, c)
    act = z3.Select(E.heap_array(P, "Constraint.active", z3.BoolSort()), c.t)
    return [(P, Bool(_forall([c.t], body, act)))]


def inv_blk_at(E, P, ctx, c):
    return [(P, Bool(_inv_blk_body(E, P, c)))]


def inv_list(E, P, ctx, bs):
    lst = rd(E, P, bs, "Blocks", "_list")
    i = z3.Const("i!invlist", IntS)
    el = E.l_get(P, lst, i)
    return [(P, Bool(_forall([i], z3.Implies(z3.And(0 <= i, i < E.l_len(P, lst)),
                                               z3.And(el.t != NULL, rd(E, P, el, "Block", "blockInd").t == i)),
                               el.t)))]


SPECFUNS = {"spos": spos, "cslack": slack, "tight": tight, "inv_blk": inv_blk, "inv_blk_at": inv_blk_at, "inv_list": inv_list}

ZB = "-1e-10"

CONTRACTS = {
    # ------------------------------------------------------------------------------------------- PositionStats
    "vpsc.PositionStats.addVariable": {
        "props": ["C05", "C02"], "heap": True,
        "params": {"self": "ref:PositionStats", "v": "ref:Variable"},
        "requires": ["v.scale != 0"],
        "modifies": ["PositionStats.AB", "PositionStats.AD", "PositionStats.A2"],
        "ensures": [
            ("AB", "self.AB * v.scale * v.scale == old(self.AB) * v.scale * v.scale + v.weight * self.scale * v.offset"),
            ("AD", "self.AD * v.scale == old(self.AD) * v.scale + v.weight * self.scale * v.desiredPosition"),
            ("A2", "self.A2 * v.scale * v.scale == old(self.A2) * v.scale * v.scale + v.weight * self.scale * self.scale"),
            ("A2_grows", "implies(v.weight > 0 and self.scale != 0, self.A2 > old(self.A2))"),
            ("same_scale", "implies(self.scale == v.scale, self.AD == old(self.AD) + v.weight * v.desiredPosition and self.A2 == old(self.A2) + v.weight)"),
            ("zero_offset", "implies(v.offset == 0, self.AB == old(self.AB))"),
            # the three increments exactly as the statement of the stationary point needs them (a = S / s_i, b = o_i / s_i)
            ("AB_step", "self.AB == old(self.AB) + v.weight * (self.scale / v.scale) * (v.offset / v.scale)"),
            ("AD_step", "self.AD == old(self.AD) + v.weight * (self.scale / v.scale) * v.desiredPosition"),
            ("A2_step", "self.A2 == old(self.A2) + v.weight * (self.scale / v.scale) * (self.scale / v.scale)"),
            ("frame", "forall(lambda o: implies(o != self, o.AB == old(o.AB) and o.AD == old(o.AD) and o.A2 == old(o.A2)), 'ref:PositionStats')"),
        ],
    },
    "vpsc.PositionStats.getPosn": {
        "props": ["C05", "C02"], "heap": True,
        "params": {"self": "ref:PositionStats"},
        "requires": ["self.A2 != 0"],
        "modifies": [],
        "returns": "real",
        # stationary point of  sum w (a p + b - d)^2  in p:  p * A2 == AD - AB
        "ensures": [("stationary", "result * self.A2 == self.AD - self.AB")],
    },
    # ------------------------------------------------------------------------------------------- Variable / Constraint
    "vpsc.Variable.position": {
        "props": ["C05", "C01"], "heap": True,
        "params": {"self": "ref:Variable"},
        "requires": ["self.scale != 0", "self.block is not None", "self.block.ps is not None"],
        "modifies": [], "returns": "real",
        "ensures": [("scaled", "result * self.scale == spos(self)"),
                    ("unit_scale", "implies(self.scale == 1, result == spos(self))")],
    },
    "vpsc.Constraint.slack": {
        "props": ["C05", "C01"], "heap": True,
        "params": {"self": "ref:Constraint"},
        "requires": ["self.left is not None and self.right is not None", "self.left.scale != 0 and self.right.scale != 0",
                     "self.left.block is not None and self.right.block is not None",
                     "self.left.block.ps is not None and self.right.block.ps is not None"],
        "modifies": [], "returns": "real",
        "ensures": [("value", "result == cslack(self)")],
    },
}


# ------------------------------------------------------------------------------------------- Solver
def mem(E, P, ctx, lst, c):
    """c occurs in the SMT list lst"""
    k = z3.Const("k!mem", IntS)
    return [(P, Bool(z3.Exists([k], z3.And(0 <= k, k < E.l_len(P, lst), z3.Select(E.l_elems(P, lst), k) == c.t))))]


def inv_cs(E, P, ctx, s):
    """every constraint of s.cs is in s.inactive, or active, or flagged unsatisfiable"""
    cs = rd(E, P, s, "Solver", "cs")
    ina = rd(E, P, s, "Solver", "inactive")
    i = z3.Const("i!invcs", IntS)
    c = E.l_get(P, cs, i)
    k = z3.Const("k!invcs", IntS)
    member = z3.Exists([k], z3.And(0 <= k, k < E.l_len(P, ina), z3.Select(E.l_elems(P, ina), k) == c.t))
    body = z3.Implies(z3.And(0 <= i, i < E.l_len(P, cs)),
                      z3.Or(member, rd(E, P, c, "Constraint", "active").t, rd(E, P, c, "Constraint", "unsatisfiable").t))
    return [(P, Bool(z3.ForAll([i], body, c.t)))]


def wf_constraints(E, P, ctx, lst):
    """elements of a constraint list are well-formed constraints between variables with non-zero scale that live in blocks"""
    i = z3.Const("i!wfc", IntS)
    c = E.l_get(P, lst, i)
    return [(P, Bool(_forall([i], z3.Implies(z3.And(0 <= i, i < E.l_len(P, lst)), _wf_c(E, P, c)), c.t)))]


def _wf_c(E, P, c):
    l, r = rd(E, P, c, "Constraint", "left"), rd(E, P, c, "Constraint", "right")
    out = [c.t != NULL, l.t != NULL, r.t != NULL, z3.Not(rd(E, P, c, "Constraint", "equality").t)]
    for v in (l, r):
        b = rd(E, P, v, "Variable", "block")
        out += [rd(E, P, v, "Variable", "scale").t > 0, b.t != NULL, rd(E, P, b, "Block", "ps").t != NULL,
                rd(E, P, b, "Block", "vars").t != NULL]
    return z3.And(*out)


def wf_all_constraints(E, P, ctx):
    """every allocated constraint is well-formed (labella only builds inequalities between block-resident variables)"""
    c = Ref(z3.Const("c!wfall", RefS), "Constraint")
    act = z3.Select(E.heap_array(P, "Constraint.left", RefS), c.t)
    return [(P, Bool(_forall([c.t], z3.Implies(z3.And(c.t != NULL, z3.Select(E.alloc_arr(P), c.t),
                                                        z3.Select(E.heap_array(P, "$isconstraint", z3.BoolSort()), c.t)),
                                                 _wf_c(E, P, c)), act)))]


def lastpos(E, P, ctx, c):
    return [(P, Num(z3.Select(E.heap_array(P, "Constraint.$lastpos", IntS), c.t), True))]


def lastlist(E, P, ctx, c):
    return [(P, SList(z3.Select(E.heap_array(P, "Constraint.$lastlist", RefS), c.t), "ref:Constraint"))]


def listed(E, P, ctx, lst, c):
    """ghost-witnessed membership: c sits in lst at the index of its latest append (no existential)"""
    p = z3.Select(E.heap_array(P, "Constraint.$lastpos", IntS), c.t)
    return [(P, Bool(z3.And(0 <= p, p < E.l_len(P, lst), z3.Select(E.l_elems(P, lst), p) == c.t)))]


SPECFUNS.update({"mem": mem, "inv_cs": inv_cs, "wf_constraints": wf_constraints, "lastpos": lastpos, "listed": listed})

CONTRACTS["vpsc.Solver.mostViolated"] = {
    "props": ["C05", "C01"], "heap": True,
    "params": {"self": "ref:Solver"},
    "requires": ["self.inactive is not None", "wf_constraints(self.inactive)"],
    # the overwrite l[deletePoint] = l[n - 1] is the only heap write; `l = l[:-1]` rebinds a local to a NEW list
    "modifies": ["list.elems.ref~Constraint", "list.len.ref~Constraint"], "allocates": ["list"],
    "returns": "ref:Constraint",
    "loops": {0: {
        "locals": {"minSlack": "real", "v": "ref:Constraint", "deletePoint": "int", "c": "ref:Constraint", "slack": "real"},
        "inv": [
            ("dp_range", "0 <= deletePoint <= n and (deletePoint < _k0 or deletePoint == n)"),
            ("none_iff", "(v is None) == (deletePoint == n)"),
            ("v_is_elem", "implies(v is not None, v is l[deletePoint] and minSlack == cslack(v) and not v.unsatisfiable and wf_one(v))"),
            ("init_min", "implies(v is None, minSlack == %d)" % MAXSIZE),
            ("minimal", "forall(lambda j: implies(0 <= j < _k0 and not l[j].unsatisfiable, minSlack <= cslack(l[j])))"),
        ]}},
    "ensures": [
        ("most_violated", "most_violated(self, result)"),
        ("result_wf", "implies(result is not None, wf_one(result))"),
        ("wf_kept", "wf_constraints(self.inactive)"),
        ("result_unflagged_elem", "implies(result is not None, not result.unsatisfiable and exists(lambda k: 0 <= k < old(len(self.inactive)) and old(self.inactive[k]) is result))"),
        ("same_list_object", "self.inactive is old(self.inactive) and len(self.inactive) == old(len(self.inactive))"),
        ("positional_frame", "forall(lambda j: implies(0 <= j < len(self.inactive), self.inactive[j] is old(self.inactive[j]) or (old(self.inactive[j]) is result and self.inactive[j] is old(self.inactive[len(self.inactive) - 1]))))"),
        ("untouched_unless_processed", "implies(result is None or not (cslack(result) < %s and not result.active), forall(lambda j: implies(0 <= j < len(self.inactive), self.inactive[j] is old(self.inactive[j]))))" % ZB),
        ("frame_other_lists", "forall(lambda q: implies(q is not self.inactive and old(alloc(q)), len(q) == old(len(q))), 'slist:ref:Constraint')"),
        ("frame_other_lists_elems", "forall(lambda q, j: implies(q is not self.inactive and old(alloc(q)), q[j] is old(q[j])), 'slist:ref:Constraint', 'int')"),
        ("nonnull_kept", "implies(old(nonnull(self.inactive)), nonnull(self.inactive))"),
    ],
}


# ------------------------------------------------------------------------------------------- satisfy / solve
def all_wf(E, P, ctx):
    """G2: every allocated Constraint is an inequality between two variables of positive scale that live in blocks"""
    c = Ref(z3.Const("c!allwf", RefS), "Constraint")
    trig = z3.Select(E.heap_array(P, "Constraint.left", RefS), c.t)
    return [(P, Bool(_forall([c.t], z3.Implies(z3.And(c.t != NULL, z3.Select(E.alloc_arr(P), c.t), E.type_is(P, c.t, "Constraint")),
                                                 _wf_c(E, P, c)), trig)))]


def nonnull(E, P, ctx, lst):
    i = z3.Const("i!nn", IntS)
    e = z3.Select(E.l_elems(P, lst), i)
    return [(P, Bool(_forall([i], z3.Implies(z3.And(0 <= i, i < E.l_len(P, lst)), e != NULL), e)))]


def inv_cs_except(E, P, ctx, s, v):
    """G3: every constraint of s.cs is v (being processed), or active, or flagged, or listed in s.inactive"""
    cs = rd(E, P, s, "Solver", "cs")
    ina = rd(E, P, s, "Solver", "inactive")
    i = z3.Const("i!g3", IntS)
    c = E.l_get(P, cs, i)
    vt = NULL if v is NONE else v.t
    body = z3.Implies(z3.And(0 <= i, i < E.l_len(P, cs)),
                      z3.Or(c.t == vt, rd(E, P, c, "Constraint", "active").t, rd(E, P, c, "Constraint", "unsatisfiable").t,
                            listed(E, P, ctx, ina, c)[0][1].t))
    return [(P, Bool(_forall([i], body, c.t)))]


def most_violated(E, P, ctx, s, v):
    """G4: v is (still) a least-slack unflagged element of s.inactive, or None when there is none below maxsize"""
    ina = rd(E, P, s, "Solver", "inactive")
    j = z3.Const("j!g4", IntS)
    c = E.l_get(P, ina, j)
    rng = z3.And(0 <= j, j < E.l_len(P, ina))
    uns = rd(E, P, c, "Constraint", "unsatisfiable").t
    sl = slack(E, P, ctx, c)[0][1].t
    if v is NONE:
        return [(P, Bool(_forall([j], z3.Implies(rng, z3.Or(uns, sl >= MAXSIZE)), c.t)))]
    isnone = v.t == NULL
    sv = slack(E, P, ctx, v)[0][1].t
    return [(P, Bool(z3.And(
        z3.Implies(isnone, _forall([j], z3.Implies(rng, z3.Or(uns, sl >= MAXSIZE)), c.t)),
        z3.Implies(z3.Not(isnone), z3.And(z3.Not(rd(E, P, v, "Constraint", "unsatisfiable").t),
                                          _forall([j], z3.Implies(z3.And(rng, z3.Not(uns)), sv <= sl), c.t))))))]


def feasible(E, P, ctx, s):
    """the statement of C05/C01: every constraint that is not flagged unsatisfiable holds (tolerance ZERO_UPPERBOUND)"""
    cs = rd(E, P, s, "Solver", "cs")
    i = z3.Const("i!feas", IntS)
    c = E.l_get(P, cs, i)
    body = z3.Implies(z3.And(0 <= i, i < E.l_len(P, cs)),
                      z3.Or(rd(E, P, c, "Constraint", "unsatisfiable").t, slack(E, P, ctx, c)[0][1].t >= z3.RealVal("-1/10000000000")))
    return [(P, Bool(_forall([i], body, c.t)))]


def _has_block(E, P, v):
    b = rd(E, P, v, "Variable", "block")
    return z3.And(b.t != NULL, rd(E, P, b, "Block", "ps").t != NULL, rd(E, P, b, "Block", "vars").t != NULL)


def _in_vs(E, P, vs, v):
    """ghost-witnessed membership of a variable in the list vs: vs[v.$vidx] is v (Variable.$vidx is the ghost inverse
    index of an injective list, introduced by ghost_index after distinctness has been proved)"""
    idx = z3.Select(E.heap_array(P, "Variable.$vidx", IntS), v.t)
    return z3.And(0 <= idx, idx < E.l_len(P, vs), z3.Select(E.l_elems(P, vs), idx) == v.t)


def vidx(E, P, ctx, v):
    return [(P, Num(z3.Select(E.heap_array(P, "Variable.$vidx", IntS), v.t), True))]


SPECFUNS["vidx"] = vidx


def in_vs(E, P, ctx, vs, v):
    return [(P, Bool(_in_vs(E, P, vs, v)))]


def all_prewf(E, P, ctx, vs):
    """before the blocks of a new solver exist: every allocated Constraint is an inequality between non-null variables of
    positive scale, each of which already lives in a block (older solvers) or is an element of vs (this solver)"""
    c = Ref(z3.Const("c!prewf", RefS), "Constraint")
    l, r = rd(E, P, c, "Constraint", "left"), rd(E, P, c, "Constraint", "right")
    parts = [c.t != NULL, l.t != NULL, r.t != NULL, z3.Not(rd(E, P, c, "Constraint", "equality").t)]
    for v in (l, r):
        parts += [rd(E, P, v, "Variable", "scale").t > 0, z3.Or(_has_block(E, P, v), _in_vs(E, P, vs, v))]
    trig = z3.Select(E.heap_array(P, "Constraint.left", RefS), c.t)
    return [(P, Bool(_forall([c.t], z3.Implies(z3.And(c.t != NULL, z3.Select(E.alloc_arr(P), c.t), E.type_is(P, c.t, "Constraint")),
                                               z3.And(*parts)), trig)))]


def none_active(E, P, ctx):
    c = z3.Const("c!na", RefS)
    act = z3.Select(E.heap_array(P, "Constraint.active", z3.BoolSort()), c)
    return [(P, Bool(_forall([c], z3.Implies(z3.And(c != NULL, z3.Select(E.alloc_arr(P), c), E.type_is(P, c, "Constraint")), z3.Not(act)), act)))]


def own_inactive(E, P, ctx, s):
    """the constraints of this solver are not active (a new solver: Solver.__init__ de-activates them)"""
    cs = rd(E, P, s, "Solver", "cs")
    i = z3.Const("i!oi", IntS)
    c = E.l_get(P, cs, i)
    return [(P, Bool(_forall([i], z3.Implies(z3.And(0 <= i, i < E.l_len(P, cs)), z3.Not(rd(E, P, c, "Constraint", "active").t)), c.t)))]


def blocks_kept(E, P, ctx):
    """every variable that lived in a block still lives in one (frame of the restructuring routines)"""
    if P.old is None:
        raise SpecError("blocks_kept() outside a postcondition")
    v = Ref(z3.Const("v!bk", RefS), "Variable")
    trig = z3.Select(E.heap_array(P, "Variable.block", RefS), v.t)
    return [(P, Bool(_forall([v.t], z3.Implies(z3.And(v.t != NULL, z3.Select(E.alloc_arr(P.old), v.t), E.type_is(P.old, v.t, "Variable"),
                                                      _has_block(E, P.old, v)),
                                               _has_block(E, P, v)), trig)))]


def vars_in_blocks(E, P, ctx, vs):
    i = z3.Const("i!vib", IntS)
    v = E.l_get(P, vs, i)
    return [(P, Bool(_forall([i], z3.Implies(z3.And(0 <= i, i < E.l_len(P, vs)),
                                             z3.And(v.t != NULL, _has_block(E, P, v), rd(E, P, v, "Variable", "scale").t > 0)), v.t)))]


SPECFUNS["vars_in_blocks"] = vars_in_blocks


def wf_one(E, P, ctx, c):
    return [(P, Bool(_wf_c(E, P, c)))]


def wf_lists(E, P, ctx, s):
    """G2 (list based): the solver's own constraints (cs and inactive) are well-formed inequalities whose ends live in blocks"""
    a = wf_constraints(E, P, ctx, rd(E, P, s, "Solver", "cs"))[0][1].t
    b = wf_constraints(E, P, ctx, rd(E, P, s, "Solver", "inactive"))[0][1].t
    return [(P, Bool(z3.And(a, b)))]


def prewf_list(E, P, ctx, lst, vs):
    """before the blocks exist: elements of lst are inequalities between non-null variables of positive scale that are
    elements of vs (ghost inverse index Variable.$vidx)"""
    i = z3.Const("i!pwl", IntS)
    c = E.l_get(P, lst, i)
    l, r = rd(E, P, c, "Constraint", "left"), rd(E, P, c, "Constraint", "right")
    parts = [c.t != NULL, l.t != NULL, r.t != NULL, z3.Not(rd(E, P, c, "Constraint", "equality").t)]
    for v in (l, r):
        parts += [rd(E, P, v, "Variable", "scale").t > 0, _in_vs(E, P, vs, v)]
    return [(P, Bool(_forall([i], z3.Implies(z3.And(0 <= i, i < E.l_len(P, lst)), z3.And(*parts)), c.t)))]


SPECFUNS.update({"wf_one": wf_one, "wf_lists": wf_lists, "prewf_list": prewf_list})
SPECFUNS.update({"in_vs": in_vs, "all_prewf": all_prewf, "none_active": none_active, "own_inactive": own_inactive,
                 "blocks_kept": blocks_kept})
SPECFUNS.update({"all_wf": all_wf, "nonnull": nonnull, "inv_cs_except": inv_cs_except, "most_violated": most_violated,
                 "feasible": feasible})

# heap fields the block-restructuring routines may write (everything except: Solver fields, Constraint.left/right/gap/
# equality/unsatisfiable, Variable.scale/weight/desiredPosition/node/cIn/cOut)
RESTRUCT = ["Variable.$vpos", "Constraint.active", "Constraint.lm", "Constraint.lm$set", "Variable.offset", "Variable.block",
            "Block.vars", "Block.ps", "Block.posn", "Block.blockInd", "PositionStats.scale", "PositionStats.AB",
            "PositionStats.AD", "PositionStats.A2", "Blocks._list",
            "list.len.ref~Variable@vars", "list.elems.ref~Variable@vars", "list.len.ref~Block", "list.elems.ref~Block"]
CLISTS = ["list.len.ref~Constraint", "list.elems.ref~Constraint", "Constraint.$lastpos", "Constraint.$lastlist"]

_G = ["inv_blk()"]
_SOLVER_OK = ["self.cs is not None and self.inactive is not None and self.bs is not None and self.cs is not self.inactive",
              "nonnull(self.cs) and nonnull(self.inactive)"]
_SOLVER_PRE = ["self.cs is not None and self.inactive is not None and self.cs is not self.inactive", _SOLVER_OK[1]]

_BLOCKLIST_FRAME = {"requires": [], "modifies": ["Blocks._list", "list.len.ref~Block", "list.elems.ref~Block", "Block.blockInd"],
                    "allocates": ["list"], "returns": "none", "ensures": []}
CONTRACTS.update({
    # ---- assumed (tier T2, driver c05): the recursive split machinery ------------------------------------------------
    "vpsc.Blocks.split": {
        "props": ["C05", "C01"], "mode": "assume", "why": "iterates a list it replaces and recurses through compute_lm/populateSplitBlock",
        "requires": _G + ["inactive is not None", "nonnull(inactive)"],
        "modifies": RESTRUCT + CLISTS, "allocates": ["Block", "PositionStats", "list"],
        "ensures": _G + [
            "blocks_kept()",
            "implies(old(wf_constraints(inactive)), wf_constraints(inactive))",
            "len(inactive) >= old(len(inactive)) and nonnull(inactive)",
            "forall(lambda j: implies(0 <= j < old(len(inactive)), inactive[j] is old(inactive[j])))",
            # a constraint is only ever DE-activated here, and then it is appended to `inactive`
            "forall(lambda c: implies(isa(c, 'Constraint') and c.active, old(c.active)), 'ref:Constraint')",
            "forall(lambda c: implies(isa(c, 'Constraint') and old(alloc(c)) and old(c.active) and not c.active, listed(inactive, c)), 'ref:Constraint')",
            "forall(lambda c: implies(old(alloc(c)) and old(listed(inactive, c)), listed(inactive, c)), 'ref:Constraint')",
            # other constraint lists (Solver.cs, cIn/cOut) are untouched
            "forall(lambda q: implies(q is not inactive and old(alloc(q)), len(q) == old(len(q))), 'slist:ref:Constraint')",
            "forall(lambda q, j: implies(q is not inactive and old(alloc(q)), q[j] is old(q[j])), 'slist:ref:Constraint', 'int')",
        ],
    },
    # VERIFIED (the choice of direction, the distance handed over, the removal of the emptied block); the loop that moves
    # the variables is Block.mergeAcross, used here through its contract
    "vpsc.Blocks.merge": {
        "props": ["C05", "C01"], "heap": True,
        "params": {"self": "ref:Blocks", "c": "ref:Constraint"},
        "requires": _G + ["c is not None and not c.active", "wf_one(c)", "c.left.block is not c.right.block"],
        "modifies": RESTRUCT, "returns": "none",
        "ensures": [("s1_active_were_active", "forall(lambda d: implies(isa(d, 'Constraint') and d.active and d is not c, old(d.active) and old(inv_blk_at(d))), 'ref:Constraint')"),
                    ("s2_same_block", "forall(lambda d: implies(isa(d, 'Constraint') and d.active and d is not c, d.left.block is d.right.block), 'ref:Constraint')"),
                    ("s3_tight", "forall(lambda d: implies(isa(d, 'Constraint') and d.active and d is not c, tight(d)), 'ref:Constraint')"),
                    ("s4_each", "forall(lambda d: inv_blk_at(d), 'ref:Constraint')"),
                    ("inv_blk", "inv_blk()"), ("activated", "c.active"), ("blocks_kept", "blocks_kept()"),
                    ("others_keep_their_state", "forall(lambda d: implies(d is not c, d.active == old(d.active)), 'ref:Constraint')"),
                    ("now_tight", "tight(c) and c.left.block is c.right.block")],
    },
    "vpsc.Block.isActiveDirectedPathBetween": {
        "props": ["C05", "C01"], "mode": "assume", "why": "recursion over the constraint graph",
        "requires": [], "modifies": [], "returns": "bool", "ensures": []},
    "vpsc.Block.splitBetween": {
        "props": ["C05", "C01"], "mode": "assume", "why": "recursion (findMinLMBetween, populateSplitBlock)",
        "requires": _G, "modifies": RESTRUCT, "allocates": ["Block", "PositionStats", "list"],
        "returns_cases": [
            {"returns": "none", "ensures": ["blocks_kept()", "unchanged('Constraint.active', 'Variable.offset', 'Variable.block', 'Block.ps', 'Block.posn', 'PositionStats.scale')"]},
            {"returns": lambda E, Q: Q.new("dict", {"constraint": E.sym("split_c", "ref:Constraint"), "lb": E.sym("split_lb", "ref:Block"),
                                                    "rb": E.sym("split_rb", "ref:Block")}),
             "ensures": _G + ["blocks_kept()", "isa(result['constraint'], 'Constraint') and old(alloc(result['constraint']))",
                              "old(result['constraint'].active) and not result['constraint'].active",
                              "forall(lambda d: implies(d is not result['constraint'], d.active == old(d.active)), 'ref:Constraint')",
                              "result['lb'] is not None and result['rb'] is not None", "wf_one(result['constraint'])",
                              # the block is cut BETWEEN the two variables
                              "vl.block is not vr.block"]},
        ],
    },
    # ---- verified --------------------------------------------------------------------------------------------------------
    "vpsc.Solver.satisfy": {
        "props": ["C05", "C01", "C03"], "heap": True,
        "params": {"self": "ref:Solver"},
        "requires": ["inv_blk()", "inv_cs_except(self, None)", _SOLVER_PRE[0], _SOLVER_PRE[1],
                     "self.vs is not None and forall(lambda i: implies(0 <= i < len(self.vs), self.vs[i] is not None and self.vs[i].scale > 0))",
                     "implies(self.bs is not None, vars_in_blocks(self.vs))",
                     # either the blocks exist and every constraint is well-formed, or this is a new solver whose
                     # constraints are inactive and whose variables are about to get their blocks
                     "(self.bs is not None and wf_lists(self)) or (self.bs is None and self.vs is not None and prewf_list(self.cs, self.vs) "
                     "and prewf_list(self.inactive, self.vs) and own_inactive(self))",
                     # a new solver builds one block per variable (Blocks.__init__, verified): its variables are distinct, have
                     # positive weights, and no ACTIVE constraint (of an older solver) has an end among them
                     ("new_solver_variables", "implies(self.bs is None, forall(lambda j: implies(0 <= j < len(self.vs), self.vs[j].weight > 0 and vidx(self.vs[j]) == j)) "
                                              "and untouched_by_active(self.vs))")],
        "modifies": RESTRUCT + CLISTS + ["Constraint.unsatisfiable", "Solver.bs", "Blocks.vs"],
        "loops": {0: {
            "locals": {"v": "ref:Constraint", "lb": "ref:Block", "rb": "ref:Block"},
            "modifies": RESTRUCT + CLISTS + ["Constraint.unsatisfiable"], "allocates": ["Block", "PositionStats", "list"],
            "inv": [("G1_inv_blk", "inv_blk()"), ("G2_wf_lists", "wf_lists(self)"),
                    ("G5_solver", _SOLVER_OK[0]), ("G5_nonnull", _SOLVER_OK[1]),
                    ("G6_vars_in_blocks", "self.vs is not None and vars_in_blocks(self.vs)"),
                    ("G7_cs_kept", "len(self.cs) == old(len(self.cs)) and forall(lambda i: implies(0 <= i < len(self.cs), self.cs[i] is old(self.cs[i])))"),
                    ("v_typed", "v is None or isa(v, 'Constraint')"),
                    ("v_wf", "v is None or wf_one(v)"),
                    ("G3_inv_cs", "inv_cs_except(self, v)"),
                    ("G3b_inv_cs_when_kept", "v is None or (cslack(v) < %s and not v.active) or inv_cs_except(self, None)" % ZB),
                    ("G4_most_violated", "most_violated(self, v)")]}},
        "ensures": [("exit.feasible", "feasible(self)"),
                    ("inv_blk", "inv_blk()"), ("wf_lists", "wf_lists(self)"), ("inv_cs", "inv_cs_except(self, None)"),
                    ("solver_ok", " and ".join(_SOLVER_OK)),
                    ("vars_in_blocks", "self.vs is not None and vars_in_blocks(self.vs)"),
                    ("cs_kept", "len(self.cs) == old(len(self.cs)) and forall(lambda i: implies(0 <= i < len(self.cs), self.cs[i] is old(self.cs[i])))")],
    },
})


# ------------------------------------------------------------------------------------------- Block.mergeAcross
def vpos(E, P, ctx, v):
    """ghost: the index at which variable v was appended to the `vars` list of a block last (engine, list role `vars`)"""
    return [(P, Num(z3.Select(E.heap_array(P, "Variable.$vpos", IntS), v.t), True))]


SPECFUNS["vpos"] = vpos
SPECFUNS["opos"] = lambda E, P, ctx, c: [(P, Num(z3.Select(E.heap_array(P, "Constraint.$opos", IntS), c.t), True))]
SPECFUNS["ipos"] = lambda E, P, ctx, c: [(P, Num(z3.Select(E.heap_array(P, "Constraint.$ipos", IntS), c.t), True))]

_MA_ENS = [("activated", "c.active"),
           ("others_keep_their_state", "forall(lambda d: implies(d is not c, d.active == old(d.active)), 'ref:Constraint')"),
           # every variable that lived in b now lives in self, shifted by dist; nothing else moves
           ("moved", "forall(lambda v: implies(old(v.block) is b, v.block is self and v.offset == old(v.offset) + dist), 'ref:Variable')"),
           ("rest_untouched", "forall(lambda v: implies(old(v.block) is not b, v.block is old(v.block) and v.offset == old(v.offset)), 'ref:Variable')")]
_MA_MOD = ["Constraint.active", "Variable.offset", "Variable.block", "Variable.$vpos", "Block.posn", "PositionStats.AB", "PositionStats.AD",
           "PositionStats.A2", "list.len.ref~Variable@vars", "list.elems.ref~Variable@vars"]
# what Blocks.merge uses at its call site: the postcondition proved below, under the weaker precondition merge can establish
# itself.  The representation invariant of the two blocks (R2-R4 below) is NOT established by merge: its maintenance by
# Blocks.__init__ and the split routines is not proved (bounded only, driver c05) - recorded in the evidence.
MERGEACROSS_SUMMARY = {
    "requires": ["self is not None and b is not None and self is not b and c is not None"],
    "modifies": _MA_MOD, "returns": "none", "ensures": [e for _, e in _MA_ENS],
}
CONTRACTS["vpsc.Blocks.merge"]["callee_contracts"] = {"vpsc.Block.mergeAcross": MERGEACROSS_SUMMARY}
_MOVED_INV = ("forall(lambda v: implies(old(v.block) is b, (old(vpos(v)) < _km and v.block is self and v.offset == old(v.offset) + dist) "
              "or (old(vpos(v)) >= _km and v.block is b and v.offset == old(v.offset))), 'ref:Variable')")
CONTRACTS["vpsc.Block.mergeAcross"] = {
    "props": ["C05", "C01"], "heap": True,
    "params": {"self": "ref:Block", "b": "ref:Block", "c": "ref:Constraint", "dist": "real"},
    "requires": [
        ("R1_two_blocks", "self is not None and b is not None and self is not b and c is not None and self.ps is not None and b.ps is not None "
                          "and self.vars is not None and b.vars is not None and self.vars is not b.vars and self.ps is not b.ps"),
        # representation invariant of b: its list holds exactly the variables whose block it is, each once (ghost position)
        ("R2_vars_point_back", "forall(lambda j: implies(0 <= j < len(b.vars), b.vars[j] is not None and b.vars[j].block is b and vpos(b.vars[j]) == j "
                               "and b.vars[j].weight > 0 and b.vars[j].scale > 0))"),
        ("R3_members_are_listed", "forall(lambda v: implies(v.block is b, 0 <= vpos(v) < len(b.vars) and b.vars[vpos(v)] is v), 'ref:Variable')"),
        ("R4_stats", "self.ps.scale != 0 and self.ps.A2 > 0"),
    ],
    "modifies": _MA_MOD, "returns": "none",
    "loops": {"for i in range(len(b.vars))": {
        "label": "_move", "index": "_km", "locals": {"i": "int", "v": "ref:Variable"},
        "modifies": [m for m in _MA_MOD if m != "Constraint.active"],
        "inv": [("b_list_kept", "len(b.vars) == old(len(b.vars)) and b.vars is old(b.vars) and forall(lambda j: implies(0 <= j < len(b.vars), b.vars[j] is old(b.vars[j])))"),
                ("moved_prefix", _MOVED_INV),
                ("rest_untouched", _MA_ENS[3][1]),
                ("stats", "self.ps is old(self.ps) and self.vars is old(self.vars) and self.ps.scale == old(self.ps.scale) and self.ps.A2 > 0")]}},
    "ensures": _MA_ENS,
}


# ------------------------------------------------------------------------------------------- Blocks.insert / Blocks.remove
# VERIFIED under the list invariant Inv-list (_list[i].blockInd == i).  satisfy and merge use them through the frame-only
# summary _BLOCKLIST_FRAME: Inv-list is not carried through satisfy (its maintenance by Blocks.__init__ / Blocks.split is
# not proved), so their preconditions are not established at those call sites - recorded in the evidence.
CONTRACTS["vpsc.Blocks.insert"] = {
    "props": ["C05", "C01"], "heap": True,
    "params": {"self": "ref:Blocks", "b": "ref:Block"},
    "requires": ["self._list is not None and b is not None", "inv_list(self)",
                 ("not_yet_listed", "forall(lambda i: implies(0 <= i < len(self._list), self._list[i] is not b))")],
    "modifies": ["list.len.ref~Block", "list.elems.ref~Block", "Block.blockInd"], "returns": "none",
    "ensures": [("inv_list", "inv_list(self)"),
                ("appended", "self._list is old(self._list) and len(self._list) == old(len(self._list)) + 1 and self._list[len(self._list) - 1] is b"),
                ("prefix_kept", "forall(lambda i: implies(0 <= i < old(len(self._list)), self._list[i] is old(self._list[i])))"),
                ("index_of_b", "b.blockInd == len(self._list) - 1")],
}
CONTRACTS["vpsc.Blocks.remove"] = {
    "props": ["C05", "C01"], "heap": True,
    "params": {"self": "ref:Blocks", "b": "ref:Block"},
    "requires": ["self._list is not None and b is not None", "inv_list(self)",
                 ("b_is_listed", "0 <= b.blockInd < len(self._list) and self._list[b.blockInd] is b")],
    "modifies": ["Blocks._list", "list.len.ref~Block", "list.elems.ref~Block", "Block.blockInd"], "allocates": ["list"], "returns": "none",
    "ensures": [("inv_list", "inv_list(self)"),
                ("one_fewer", "self._list is not None and len(self._list) == old(len(self._list)) - 1"),
                ("b_is_gone", "forall(lambda i: implies(0 <= i < len(self._list), self._list[i] is not b))"),
                # every other block is still listed, at the index it now carries
                ("others_stay", "forall(lambda i: implies(0 <= i < old(len(self._list)) and old(self._list[i]) is not b, "
                                "0 <= old(self._list[i]).blockInd < len(self._list) and self._list[old(self._list[i]).blockInd] is old(self._list[i])))")],
}
for _k in ("vpsc.Solver.satisfy", "vpsc.Blocks.merge"):
    CONTRACTS[_k].setdefault("callee_contracts", {}).update({"vpsc.Blocks.insert": _BLOCKLIST_FRAME, "vpsc.Blocks.remove": _BLOCKLIST_FRAME})


# ------------------------------------------------------------------------------------------- Block.__init__ / addVariable
CONTRACTS["vpsc.Block.addVariable"] = {
    "props": ["C05", "C02"], "heap": True,
    "params": {"self": "ref:Block", "v": "ref:Variable"},
    "requires": ["self.vars is not None and self.ps is not None and v is not None", "v.scale != 0 and self.ps.scale != 0 and v.weight > 0 and self.ps.A2 >= 0"],
    "modifies": ["Variable.block", "Variable.$vpos", "Block.posn", "PositionStats.AB", "PositionStats.AD", "PositionStats.A2",
                 "list.len.ref~Variable@vars", "list.elems.ref~Variable@vars"],
    "returns": "none",
    "ensures": [("joins_the_block", "v.block is self and len(self.vars) == old(len(self.vars)) + 1 and self.vars[len(self.vars) - 1] is v and vpos(v) == len(self.vars) - 1"),
                ("earlier_members_kept", "forall(lambda j: implies(0 <= j < old(len(self.vars)), self.vars[j] is old(self.vars[j])))"),
                ("other_variables_keep_their_block", "forall(lambda u: implies(u is not v, u.block is old(u.block)), 'ref:Variable')"),
                # the block sits at the stationary point of its weighted squared displacement
                ("posn_is_stationary", "self.posn * self.ps.A2 == self.ps.AD - self.ps.AB"),
                ("A2_positive", "self.ps.A2 > 0"),
                ("same_scale", "implies(self.ps.scale == v.scale, self.ps.AD == old(self.ps.AD) + v.weight * v.desiredPosition and self.ps.A2 == old(self.ps.A2) + v.weight)"),
                ("zero_offset", "implies(v.offset == 0, self.ps.AB == old(self.ps.AB))"),
                ("stats_object_kept", "self.ps is old(self.ps) and self.vars is old(self.vars) and self.ps.scale == old(self.ps.scale)"),
                # frame: other member lists, other variables' ghost positions, other blocks' statistics and positions
                ("frame_other_lists", "forall(lambda q: implies(q is not self.vars and old(alloc(q)), len(q) == old(len(q))), 'slist:ref:Variable@vars')"),
                ("frame_other_lists_elems", "forall(lambda q, j: implies(q is not self.vars and old(alloc(q)), q[j] is old(q[j])), 'slist:ref:Variable@vars', 'int')"),
                ("frame_positions", "forall(lambda u: implies(u is not v, vpos(u) == old(vpos(u))), 'ref:Variable')"),
                ("frame_stats", "forall(lambda o: implies(o is not self.ps, o.AB == old(o.AB) and o.AD == old(o.AD) and o.A2 == old(o.A2)), 'ref:PositionStats')"),
                ("frame_posn", "forall(lambda o: implies(o is not self, o.posn == old(o.posn)), 'ref:Block')")],
}
CONTRACTS["vpsc.Block.__init__"] = {
    "props": ["C05", "C02"], "heap": True,
    "params": {"self": "ref:Block", "v": "ref:Variable"},
    "requires": ["v is not None and v.scale > 0 and v.weight > 0"],
    "modifies": ["Block.vars", "Block.ps", "Block.posn", "Variable.offset", "Variable.block", "Variable.$vpos", "PositionStats.scale", "PositionStats.AB",
                 "PositionStats.AD", "PositionStats.A2", "list.len.ref~Variable@vars", "list.elems.ref~Variable@vars"],
    "allocates": ["PositionStats", "list"], "returns": "none",
    "ensures": [("one_member", "self.vars is not None and fresh(self.vars) and len(self.vars) == 1 and self.vars[0] is v and v.block is self and vpos(v) == 0"),
                ("offset_zero", "v.offset == 0"),
                ("own_stats", "self.ps is not None and fresh(self.ps) and self.ps.scale == v.scale and self.ps.A2 > 0"),
                # a one-variable block sits at its variable's desired position (times the unit ratio of the scales)
                ("at_desired_position", "self.posn == v.desiredPosition"),
                ("reported_position", "spos(v) == v.scale * v.desiredPosition"),
                ("other_variables_untouched", "forall(lambda u: implies(u is not v and old(alloc(u)), u.block is old(u.block) and u.offset == old(u.offset)), 'ref:Variable')"),
                # frame: every block and statistics object that existed keeps its fields; other member lists are untouched
                ("other_blocks_untouched", "forall(lambda o: implies(o is not self and old(alloc(o)), o.vars is old(o.vars) and o.ps is old(o.ps) and o.posn == old(o.posn)), 'ref:Block')"),
                ("other_statistics_untouched", "forall(lambda o: implies(old(alloc(o)), o.scale == old(o.scale) and o.AB == old(o.AB) and o.AD == old(o.AD) and o.A2 == old(o.A2)), 'ref:PositionStats')"),
                ("other_lists_untouched", "forall(lambda q: implies(old(alloc(q)), len(q) == old(len(q))), 'slist:ref:Variable@vars')"),
                ("other_lists_elems_untouched", "forall(lambda q, j: implies(old(alloc(q)), q[j] is old(q[j])), 'slist:ref:Variable@vars', 'int')")],
}


def _statsum(which):
    """prefix sums over a block's member list of the three statistics (uninterpreted, unfolded one step at k):
    AB: w a b, AD: w a d, A2: w a a  with  a = S / s_i, b = o_i / s_i"""
    def f(E, P, ctx, blk, k):
        lst = rd(E, P, blk, "Block", "vars")
        row = E.l_elems(P, lst)
        S = rd(E, P, rd(E, P, blk, "Block", "ps"), "PositionStats", "scale").t
        arrs = [E.heap_array(P, "Variable.%s" % n, RealS) for n in ("weight", "scale", "offset", "desiredPosition")]
        name = "STAT_" + which
        g = E.uf.get(name)
        if g is None:
            g = E.uf[name] = z3.Function(name, *([row.sort(), RealS] + [a.sort() for a in arrs] + [IntS, RealS]))

        def term(j):
            v = z3.Select(row, j)
            w, sc, off, d = (z3.Select(a, v) for a in arrs)
            a_ = S / sc
            return {"AB": w * a_ * (off / sc), "AD": w * a_ * d, "A2": w * a_ * a_}[which]
        kt = k.t
        P.assume(g(row, S, *arrs, z3.IntVal(0)) == 0)
        P.assume(g(row, S, *arrs, kt + 1) == g(row, S, *arrs, kt) + term(kt))
        P.assume(z3.Implies(kt > 0, g(row, S, *arrs, kt) == g(row, S, *arrs, kt - 1) + term(kt - 1)))
        return [(P, Num(g(row, S, *arrs, kt), False))]
    return f


SPECFUNS.update({"sumAB": _statsum("AB"), "sumAD": _statsum("AD"), "sumA2": _statsum("A2")})


# ------------------------------------------------------------------------------------------- Block.updateWeightedPosition
# the statistics are rebuilt from the block's variables and the block is moved to the stationary point of its weighted squared
# displacement; no variable, constraint or other block is touched
CONTRACTS["vpsc.Block.updateWeightedPosition"] = {
    "props": ["C05", "C02"], "heap": True,
    "params": {"self": "ref:Block"},
    "requires": ["self.vars is not None and self.ps is not None and len(self.vars) >= 1 and self.ps.scale != 0",
                 "forall(lambda j: implies(0 <= j < len(self.vars), self.vars[j] is not None and self.vars[j].weight > 0 and self.vars[j].scale != 0))"],
    "modifies": ["Block.posn", "PositionStats.AB", "PositionStats.AD", "PositionStats.A2"], "returns": "none",
    "loops": {"for i in range(len(self.vars))": {
        "label": "_sum", "index": "_ku", "locals": {"i": "int"},
        "modifies": ["PositionStats.AB", "PositionStats.AD", "PositionStats.A2"],
        "inv": [("stats_kept", "self.ps is old(self.ps) and self.ps.scale == old(self.ps.scale)"),
                ("A2_nonnegative", "self.ps.A2 >= 0 and implies(_ku >= 1, self.ps.A2 > 0)"),
                ("running_sums", "self.ps.AB == sumAB(self, _ku) and self.ps.AD == sumAD(self, _ku) and self.ps.A2 == sumA2(self, _ku)"),
                ("others_untouched", "forall(lambda o: implies(o is not self.ps, o.AB == old(o.AB) and o.AD == old(o.AD) and o.A2 == old(o.A2)), 'ref:PositionStats')")]}},
    "ensures": [("statistics_are_the_sums_over_the_members", "self.ps.AB == sumAB(self, len(self.vars)) and self.ps.AD == sumAD(self, len(self.vars)) "
                                                             "and self.ps.A2 == sumA2(self, len(self.vars))"),
                ("posn_is_stationary", "self.posn * self.ps.A2 == self.ps.AD - self.ps.AB"),
                ("A2_positive", "self.ps.A2 > 0"),
                ("other_blocks_stay", "forall(lambda o: implies(o is not self, o.posn == old(o.posn)), 'ref:Block')"),
                ("other_statistics_stay", "forall(lambda o: implies(o is not self.ps, o.AB == old(o.AB) and o.AD == old(o.AD) and o.A2 == old(o.A2)), 'ref:PositionStats')")],
}


# ------------------------------------------------------------------------------------------- Blocks.__init__
def untouched_by_active(E, P, ctx, vs):
    """no ACTIVE constraint has an end among the variables of vs (a new solver: its own constraints are inactive and the
    constraints of older solvers join older variables) - what makes it safe to give every variable of vs a new block"""
    c = Ref(z3.Const("c!uba", RefS), "Constraint")
    l, r = rd(E, P, c, "Constraint", "left"), rd(E, P, c, "Constraint", "right")
    act = rd(E, P, c, "Constraint", "active").t
    body = z3.Implies(z3.And(c.t != NULL, z3.Select(E.alloc_arr(P), c.t), E.type_is(P, c.t, "Constraint"), act),
                      z3.And(l.t != NULL, r.t != NULL, z3.Not(_in_vs(E, P, vs, l)), z3.Not(_in_vs(E, P, vs, r))))
    return [(P, Bool(_forall([c.t], body, z3.Select(E.heap_array(P, "Constraint.active", z3.BoolSort()), c.t))))]


SPECFUNS["untouched_by_active"] = untouched_by_active
_VS_OK = "forall(lambda j: implies(0 <= j < len(vs), vs[j] is not None and vs[j].scale > 0 and vs[j].weight > 0 and vidx(vs[j]) == j))"
_BUILT = ("forall(lambda j: implies({lo} < j < len(vs), self._list[j] is not None and self._list[j].blockInd == j and vs[j].block is self._list[j] "
          "and self._list[j].ps is not None and self._list[j].vars is not None))")
CONTRACTS["vpsc.Blocks.__init__"] = {
    "props": ["C05", "C01"], "heap": True, "none_list_kind": "ref:Block",
    "params": {"self": "ref:Blocks", "vs": "slist:ref:Variable"},
    "requires": ["vs is not None", "inv_blk()", ("variables_ok_and_distinct", _VS_OK),
                 ("no_active_constraint_touches_vs", "untouched_by_active(vs)")],
    "returns": "none", "allocates": ["Block", "PositionStats", "list"],
    "modifies": RESTRUCT + ["Blocks.vs"],
    "loops": {"for i in range(len(vs) - 1, -1, -1)": {
        "label": "_build", "index": "_kb", "locals": {"i": "int", "b": "ref:Block"},
        "modifies": [m for m in RESTRUCT if m not in ("Constraint.active", "Constraint.lm", "Constraint.lm$set", "Blocks._list")],
        "allocates": ["Block", "PositionStats", "list"],
        "inv": [("lists", "self.vs is vs and self._list is not None and len(self._list) == len(vs) and len(vs) == old(len(vs)) "
                          "and forall(lambda j: implies(0 <= j < len(vs), vs[j] is old(vs[j])))"),
                ("vs_ok", _VS_OK),
                ("built_suffix", _BUILT.format(lo="_kb")),
                ("inv_blk", "inv_blk()"),
                ("no_active_touches_vs", "untouched_by_active(vs)"),
                ("others_untouched", "forall(lambda u: implies(old(alloc(u)) and not in_vs(vs, u), u.block is old(u.block) and u.offset == old(u.offset)), 'ref:Variable')"),
                ("old_blocks_untouched", "forall(lambda o: implies(old(alloc(o)), o.vars is old(o.vars) and o.ps is old(o.ps)), 'ref:Block')")]}},
    "ensures": [("inv_blk", "inv_blk()"), ("lists_handed_over", "self.vs is vs and self._list is not None and len(self._list) == len(vs)"),
                ("one_block_per_variable", _BUILT.format(lo="-1")),
                ("inv_list", "inv_list(self)"),
                ("vars_in_blocks", "vars_in_blocks(vs)"),
                ("members_have_blocks", "forall(lambda u: implies(in_vs(vs, u), u.block is not None and u.block.ps is not None and u.block.vars is not None), 'ref:Variable')"),
                ("wf_old_blocks", "forall(lambda u: implies(old(alloc(u)) and isa(u, 'Variable') and old(u.block) is not None, old(alloc(u.block))), 'ref:Variable')"),
                ("non_members_untouched", "forall(lambda u: implies(old(alloc(u)) and isa(u, 'Variable') and not in_vs(vs, u), u.block is old(u.block) and u.offset == old(u.offset) "
                                          "and implies(old(u.block) is not None, u.block.ps is old(u.block.ps) and u.block.vars is old(u.block.vars))), 'ref:Variable')"),
                ("blocks_kept", "blocks_kept()")],
}


def cost_of_state(E, P, ctx):
    """the weighted squared displacement as a function of the heap fields it reads (kept uninterpreted: the SUM over the
    block partition is bounded-only, driver c05); used to state 'the reported cost is the cost of the reported positions'"""
    keys = ["Variable.offset", "Variable.block", "Variable.scale", "Variable.weight", "Variable.desiredPosition",
            "Block.posn", "Block.ps", "Block.vars", "PositionStats.scale", "Blocks._list",
            "list.len.ref~Variable@vars", "list.elems.ref~Variable@vars", "list.len.ref~Block", "list.elems.ref~Block"]
    arrs = []
    for k in keys:
        if k.startswith("list.len."):
            arrs.append(E.heap_array(P, k, IntS))
        elif k.startswith("list.elems."):
            arrs.append(E.heap_array(P, k, z3.ArraySort(IntS, RefS)))
        else:
            cls, f = k.split(".")
            arrs.append(E.heap_array(P, k, E.sort_of_kind(E.field_kind(cls, f))))
    f = E.uf.get("COST")
    if f is None:
        f = E.uf["COST"] = z3.Function("COST", *([a.sort() for a in arrs] + [RealS]))
    return [(P, Num(f(*arrs), False))]


SPECFUNS["cost_of_state"] = cost_of_state


# ------------------------------------------------------------------------------------------- Block.cost / Blocks.cost
# "the reported cost equals the cost of the reported positions": the weighted squared displacement as nested suffix sums
# (the loops run downwards) over the block list and each block's member list - uninterpreted sums unfolded one step.
_COST_ARRS = ["Variable.offset", "Variable.block", "Variable.scale", "Variable.weight", "Variable.desiredPosition",
              "Block.posn", "Block.ps", "Block.vars", "PositionStats.scale"]


def _cost_arrays(E, P):
    arrs = []
    for k in _COST_ARRS:
        cls, f = k.split(".")
        arrs.append(E.heap_array(P, k, E.sort_of_kind(E.field_kind(cls, f))))
    arrs.append(E.heap_array(P, "list.elems.ref~Variable@vars", z3.ArraySort(IntS, z3.ArraySort(IntS, RefS))))
    arrs.append(E.heap_array(P, "list.len.ref~Variable@vars", z3.ArraySort(IntS, IntS)) if False else E.heap_array(P, "list.len.ref~Variable@vars", IntS))
    return arrs


def _uf(E, name, sorts):
    f = E.uf.get(name)
    if f is None:
        f = E.uf[name] = z3.Function(name, *sorts)
    return f


def _vterm(E, P, v):
    """w (position - desired)^2 of one variable, position = (S posn + offset) / scale"""
    vr = Ref(v, "Variable")
    pos = spos(E, P, None, vr)[0][1].t / rd(E, P, vr, "Variable", "scale").t
    d = pos - rd(E, P, vr, "Variable", "desiredPosition").t
    return d * d * rd(E, P, vr, "Variable", "weight").t


def costv(E, P, ctx, blk, k):
    """sum over the members j >= k of block blk"""
    arrs = _cost_arrays(E, P)
    f = _uf(E, "COSTV", [RefS] + [a.sort() for a in arrs] + [IntS, RealS])
    lst = rd(E, P, blk, "Block", "vars")
    n = E.l_len(P, lst)
    row = E.l_elems(P, lst)
    kt = k.t
    g = lambda j: f(blk.t, *arrs, j)
    P.assume(g(n) == 0)
    P.assume(z3.Implies(z3.And(0 <= kt, kt < n), g(kt) == g(kt + 1) + _vterm(E, P, z3.Select(row, kt))))
    P.assume(z3.Implies(z3.And(0 < kt, kt <= n), g(kt - 1) == g(kt) + _vterm(E, P, z3.Select(row, kt - 1))))
    return [(P, Num(g(kt), False))]


def costb(E, P, ctx, bs, k):
    """sum over the blocks j >= k of the list of bs of their member sums"""
    arrs = _cost_arrays(E, P)
    lst = rd(E, P, bs, "Blocks", "_list")
    row = E.l_elems(P, lst)
    n = E.l_len(P, lst)
    f = _uf(E, "COSTB", [row.sort()] + [a.sort() for a in arrs] + [IntS, RealS])
    fv = _uf(E, "COSTV", [RefS] + [a.sort() for a in arrs] + [IntS, RealS])
    kt = k.t
    g = lambda j: f(row, *arrs, j)
    P.assume(g(n) == 0)
    P.assume(z3.Implies(z3.And(0 <= kt, kt < n), g(kt) == g(kt + 1) + fv(z3.Select(row, kt), *arrs, z3.IntVal(0))))
    P.assume(z3.Implies(z3.And(0 < kt, kt <= n), g(kt - 1) == g(kt) + fv(z3.Select(row, kt - 1), *arrs, z3.IntVal(0))))
    return [(P, Num(g(kt), False))]


SPECFUNS.update({"costv": costv, "costb": costb})
CONTRACTS["vpsc.Block.cost"] = {
    "props": ["C05"], "heap": True,
    "params": {"self": "ref:Block"},
    "requires": ["self.vars is not None", "forall(lambda j: implies(0 <= j < len(self.vars), self.vars[j] is not None and self.vars[j].scale != 0 "
                                          "and self.vars[j].block is not None and self.vars[j].block.ps is not None))"],
    "modifies": [], "returns": "real",
    "loops": {"for i in range(len(self.vars) - 1, -1, -1)": {
        "label": "_members", "index": "_kc", "locals": {"i": "int", "v": "ref:Variable", "d": "real", "_sum": "real"},
        "inv": [("suffix_sum", "_sum == costv(self, _kc + 1)")]}},
    "ensures": [("sum_over_the_members", "result == costv(self, 0)")],
}
CONTRACTS["vpsc.Blocks.cost"] = {
    "props": ["C05"], "heap": True,
    "params": {"self": "ref:Blocks"},
    "requires": ["self._list is not None",
                 "forall(lambda j: implies(0 <= j < len(self._list), self._list[j] is not None and self._list[j].vars is not None))",
                 "forall(lambda j: implies(0 <= j < len(self._list), forall(lambda i: implies(0 <= i < len(self._list[j].vars), self._list[j].vars[i] is not None "
                 "and self._list[j].vars[i].scale != 0 and self._list[j].vars[i].block is not None and self._list[j].vars[i].block.ps is not None))))"],
    "modifies": [], "returns": "real",
    "loops": {"for i in range(len(self._list) - 1, -1, -1)": {
        "label": "_blocks", "index": "_kb", "locals": {"i": "int", "_sum": "real"},
        "inv": [("suffix_sum", "_sum == costb(self, _kb + 1)")]}},
    "ensures": [("sum_over_the_blocks", "result == costb(self, 0)")],
}

_CS_KEPT = "len(self.cs) == old(len(self.cs)) and forall(lambda i: implies(0 <= i < len(self.cs), self.cs[i] is old(self.cs[i])))"
_SAT_POST = ["feasible(self)", "inv_blk()", "wf_lists(self)", "inv_cs_except(self, None)"] + _SOLVER_OK + ["self.vs is not None and vars_in_blocks(self.vs)", _CS_KEPT]
CONTRACTS["vpsc.Solver.solve"] = {
    "props": ["C05", "C01", "C03"], "heap": True,
    "params": {"self": "ref:Solver"},
    "requires": CONTRACTS["vpsc.Solver.satisfy"]["requires"],
    "modifies": CONTRACTS["vpsc.Solver.satisfy"]["modifies"], "allocates": ["Block", "PositionStats", "list"],
    "loops": {0: {"locals": {"lastcost": "real", "cost": "real"},
                  "modifies": CONTRACTS["vpsc.Solver.satisfy"]["modifies"], "allocates": ["Block", "PositionStats", "list"],
                  "inv": [(n, e) for n, e in zip(["feasible", "inv_blk", "wf_lists", "inv_cs", "solver_ok", "nonnull", "vars_in_blocks", "cs_kept"], _SAT_POST)]
                  + [("cost_is_current", "cost == costb(self.bs, 0)")]}},
    "ensures": [("feasible", "feasible(self)"),
                ("cost_of_reported_positions", "result == costb(self.bs, 0)"),
                ("vars_in_blocks", "self.vs is not None and vars_in_blocks(self.vs)"),
                ("inv_blk", "inv_blk()"), ("wf_lists", "wf_lists(self)"), ("cs_kept", _CS_KEPT)],
    "returns": "real",
}
# Blocks.cost (verified above under the block-list representation facts, which satisfy does not carry): used in solve through its
# postcondition only - "callee preconditions not established here"
CONTRACTS["vpsc.Solver.solve"]["callee_contracts"] = {"vpsc.Blocks.cost": {
    "requires": [], "modifies": [], "returns": "real", "ensures": ["result == costb(self, 0)"]}}
# satisfy is used through its contract at solve's call sites
CONTRACTS["vpsc.Solver.satisfy"]["allocates"] = ["Block", "PositionStats", "list"]
CONTRACTS["vpsc.Solver.satisfy"]["returns"] = "none"


# Solver.__init__: VERIFIED (three loops).  It hands the solver the caller's lists, gives every variable of vs fresh
# adjacency lists, copies cs into `inactive` (same positions) and de-activates every constraint of cs.  The ends of every
# constraint must be elements of vs (ghost inverse index Variable.$vidx): otherwise `c.left.cOut` may not exist.
_ADJ_OK = "forall(lambda i: implies(0 <= i < len(vs), vs[i] is not None and vs[i].cIn is not None and vs[i].cOut is not None))"
_CS_ENDS = ("forall(lambda j: implies(0 <= j < len(cs), cs[j] is not None and cs[j].left is not None and cs[j].right is not None "
            "and in_vs(vs, cs[j].left) and in_vs(vs, cs[j].right)))")
# the constraint sits in the outgoing list of its left end and in the incoming list of its right end (ghost positions)
_LINKED = ("forall(lambda j: implies(0 <= j < %s, 0 <= opos(cs[j]) < len(cs[j].left.cOut) and cs[j].left.cOut[opos(cs[j])] is cs[j] "
           "and 0 <= ipos(cs[j]) < len(cs[j].right.cIn) and cs[j].right.cIn[ipos(cs[j])] is cs[j]))")
_CS_SAME = "len(cs) == old(len(cs)) and forall(lambda j: implies(0 <= j < len(cs), cs[j] is old(cs[j])))"
_VS_SAME = "len(vs) == old(len(vs)) and forall(lambda i: implies(0 <= i < len(vs), vs[i] is old(vs[i])))"
CONTRACTS["vpsc.Solver.__init__"] = {
    "props": ["C05", "C01"], "heap": True,
    "params": {"self": "ref:Solver", "vs": "slist:ref:Variable", "cs": "slist:ref:Constraint"},
    "requires": ["vs is not None and cs is not None", "nonnull(cs)",
                 "forall(lambda j: implies(0 <= j < len(cs), lastpos(cs[j]) == j))",
                 ("vs_nonnull", "forall(lambda i: implies(0 <= i < len(vs), vs[i] is not None))"),
                 ("constraint_ends_are_variables_of_vs", _CS_ENDS)],
    "modifies": ["Solver.vs", "Solver.cs", "Solver.inactive", "Solver.bs", "Constraint.active", "Variable.cIn", "Variable.cOut",
                 "list.len.ref~Constraint", "list.elems.ref~Constraint", "list.len.ref~Constraint@cin", "list.elems.ref~Constraint@cin", "list.len.ref~Constraint@cout", "list.elems.ref~Constraint@cout", "Constraint.$ipos", "Constraint.$opos"],
    "allocates": ["list"], "returns": "none",
    "loops": {
        "for v in vs": {"label": "_adj", "index": "_ka", "locals": {"v": "ref:Variable"},
                        "modifies": ["Variable.cIn", "Variable.cOut", "list.len.ref~Constraint@cin", "list.len.ref~Constraint@cout"], "allocates": ["list"],
                        "inv": [("prefix_has_lists", "forall(lambda i: implies(0 <= i < _ka, vs[i].cIn is not None and vs[i].cOut is not None))"),
                                ("vs_same", _VS_SAME), ("cs_same", _CS_SAME)]},
        "for c in cs": {"label": "_link", "index": "_kc", "locals": {"c": "ref:Constraint"},
                        "modifies": ["list.len.ref~Constraint@cin", "list.elems.ref~Constraint@cin", "list.len.ref~Constraint@cout", "list.elems.ref~Constraint@cout", "Constraint.$ipos", "Constraint.$opos"],
                        "inv": [("adj_ok", _ADJ_OK), ("prefix_linked", _LINKED % "_kc"), ("vs_same", _VS_SAME), ("cs_same", _CS_SAME)]},
        "for c in self.inactive": {"label": "_deact", "index": "_kd", "locals": {"c": "ref:Constraint"},
                                   "modifies": ["Constraint.active"],
                                   "inv": [("prefix_inactive", "forall(lambda j: implies(0 <= j < _kd, not self.inactive[j].active))"),
                                           ("only_own_touched", "forall(lambda c: implies(old(alloc(c)) and c.active != old(c.active), "
                                                                "old(c.active) and 0 <= lastpos(c) < _kd and self.inactive[lastpos(c)] is c), 'ref:Constraint')"),
                                           ("lists", "self.inactive is not None and self.inactive is not cs and len(self.inactive) == len(cs) and "
                                                     "forall(lambda j: implies(0 <= j < len(cs), self.inactive[j] is cs[j]))"),
                                           ("cs_same", _CS_SAME)]},
    },
    "ensures": [("lists_handed_over", "self.vs is vs and self.cs is cs and self.bs is None"),
                ("inactive_is_a_fresh_list", "self.inactive is not None and self.inactive is not cs and fresh(self.inactive)"),
                ("inactive_len", "len(self.inactive) == len(cs) and len(cs) == old(len(cs))"),
                ("inactive_is_a_copy", "forall(lambda j: implies(0 <= j < len(cs), cs[j] is old(cs[j]) and self.inactive[j] is cs[j]))"),
                ("own_inactive", "own_inactive(self)"),
                # constraints of other solvers keep their state
                ("nothing_activated", "forall(lambda c: implies(old(alloc(c)) and c.active, old(c.active)), 'ref:Constraint')"),
                ("only_own_deactivated", "forall(lambda c: implies(old(alloc(c)) and old(c.active) and not c.active, 0 <= lastpos(c) < len(cs) and cs[lastpos(c)] is c), 'ref:Constraint')"),
                ("adjacency_lists_exist", _ADJ_OK),
                # what the recursive routines walk: every constraint is reachable from both of its ends
                ("adjacency_complete", _LINKED % "len(cs)")],
}
