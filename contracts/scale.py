"""Sidecar contracts for labella/scale.py — linear part (C12, C13, C14) and time scale (C15, C16)."""
import z3

from pyvc.values import (Num, Bool, Func, Bound, Handle, ClassV, NONE, Str, I, R, B, SpecError, Unsupported, RealS, IntS)
from pyvc.engine import Ctx

TYPES = {}


# ----------------------------------------------------------------------------------------------------------------
# helpers to build a LinearScale in an ARBITRARY state satisfying the class invariant Inv-scale:
#   "the closures captured by the last rescale() were built from the current contents of _domain/_range/_clamp".
# Such a state is exactly: fields with arbitrary contents, then the REAL rescale() executed on it.
# ----------------------------------------------------------------------------------------------------------------
def new_linear_scale(E, P, name, clamp):
    """-> list of (path, obj, ghosts): the real rescale() may fork (degenerate domain / range)."""
    a, b, r0, r1 = (E.sym("%s_%s" % (name, n), "real") for n in ("a", "b", "r0", "r1"))
    dom = P.new("list", (a, b))
    rng = P.new("list", (r0, r1))
    obj = P.new("obj", {"_domain": dom, "_range": rng, "_clamp": B(clamp),
                        "_interpolate": E.global_name(P, "scale", "d3_interpolate"), "_output": NONE, "_input": NONE},
                cls=("scale", "LinearScale"))
    ctx = Ctx("scale", (E.new_frame(P),), False, "<setup>")
    res = E.getattr(P, ctx, obj, "rescale")
    out = []
    for (p, _) in E.call(res[0][0], ctx, res[0][1], [], {}):
        # ... and then the public READ methods have been used (a scale that has already mapped and inverted values): a
        # representation that caches on first use must still be re-established by every mutator
        qs = [p]
        for meth, arg in (("scale", "x0"), ("invert", "y0")):
            nxt = []
            for q in qs:
                m = E.getattr(q, ctx, obj, meth)
                for (q2, _v) in E.call(m[0][0], ctx, m[0][1], [E.sym("%s_%s" % (name, arg), "real")], {}):
                    nxt.append(q2)
            qs = nxt
        for q in qs:
            q.written = set()
            out.append((q, obj, dict(a=a, b=b, r0=r0, r1=r1)))
    return out


def setup_scale(clamp, two=False):
    def setup(E, P, env):
        outs = []
        for (p, s, g) in new_linear_scale(E, P, "s", clamp):
            e1 = dict(env)
            e1.update({"self": s, "sa": g["a"], "sb": g["b"], "sr0": g["r0"], "sr1": g["r1"]})
            if not two:
                outs.append((p, e1))
                continue
            for (q, t, h) in new_linear_scale(E, p, "t", not clamp):
                e2 = dict(e1)
                e2.update({"other": t, "ta": h["a"], "tb": h["b"], "tr0": h["r0"], "tr1": h["r1"]})
                outs.append((q, e2))
        return outs
    return setup


# the affine map through the end points, clamped or not — the statement of C12, written once
AFF = "({r0}) * (1 - (({x}) - ({a})) / (({b}) - ({a}))) + ({r1}) * ((({x}) - ({a})) / (({b}) - ({a})))"
CLAMPED = "({r0}) * (1 - max(0, min(1, (({x}) - ({a})) / (({b}) - ({a}))))) + ({r1}) * max(0, min(1, (({x}) - ({a})) / (({b}) - ({a}))))"


def maps(obj, x, clamp, a, b, r0, r1):
    f = CLAMPED if clamp else AFF
    return "%s.scale(%s) == %s" % (obj, x, f.format(x=x, a=a, b=b, r0=r0, r1=r1))


def inv_scale(obj, clamp):
    """Inv-scale(obj): its mapping is the affine map through the end points of the domain and range it REPORTS now.
    Stated over what the PUBLIC methods return for the two domain ends and for two symbolic probes xq, yq (parameters of the
    contract, hence universally quantified): the calls are made by the contract's epilogue (inv_epilogue), i.e. executed like
    code, so a representation that fills a cache on first use is handled like any other state change."""
    a, b, r0, r1 = ("%s._domain[0]" % obj, "%s._domain[1]" % obj, "%s._range[0]" % obj, "%s._range[1]" % obj)
    return [
        ("inv.endpoint0", "implies({a} != {b}, _ia == {r0})".format(a=a, b=b, r0=r0)),
        ("inv.endpoint1", "implies({a} != {b}, _ib == {r1})".format(a=a, b=b, r1=r1)),
        ("inv.affine", "implies({a} != {b}, _ix == {f})".format(a=a, b=b, f=(CLAMPED if clamp else AFF).format(x="xq", a=a, b=b, r0=r0, r1=r1))),
        ("inv.inverse", "implies({r0} != {r1}, _iy == {f})".format(
            r0=r0, r1=r1, f=(CLAMPED if clamp else AFF).format(x="yq", a=r0, b=r1, r0=a, r1=b))),
        ("inv.two_ends", "len(%s._domain) == 2 and len(%s._range) == 2" % (obj, obj)),
    ]


def inv_epilogue(obj):
    return ("_ia = {o}.scale({o}._domain[0])\n_ib = {o}.scale({o}._domain[1])\n_ix = {o}.scale(xq)\n_iy = {o}.invert(yq)\n").format(o=obj)


# replay of a refuted Inv-scale clause of domain()/range()/clamp()/rescale(): the contract's entry state and epilogue as a call
# history on the real class - a scale that has mapped and inverted values is re-configured, then probed
_REPLAY_INV = """
def replay(m):
    import collections
    m = collections.defaultdict(int, m)
    from labella.scale import LinearScale
    s = LinearScale()
    s.clamp(%(clamp)s)
    s.domain([m["s_a"], m["s_b"]]); s.range([m["s_r0"], m["s_r1"]])
    s.scale(m["s_x0"]); s.invert(m["s_y0"])                      # the scale has been used
    hist = "LinearScale().clamp(%(clamp)s).domain(%%r).range(%%r); scale(%%r); invert(%%r); " %% (
        [m["s_a"], m["s_b"]], [m["s_r0"], m["s_r1"]], m["s_x0"], m["s_y0"])
    %(call)s
    d, r = s.domain(), s.range()
    if d[0] == d[1] or r[0] == r[1]:
        return False, "degenerate after the call", hist
    def aff(x, a, b, p, q):
        t = (x - a) / (b - a)
        %(clip)s
        return p * (1 - t) + q * t
    xq, yq = m["xq"], m["yq"]
    want_x, want_y = aff(xq, d[0], d[1], r[0], r[1]), aff(yq, r[0], r[1], d[0], d[1])
    got_x, got_y = s.scale(xq), s.invert(yq)
    tol = lambda w: 1e-9 * max(1.0, abs(w))
    failed = abs(got_x - want_x) > tol(want_x) or abs(got_y - want_y) > tol(want_y) or abs(s.scale(d[0]) - r[0]) > tol(r[0]) or abs(s.scale(d[1]) - r[1]) > tol(r[1])
    return failed, "domain %%r range %%r: scale(%%r) = %%r (want %%r), invert(%%r) = %%r (want %%r), scale(ends) = %%r" %% (
        d, r, xq, got_x, want_x, yq, got_y, want_y, [s.scale(d[0]), s.scale(d[1])]), hist
"""
_REPLAY_CALLS = {"domain": 's.domain([m["x_0"], m["x_1"]]); hist += "domain(%r)" % ([m["x_0"], m["x_1"]],)',
                 "range": 's.range([m["x_0"], m["x_1"]]); hist += "range(%r)" % ([m["x_0"], m["x_1"]],)',
                 "rescale": 's.rescale(); hist += "rescale()"'}


def _attach_inv_epilogues():
    """every contract that states Inv-scale gets the probe parameters and the epilogue that makes the calls"""
    for k, c in CONTRACTS.items():
        names = [n for (n, _) in [e for e in c.get("ensures", []) if isinstance(e, tuple)]]
        if "inv.endpoint0" in names and "epilogue" not in c:
            obj = "result" if k.startswith("scale.LinearScale.copy@") else "self"
            c["epilogue"] = inv_epilogue(obj)
            c["params"] = dict(c.get("params", {}), xq="real", yq="real")
            meth = k.split(".")[-1].split("@")[0]
            if meth in _REPLAY_CALLS and "replay" not in c and "shared_list" not in k:
                clamp = k.endswith("@clamp")
                c["replay"] = _REPLAY_INV % dict(clamp=clamp, call=_REPLAY_CALLS[meth],
                                                 clip="t = max(0.0, min(1.0, t))" if clamp else "pass")


def _shared_range(E, P, env, setup, get_linear=lambda p, s: s):
    """x := the scale's own _range list object, overwritten in place with (n0, n1) by its other holder"""
    outs = []
    for (p, e) in setup(E, P, env):
        lin = get_linear(p, e["self"])
        L = p.get(lin)["_range"]
        p.put(L, (e["n0"], e["n1"]))
        outs.append((p, dict(e, x=L)))
    return outs


_REPLAY_SHARED = """
def replay(m):
    import collections
    m = collections.defaultdict(int, m)
    from labella.scale import %(cls)s
    import datetime
    s = %(cls)s()
    %(clamp)s
    %(dom)s
    L = [m["s_r0"], m["s_r1"]]
    junk = [m["s_r0"] + 7, m["s_r1"] + 13]          # make sure the scale holds L itself, whatever its previous range was
    s.range(junk if junk != s.range() else [junk[0] + 1, junk[1]])
    s.range(L)
    L[0], L[1] = m["n0"], m["n1"]
    s.range(L)
    d = s.domain()
    got = [s(d[0]), s(d[1])]
    failed = d[0] != d[1] and got != [m["n0"], m["n1"]]
    hist = "s = %(cls)s(); domain(%%r); L = %%r; s.range(L); L[:] = %%r; s.range(L)" %% (d, [m["s_r0"], m["s_r1"]], [m["n0"], m["n1"]])
    return failed, "s(domain ends) = %%r, s.range() = %%r" %% (got, s.range()), hist
"""


def unchanged_other(clamp_other):
    """a second scale with its own lists is not influenced (frame of every mutator)"""
    return [("frame.other_domain", "other._domain[0] == ta and other._domain[1] == tb"),
            ("frame.other_range", "other._range[0] == tr0 and other._range[1] == tr1"),
            ("frame.other_maps", "forall(lambda x: implies(ta != tb, %s), 'real')" % maps("other", "x", clamp_other, "ta", "tb", "tr0", "tr1"))]


def method_cases(body_ensures, two=True, extra_requires=()):
    cases = []
    for clamp in (False, True):
        cases.append({"setup_case": clamp, "requires": list(extra_requires),
                      "ensures": body_ensures(clamp) + (unchanged_other(not clamp) if two else [])})
    return cases


def _mk(method, params, ensures_fn, props, two=True, requires=(), returns_self=True):
    """one contract per clamp state (the setup runs the real rescale() for that state)"""
    out = {}
    for clamp in (False, True):
        q = "scale.LinearScale.%s" % method
        out[(q, clamp)] = None
    return out


CONTRACTS = {
    # ---- closures --------------------------------------------------------------------------------------------
    "scale.d3_uninterpolateNumber": {
        "props": ["C12", "C11"], "inline": True,
        "params": {"a": "real", "b": "real"},
        "ensures": [("affine", "forall(lambda x: implies(a != old(b), result(x) * (old(b) - a) == x - a), 'real')"),
                    ("degenerate_maps_to_start", "forall(lambda x: implies(a == old(b), result(x) == 0), 'real')")],
    },
    "scale.d3_uninterpolateClamp": {
        "props": ["C12", "C11"], "inline": True,
        "params": {"a": "real", "b": "real"},
        "ensures": [("clamped", "forall(lambda x: implies(a != old(b), result(x) == max(0, min(1, (x - a) / (old(b) - a)))), 'real')"),
                    ("within", "forall(lambda x: 0 <= result(x) <= 1, 'real')"),
                    ("degenerate_maps_to_start", "forall(lambda x: implies(a == old(b), result(x) == 0), 'real')")],
    },
    "scale.d3_interpolateNumber": {
        "props": ["C12"], "inline": True,
        "params": {"a": "real", "b": "real"},
        "ensures": [("convex", "forall(lambda t: result(t) == a * (1 - t) + b * t, 'real')"),
                    ("end0", "result(0) == a"), ("end1", "result(1) == b")],
    },
    "scale.d3_scale_bilinear": {
        "props": ["C12"], "inline": True,
        "params": {"domain": ["list", "real", "real"], "_range": ["list", "real", "real"]},
        "setup": lambda E, P, env: {"uninterpolate": E.global_name(P, "scale", "d3_uninterpolateNumber"),
                                    "interpolate": E.global_name(P, "scale", "d3_interpolate")},
        "ensures": [("affine", "forall(lambda x: implies(domain[0] != domain[1], result(x) == %s), 'real')"
                     % AFF.format(x="x", a="domain[0]", b="domain[1]", r0="_range[0]", r1="_range[1]")),
                    ("endpoint0", "implies(domain[0] != domain[1], result(domain[0]) == _range[0])"),
                    ("endpoint1", "implies(domain[0] != domain[1], result(domain[1]) == _range[1])"),
                    ("strictly_monotone", "forall(lambda x, y: implies(domain[0] < domain[1] and _range[0] < _range[1] and x < y, "
                                          "result(x) < result(y)), 'real', 'real')")],
    },
    "scale.d3_scaleExtent": {
        "props": ["C13", "C14", "C16"], "inline": True,
        "params": {"domain": ["list", "real", "real"]},
        "ensures": [("ordered", "result[0] <= result[1]"),
                    ("same_ends", "(result[0] == domain[0] and result[1] == domain[1]) or (result[0] == domain[1] and result[1] == domain[0])"),
                    ("fresh_list", "result is not domain")],
    },
}


def _add_linear_scale_contracts():
    C = CONTRACTS
    for clamp in (False, True):
        tag = "clamp" if clamp else "noclamp"

        def reg(method, spec, clamp=clamp, tag=tag):
            spec = dict(spec)
            spec.setdefault("props", ["C12"])
            spec["inline"] = True
            spec["func_alias"] = "scale.LinearScale.%s" % method
            spec["setup"] = setup_scale(clamp, two=True)
            spec["ensures"] = list(spec.get("ensures", [])) + unchanged_other(not clamp)
            C["scale.LinearScale.%s@%s" % (method, tag)] = spec

        # queries ------------------------------------------------------------------------------------------------
        reg("__call__", {"params": {"x": "real"}, "requires": ["sa != sb"],
                         "ensures": [("value", "result == " + (CLAMPED if clamp else AFF).format(x="x", a="sa", b="sb", r0="sr0", r1="sr1"))]
                         + ([("within_range", "min(sr0, sr1) <= result <= max(sr0, sr1)"),
                             ("equals_unclamped_inside", "implies(min(sa, sb) <= x <= max(sa, sb), result == %s)"
                              % AFF.format(x="x", a="sa", b="sb", r0="sr0", r1="sr1"))] if clamp else [])})
        reg("scale", {"params": {"x": "real"}, "requires": ["sa != sb"],
                      "ensures": [("value", "result == " + (CLAMPED if clamp else AFF).format(x="x", a="sa", b="sb", r0="sr0", r1="sr1"))]})
        reg("invert", {"params": {"y": "real"}, "requires": ["sa != sb", "sr0 != sr1"],
                       "ensures": ([("right_inverse", "self.scale(result) == y")] if not clamp else
                                   [("within_domain", "min(sa, sb) <= result <= max(sa, sb)")])})
        if not clamp:
            C["scale.LinearScale.__call__@roundtrip"] = {
                "props": ["C12"], "inline": True, "func_alias": "scale.LinearScale.__call__",
                "setup": setup_scale(False, two=False), "params": {"x": "real"}, "requires": ["sa != sb", "sr0 != sr1"],
                "ensures": [("left_inverse", "self.invert(result) == x"),
                            ("strictly_monotone", "forall(lambda z: implies(x < z, (self.scale(z) - result) * (sb - sa) * (sr1 - sr0) > 0), 'real')")]}
        # mutators: each must re-establish Inv-scale for the values it reports afterwards -----------------------------
        reg("rescale", {"params": {}, "ensures": inv_scale("self", clamp) + [("returns_self", "result is self")]})
        reg("domain", {"params": {"x": ["list", "real", "real"]},
                       "ensures": inv_scale("self", clamp) + [("reports", "self._domain[0] == x[0] and self._domain[1] == x[1]"),
                                                              ("own_list", "self._domain is not x"), ("returns_self", "result is self"),
                                                              ("range_kept", "self._range[0] == sr0 and self._range[1] == sr1")]})
        reg("range", {"params": {"x": ["list", "real", "real"]},
                      "ensures": inv_scale("self", clamp) + [("reports", "self._range[0] == x[0] and self._range[1] == x[1]"),
                                                             ("domain_kept", "self._domain[0] == sa and self._domain[1] == sb")]})
        # the range setter keeps the caller's list BY REFERENCE (the unchanged tree does): the scale does not own that list, so
        # no invariant over its contents can be assumed at entry.  State: the caller changed the shared list in place after
        # an earlier range(L) and passes the same L again -> the call itself must re-establish Inv-scale for the new contents.
        C["scale.LinearScale.range@%s_shared_list" % tag] = {
            "props": ["C12", "C15"], "inline": True, "func_alias": "scale.LinearScale.range",
            "setup": (lambda E, P, env, clamp=clamp: _shared_range(E, P, env, setup_scale(clamp, two=False))),
            "params": {"n0": "real", "n1": "real"},
            "replay": _REPLAY_SHARED % dict(cls="LinearScale", clamp="s.clamp(%s)" % clamp, dom='s.domain([m["s_a"], m["s_b"]])'),
            "ensures": inv_scale("self", clamp) + [("reports", "self._range[0] == n0 and self._range[1] == n1"),
                                                   ("maps_to_new_ends", "implies(sa != sb, self.scale(sa) == n0 and self.scale(sb) == n1)"),
                                                   ("domain_kept", "self._domain[0] == sa and self._domain[1] == sb")]}
        for newc in (False, True):
            C["scale.LinearScale.clamp@%s_to_%s" % (tag, "clamp" if newc else "noclamp")] = {
                "props": ["C12"], "inline": True, "func_alias": "scale.LinearScale.clamp",
                "setup": setup_scale(clamp, two=True), "params": {"x": "bool"}, "requires": ["x == %s" % newc],
                "ensures": inv_scale("self", newc) + [("reports", "self._clamp == %s" % newc)] + unchanged_other(not clamp)}
        reg("copy", {"params": {},
                     "ensures": inv_scale("result", clamp) + [
                         ("same_domain", "result._domain[0] == sa and result._domain[1] == sb"),
                         ("same_range", "result._range[0] == sr0 and result._range[1] == sr1"),
                         ("same_clamp", "result._clamp == self._clamp"),
                         ("own_domain_list", "result._domain is not self._domain"),
                         ("own_range_list", "result._range is not self._range"),
                         ("distinct_object", "result is not self"),
                         ("original_kept", "self._domain[0] == sa and self._domain[1] == sb and self._range[0] == sr0 and self._range[1] == sr1")]})


_add_linear_scale_contracts()
_attach_inv_epilogues()

SPECFUNS = {}
LEMMAS = {}


# ----------------------------------------------------------------------------------------------------------------
# C13 / C14: the tick step
# ----------------------------------------------------------------------------------------------------------------
def pow10_of(E, P, ctx, k):
    E.pow10_facts(E, P, k.t)
    return [(P, Num(E.pow10(E)(k.t), False))]


SPECFUNS["pow10"] = pow10_of

_TR_REQ = ["m >= 1", "m <= 100", "domain[0] != domain[1]"]
_LO = "min(old(domain[0]), old(domain[1]))"
_HI = "max(old(domain[0]), old(domain[1]))"
_SPAN = "(%s - %s)" % (_HI, _LO)

CONTRACTS["scale.d3_scale_linearTickRange"] = {
    "props": ["C13", "C14", "C16"], "inline": True,
    "params": {"domain": ["list", "real", "real"], "m": "int"},
    "requires": _TR_REQ,
    "ensures": [
        ("three", "len(result) == 3"),
        ("step_positive", "result[2] > 0"),
        # the statement's band: span / (m * step) lies in [0.571.., 1.43..)  <=>  0.7 * span < m * step <= 1.75 * span
        ("band_low", "m * result[2] > 0.7 * %s" % _SPAN),
        ("band_high", "m * result[2] <= 1.75 * %s" % _SPAN),
        # 1, 2 or 5 times a power of ten
        ("round_step", "exists(lambda k: result[2] == pow10(k) or result[2] == 2 * pow10(k) or result[2] == 5 * pow10(k))"),
        # start / stop bracket exactly the multiples of the step inside the domain (see lemma C13/lemma.multiples)
        ("start_in_domain", "result[0] >= %s and result[0] - result[2] < %s" % (_LO, _LO)),
        ("stop_after_last", "result[1] - result[2] * 0.5 <= %s and result[1] + result[2] * 0.5 > %s" % (_HI, _HI)),
        ("domain_untouched", "domain[0] == old(domain[0]) and domain[1] == old(domain[1])"),
    ],
}
CONTRACTS["scale.d3_scale_linearTickRange@default_m"] = {
    "props": ["C13", "C14"], "inline": True, "func_alias": "scale.d3_scale_linearTickRange",
    "params": {"domain": ["list", "real", "real"], "m": "none"},
    "requires": ["domain[0] != domain[1]"],
    "ensures": [("band_low", "10 * result[2] > 0.7 * %s" % _SPAN), ("band_high", "10 * result[2] <= 1.75 * %s" % _SPAN)],
}
CONTRACTS["scale.d3_scale_linearTickRange@degenerate"] = {
    "props": ["C11", "C13"], "inline": True, "func_alias": "scale.d3_scale_linearTickRange",
    "params": {"domain": ["list", "real", "real"], "m": "int"},
    "requires": ["m >= 1", "domain[0] == domain[1]"],
    "ensures": [("zero_step", "len(result) == 3 and result[2] == 0")],
}

_D0, _D1 = "old(domain[0])", "old(domain[1])"
CONTRACTS["scale.d3_scale_niceStep"] = {
    "props": ["C14"], "inline": True,
    "params": {"step": "real"}, "requires": ["step > 0"],
    "ensures": [("floor", "forall(lambda x: result['floor'](x) <= x and result['floor'](x) > x - step, 'real')"),
                ("ceil", "forall(lambda x: result['ceil'](x) >= x and result['ceil'](x) < x + step, 'real')")],
}
CONTRACTS["scale.d3_scale_nice"] = {
    "props": ["C14"], "inline": True,
    "params": {"domain": ["list", "real", "real"], "step": "real"}, "requires": ["step > 0"],
    "setup": lambda E, P, env: [(P.assume(env["step"].t > 0), (p, dict(env, nice=v)))[1] for (p, v) in
                               E.call(P, Ctx("scale", (E.new_frame(P),), False, "<setup>"),
                                      E.global_name(P, "scale", "d3_scale_niceStep"), [env["step"]], {})],
    "ensures": [("same_list", "result is domain"),
                ("outward_lo", "min(domain[0], domain[1]) <= min(%s, %s)" % (_D0, _D1)),
                ("outward_hi", "max(domain[0], domain[1]) >= max(%s, %s)" % (_D0, _D1)),
                ("less_than_a_step", "min(domain[0], domain[1]) > min(%s, %s) - step and max(domain[0], domain[1]) < max(%s, %s) + step"
                 % (_D0, _D1, _D0, _D1)),
                ("orientation", "implies(%s < %s, domain[0] < domain[1]) and implies(%s > %s, domain[0] > domain[1])" % (_D0, _D1, _D0, _D1))],
}
CONTRACTS["scale.d3_scale_linearNice"] = {
    "props": ["C14"], "inline": True,
    "params": {"domain": ["list", "real", "real"], "m": "int"},
    "requires": ["m >= 1", "m <= 100", "domain[0] != domain[1]"],
    "ensures": [("same_list", "result is domain"),
                ("never_inward_lo", "min(domain[0], domain[1]) <= min(%s, %s)" % (_D0, _D1)),
                ("never_inward_hi", "max(domain[0], domain[1]) >= max(%s, %s)" % (_D0, _D1)),
                ("orientation", "implies(%s < %s, domain[0] < domain[1]) and implies(%s > %s, domain[0] > domain[1])" % (_D0, _D1, _D0, _D1)),
                # NOT under contract (bounded only, driver c14): "each end moves by less than two tick steps of the resulting
                # domain" and "lands on a multiple of a tenth of the step" need three related evaluations of
                # 10**floor(log10 .); the direct VC did not terminate in z3 within 20 minutes (DESIGN section 6, C14).
                ],
}


# ----------------------------------------------------------------------------------------------------------------
# C15: the time scale (over the datetime theory A-DT: a datetime is an integer number of microseconds since the epoch)
# ----------------------------------------------------------------------------------------------------------------
CONTRACTS["scale.dt2milli"] = {
    "props": ["C15", "C16", "C18"], "inline": True,
    "params": {"x": "dt"},
    "ensures": [("elapsed_ms", "result * 1000 == us(x)"), ("float_ms", "not is_int(result)")],
}
CONTRACTS["scale.milli2dt"] = {
    "props": ["C15", "C16", "C18"], "inline": True,
    "params": {"x": "real"},
    "ensures": [("nearest_microsecond", "-1 <= 2 * (us(result) - x * 1000) <= 1")],
}
CONTRACTS["scale.milli2dt@roundtrip"] = {
    "props": ["C15"], "inline": True, "func_alias": "scale.milli2dt",
    "params": {"t": "dt"},
    "setup": lambda E, P, env: {"x": Num(z3.ToReal(env["t"].payload[0]) / 1000, False)},
    "ensures": [("inverse_of_dt2milli", "result == t")],
}


def new_time_scale(E, P, name, clamp=False):
    outs = []
    for (p, lin, g) in new_linear_scale(E, P, name, clamp):
        ts = p.new("obj", {"_linear": lin, "_methods": E.global_name(p, "scale", "d3_time_scaleLocalMethods"),
                           "_format": E.global_name(p, "scale", "mytimeformat")}, cls=("scale", "TimeScale"))
        outs.append((p, ts, g))
    return outs


def setup_time_scale(E, P, env):
    outs = []
    for (p, ts, g) in new_time_scale(E, P, "s"):
        e = dict(env)
        e.update({"self": ts, "sa": g["a"], "sb": g["b"], "sr0": g["r0"], "sr1": g["r1"]})
        outs.append((p, e))
    return outs


_MS = "(us(x) / 1000)"
CONTRACTS["scale.TimeScale.__call__"] = {
    "props": ["C15", "C18"], "inline": True, "setup": setup_time_scale,
    "params": {"x": "dt"}, "requires": ["sa != sb"],
    # "agrees with a linear scale applied to milliseconds since the epoch" and hence affine in elapsed time
    "ensures": [("linear_in_epoch_ms", "result == " + AFF.format(x=_MS, a="sa", b="sb", r0="sr0", r1="sr1")),
                ("same_as_linear_scale", "result == self._linear.scale(us(x) / 1000)")],
}
CONTRACTS["scale.TimeScale.__call__@proportional"] = {
    "props": ["C15"], "inline": True, "setup": setup_time_scale, "func_alias": "scale.TimeScale.__call__",
    "params": {"x": "dt", "y": "dt", "z": "dt"}, "requires": ["sa != sb", "sr0 != sr1"],
    # equal durations map to equal lengths; later instants map strictly farther along the range
    "ensures": [("equal_durations_equal_lengths",
                 "implies(us(y) - us(x) == us(z) - us(y), self._linear.scale(us(y) / 1000) - result == self._linear.scale(us(z) / 1000) - self._linear.scale(us(y) / 1000))"),
                ("strictly_monotone", "implies(us(x) < us(y), (self._linear.scale(us(y) / 1000) - result) * (sb - sa) * (sr1 - sr0) > 0)")],
}
CONTRACTS["scale.TimeScale.invert"] = {
    "props": ["C15"], "inline": True, "setup": setup_time_scale,
    "params": {"x": "real"}, "requires": ["sa != sb", "sr0 != sr1"],
    "ensures": [("nearest_microsecond_of_linear_inverse", "-1 <= 2 * (us(result) - self._linear.invert(x) * 1000) <= 1")],
}
CONTRACTS["scale.TimeScale.invert@roundtrip"] = {
    "props": ["C15"], "inline": True, "func_alias": "scale.TimeScale.invert",
    "params": {"t": "dt"}, "requires": ["sa != sb", "sr0 != sr1"],
    "setup": lambda E, P, env: _setup_roundtrip(E, P, env),
    "ensures": [("invert_of_scale_is_identity", "result == t")],
}
CONTRACTS["scale.TimeScale.domain@set"] = {
    "props": ["C15"], "inline": True, "setup": setup_time_scale, "func_alias": "scale.TimeScale.domain",
    "params": {"x": ["list", "dt", "dt"]},
    "ensures": [("maps_domain_instants_to_range_ends", "implies(us(x[0]) != us(x[1]), self._linear.scale(us(x[0]) / 1000) == sr0 and self._linear.scale(us(x[1]) / 1000) == sr1)"),
                # ... and the inverse map follows the new domain as well (also on a scale that has inverted values before)
                ("inverts_range_ends_to_new_domain_instants", "implies(us(x[0]) != us(x[1]) and sr0 != sr1, _i0 == us(x[0]) / 1000 and _i1 == us(x[1]) / 1000)"),
                ("returns_self", "result is self")],
    "epilogue": "_i0 = self._linear.invert(sr0)\n_i1 = self._linear.invert(sr1)\n",
}
CONTRACTS["scale.TimeScale.range@set"] = {
    "props": ["C15"], "inline": True, "setup": setup_time_scale, "func_alias": "scale.TimeScale.range",
    "params": {"x": ["list", "real", "real"]},
    "ensures": [("maps_domain_instants_to_new_range_ends", "implies(sa != sb, self._linear.scale(sa) == x[0] and self._linear.scale(sb) == x[1])"),
                ("reports", "self._linear._range[0] == x[0] and self._linear._range[1] == x[1]"), ("returns_self", "result is self")],
}
CONTRACTS["scale.TimeScale.range@set_shared_list"] = {
    "props": ["C15"], "inline": True, "func_alias": "scale.TimeScale.range",
    "setup": lambda E, P, env: _shared_range(E, P, env, setup_time_scale, lambda p, s: p.get(s)["_linear"]),
    "params": {"n0": "real", "n1": "real"},
    "replay": _REPLAY_SHARED % dict(cls="TimeScale", clamp="",
                                    dom='s.domain([datetime.datetime(1970, 1, 1) + datetime.timedelta(milliseconds=m["s_a"]), '
                                        'datetime.datetime(1970, 1, 1) + datetime.timedelta(milliseconds=m["s_b"])])'),
    # the range list is shared with the caller (kept by reference): a call with the same, changed list still takes effect
    "ensures": [("maps_domain_instants_to_new_range_ends", "implies(sa != sb, self._linear.scale(sa) == n0 and self._linear.scale(sb) == n1)"),
                ("returns_self", "result is self")],
}
CONTRACTS["scale.TimeScale.domain@get"] = {
    "props": ["C15"], "inline": True, "func_alias": "scale.TimeScale.domain",
    "params": {"t0": "dt", "t1": "dt", "x": "none"},
    "setup": lambda E, P, env: [(_set_ms_domain(E, p, e), (p, e))[1] for (p, e) in setup_time_scale(E, P, env)],
    "ensures": [("reports_the_instants_it_was_given", "result[0] == t0 and result[1] == t1")],
}


def _set_ms_domain(E, P, e):
    """the linear domain holds the epoch milliseconds of two instants (the state domain(x) leaves behind)"""
    P.assume(e["sa"].t * 1000 == z3.ToReal(e["t0"].payload[0]))
    P.assume(e["sb"].t * 1000 == z3.ToReal(e["t1"].payload[0]))


def _setup_roundtrip(E, P, env):
    """x := scale(t), computed by the real closure of the scale under test"""
    outs = []
    for (p, e) in setup_time_scale(E, P, env):
        out = p.get(p.get(e["self"])["_linear"])["_output"]
        ms = Num(z3.ToReal(e["t"].payload[0]) / 1000, False)
        for (q, v) in E.call(p, Ctx("scale", (E.new_frame(p),), True, "<setup>"), out, [ms], {}):
            outs.append((q, dict(e, x=v)))
    return outs


# ----------------------------------------------------------------------------------------------------------------
# C16: pieces of the tick-method choice
# ----------------------------------------------------------------------------------------------------------------
CONTRACTS["scale.d3_bisect"] = {
    "props": ["C16", "C14"], "heap": True,
    "params": {"a": "slist:real", "x": "real", "lo": "int", "hi": "none"},
    "requires": ["lo == 0", "len(a) < 2147483647",
                 "forall(lambda i, j: implies(0 <= i <= j < len(a), a[i] <= a[j]))"],
    "modifies": [], "returns": "int",
    "loops": {0: {"locals": {"lo": "int", "hi": "int", "mid": "int"},
                  "inv": [("bounds", "0 <= lo <= hi <= len(a)"),
                          ("left_not_greater", "forall(lambda i: implies(0 <= i < lo, a[i] <= x))"),
                          ("right_greater", "forall(lambda i: implies(hi <= i < len(a), a[i] > x))")],
                  "dec": "hi - lo"}},
    # bisect-right in an ascending list: the insertion point after every element <= x
    "ensures": [("in_range", "0 <= result <= len(a)"),
                ("left_not_greater", "forall(lambda i: implies(0 <= i < result, a[i] <= x))"),
                ("right_greater", "forall(lambda i: implies(result <= i < len(a), a[i] > x))")],
}


# ---- C16: the choice of the tick method -----------------------------------------------------------------------------------
_STEPS = [1e3, 5e3, 15e3, 3e4, 6e4, 3e5, 9e5, 18e5, 36e5, 108e5, 216e5, 432e5, 864e5, 1728e5, 6048e5, 2592e6, 7776e6, 31536e6]


def _setup_tickmethod(E, P, env):
    outs = []
    for (p, ts, g) in new_time_scale(E, P, "s"):
        e = dict(env)
        e["self"] = ts
        outs.append((p, e))
    return outs[:1]     # tickMethod does not read the linear part: one representative state


CONTRACTS["scale.TimeScale.tickMethod"] = {
    "props": ["C16", "C14"], "inline": True, "setup": _setup_tickmethod,
    "params": {"extent": ["list", "real", "real"], "count": "int"},
    # a domain of at least one second per requested tick and at most a year per tick: one of the 18 calendar rows is chosen
    "requires": ["2 <= count <= 50", "extent[0] < extent[1]", "(extent[1] - extent[0]) / count >= 1000",
                 "(extent[1] - extent[0]) / count < 31536000000"],
    # the chosen row's nominal spacing is within a factor sqrt(5) < 2.4 of the requested spacing (neighbouring rows differ
    # by at most a factor 5; the closer one in ratio is taken) and the skip is a positive integer
    "ensures": [("listed_row_within_ratio",
                 "any([result is self._methods[j] and (extent[1] - extent[0]) / count <= 2.4 * %r[j] and %r[j] <= 2.4 * ((extent[1] - extent[0]) / count) "
                 "for j in range(18)])" % (_STEPS, _STEPS)),
                ("positive_integer_skip", "is_int(result[1]) and result[1] >= 1")],
}
CONTRACTS["scale.TimeScale.tickMethod@subsecond"] = {
    "props": ["C16"], "inline": True, "setup": _setup_tickmethod, "func_alias": "scale.TimeScale.tickMethod",
    "params": {"extent": ["list", "real", "real"], "count": "int"},
    "requires": ["2 <= count <= 50", "extent[0] < extent[1]", "(extent[1] - extent[0]) / count < 1000"],
    # below one second per tick: linear millisecond ticks with the step of C13's tick rule
    "ensures": [("millisecond_ticks", "result[1] > 0 and count * result[1] > 0.7 * (extent[1] - extent[0]) and count * result[1] <= 1.75 * (extent[1] - extent[0])")],
}


# ---------------------------------------------------------------------------------------------------------------------
# C13: the tick generator.  drange is a generator: under A-GEN its result is the list of the values it yields.
# ap(start, step, k) = start + k * step is kept UNINTERPRETED in code obligations (the product of the integer index and the
# real step would make every loop obligation non-linear); its unfolding is instantiated at the ground indices that occur,
# and the closed form is the T3 lemma C13/lemma.ap below.
# ---------------------------------------------------------------------------------------------------------------------
def _ap(E, P, ctx, start, step, k):
    f = E.uf.get("AP")
    if f is None:
        f = E.uf["AP"] = z3.Function("AP", z3.RealSort(), z3.RealSort(), z3.IntSort(), z3.RealSort())
    s, d, kt = start.real(), step.real(), k.t
    if not getattr(E, "quant_depth", 0):
        P.assume(f(s, d, z3.IntVal(0)) == s)
        P.assume(f(s, d, kt + 1) == f(s, d, kt) + d)
        P.assume(z3.Implies(kt > 0, f(s, d, kt) == f(s, d, kt - 1) + d))
    return [(P, Num(f(s, d, kt), False))]


SPECFUNS["ap"] = _ap

_LISTR = ["list.len.real", "list.elems.real"]
CONTRACTS["scale.drange"] = {
    "props": ["C13"], "heap": True, "yields": "real",
    "params": {"start": "real", "stop": "real", "step": "real"}, "requires": ["step > 0"],
    "modifies": _LISTR, "allocates": ["list"], "returns": "slist:real",
    # keyed by ordinal, not by header text: the loop TEST is the semantics here (a changed test must meet this invariant)
    "loops": {0: {
        "modifies": _LISTR, "locals": {"r": "real"},
        "inv": [("list", "yielded is not None and len(yielded) >= 0"),
                ("accumulated", "r == ap(start, step, len(yielded))"),
                ("elements", "forall(lambda k: implies(0 <= k < len(yielded), yielded[k] == ap(start, step, k) and yielded[k] < stop))")]}},
    # (termination is not proved: the variant stop - r is real-valued)
    "ensures": [("arithmetic_progression", "forall(lambda k: implies(0 <= k < len(result), result[k] == ap(start, step, k)))"),
                ("below_stop", "forall(lambda k: implies(0 <= k < len(result), result[k] < stop))"),
                # no value of the progression below stop is missing: the next one is not below stop
                ("complete", "ap(start, step, len(result)) >= stop"),
                ("first_is_start", "implies(len(result) > 0, result[0] == start)")],
}


def _lemma_ap():
    """closed form of the accumulated progression (induction step and base), and what it gives for ticks:
    consecutive ticks differ by the step, ticks increase, and with start = q0*step, stop = q1*step + step/2 every tick is
    a multiple of the step that does not exceed q1*step (<= the upper end of the domain)."""
    AP = z3.Function("AP", z3.RealSort(), z3.RealSort(), z3.IntSort(), z3.RealSort())
    s, d = z3.Reals("s d")
    k, q0, q1 = z3.Ints("k q0 q1")
    return [
        ("base", z3.ForAll([s, d], z3.Implies(AP(s, d, 0) == s, AP(s, d, 0) == s + 0 * d))),
        ("step", z3.ForAll([s, d, k], z3.Implies(z3.And(k >= 0, AP(s, d, k) == s + z3.ToReal(k) * d, AP(s, d, k + 1) == AP(s, d, k) + d),
                                                 AP(s, d, k + 1) == s + z3.ToReal(k + 1) * d))),
        ("increasing", z3.ForAll([s, d, k], z3.Implies(z3.And(d > 0, k >= 0), s + z3.ToReal(k) * d < s + z3.ToReal(k + 1) * d))),
        ("multiples_not_beyond_the_last_one",
         z3.ForAll([d, k, q0, q1], z3.Implies(z3.And(d > 0, z3.ToReal(q0) * d + z3.ToReal(k) * d < z3.ToReal(q1) * d + d / 2),
                                              z3.And(z3.ToReal(q0) * d + z3.ToReal(k) * d == z3.ToReal(q0 + k) * d,
                                                     z3.ToReal(q0 + k) * d <= z3.ToReal(q1) * d)))),
    ]


LEMMAS["C13/lemma.ap"] = {"props": ["C13"], "build": _lemma_ap,
                          "text": "accumulating the step k times from start gives start + k*step; multiples of the step below "
                                  "floor(hi/step)*step + step/2 do not exceed floor(hi/step)*step"}


def _ghost_drange_args(E, P, ctx, args):
    """names the three numbers handed to the generator: t_start, t_stop, t_step (ghost; no program value depends on them)"""
    for nm, v in zip(("t_start", "t_stop", "t_step"), args):
        E.assign_name(P, ctx, nm, v, ())


CONTRACTS["scale.d3_scale_linearTicks"] = {
    "props": ["C13"], "heap": True,
    "params": {"domain": ["list", "real", "real"], "m": "int"},
    "requires": _TR_REQ,
    "modifies": _LISTR, "allocates": ["list"],
    "ghost": {"before_call:scale.drange": _ghost_drange_args},
    "ensures": [
        # the generator is started with the tick range of THIS domain and count (clauses of d3_scale_linearTickRange) ...
        ("step_positive", "t_step > 0"),
        ("band", "m * t_step > 0.7 * %s and m * t_step <= 1.75 * %s" % (_SPAN, _SPAN)),
        ("start_is_first_multiple_inside", "t_start >= %s and t_start - t_step < %s" % (_LO, _LO)),
        ("stop_is_half_a_step_after_the_last_multiple_inside", "t_stop - t_step * 0.5 <= %s and t_stop + t_step * 0.5 > %s" % (_HI, _HI)),
        # ... and the ticks are exactly that progression below the stop (drange's contract)
        ("ticks_are_the_progression", "forall(lambda k: implies(0 <= k < len(result), result[k] == ap(t_start, t_step, k)))"),
        ("ticks_below_stop", "forall(lambda k: implies(0 <= k < len(result), result[k] < t_stop))"),
        ("none_missing", "ap(t_start, t_step, len(result)) >= t_stop"),
        ("first_tick_inside", "implies(len(result) > 0, result[0] >= %s)" % _LO),
        ("domain_untouched", "domain[0] == old(domain[0]) and domain[1] == old(domain[1])"),
    ],
}


# ---------------------------------------------------------------------------------------------------------------------
# C16: TimeScale.ticks(count) for calendar spacings (one second .. one year per tick).  Everything is inlined (domain(),
# d3_scaleExtent, dt2milli / milli2dt, the real tickMethod - which picks a concrete row of the real table on each path)
# except the enumeration itself: interval.range(..) is summarised by contracts/d3time.RANGE_SUMMARY, i.e. by the clauses
# that the range@<unit>_* contracts prove.  The scale's domain holds two ms-resolution instants (setup below).
# ---------------------------------------------------------------------------------------------------------------------
from contracts.d3time import RANGE_SUMMARY  # noqa: E402


def _setup_ticks(E, P, env):
    outs = []
    for (p, e) in setup_time_scale(E, P, env):
        _set_ms_domain(E, p, e)                        # domain = [t0, t1] in epoch milliseconds
        for t in (e["t0"], e["t1"]):
            p.assume(t.payload[0] % 1000 == 0)         # ms resolution (the quantifier of C16)
        outs.append((p, e))
    return outs


_TLO, _THI = "min(us(t0), us(t1))", "max(us(t0), us(t1))"


def _ticks_req(n):
    # calendar spacings: at least one second and less than one year per requested tick
    return ["(%s - %s) >= %d" % (_THI, _TLO, 1000 * 1000 * n), "(%s - %s) < %d" % (_THI, _TLO, 31536000000 * 1000 * n)]


CONTRACTS["scale.TimeScale.ticks"] = {
    "props": ["C16"], "heap": True, "setup": _setup_ticks,
    "params": {"t0": "dt", "t1": "dt", "skip": "none"},
    # the requested count is CONCRETE per case (None = the default 10): with a symbolic count the branch conditions of the
    # row choice are non-linear (span / count) and infeasible rows could not be pruned
    "cases": [{"params": {"interval": "none"}, "requires": _ticks_req(10)}] +
             [{"params": {"interval": (lambda E, P, name, n=n: I(n))}, "requires": _ticks_req(n)} for n in (2, 5, 7, 17, 50)],
    # thorough tier only (138 paths per count, ~40 s each): the default count and 5
    "thorough_tier_only": True, "quick_cases": [0, 2], "thorough_cases": [0, 2],
    "requires": ["in_range_us(t0)", "in_range_us(t1)", "us(t0) != us(t1)", "%s + 1000 < %d" % (_THI, 84371 * 86400 * 10 ** 6)],
    "modifies": ["list.len.dt", "list.elems.dt", "list.$pos.dt"], "allocates": ["list"],
    "callee_contracts": RANGE_SUMMARY,
    "ensures": [
        ("inside_the_domain", "forall(lambda k: implies(0 <= k < len(result), %s <= us(result[k]) <= %s))" % (_TLO, _THI)),
        ("strictly_increasing", "forall(lambda k: implies(1 <= k < len(result), us(result[k - 1]) < us(result[k])))"),
        # whatever row is chosen, a tick is at least a whole second
        ("on_whole_seconds", "forall(lambda k: implies(0 <= k < len(result), us(result[k]) % 1000000 == 0))"),
    ],
}


# ---------------------------------------------------------------------------------------------------------------------
# C14 (time part): TimeScale.nice(interval) for a GIVEN calendar interval object (the branch with skip <= 1).  Which
# interval a tick count leads to is tickMethod's contract; floor / ceil of the interval object are summarised by
# contracts/d3time.FLOOR_CEIL_SUMMARY (the clauses proved per unit).  Not under contract: the skip > 1 branch
# (time_nice_floor / time_nice_ceil loop until a non-skipped boundary is found).
# ---------------------------------------------------------------------------------------------------------------------
from contracts.d3time import FLOOR_CEIL_SUMMARY, interval_setup  # noqa: E402


def _setup_nice(unit):
    def setup(E, P, env):
        outs = []
        for (p, e) in _setup_ticks(E, P, env):
            tab = p.get(E.global_name(p, "d3_time", "d3_time"))
            outs.append((p, dict(e, interval=tab[unit])))
        return outs
    return setup


_NLO, _NHI = "min(us(self.domain()[0]), us(self.domain()[1]))", "max(us(self.domain()[0]), us(self.domain()[1]))"
for _unit in ("second", "minute", "hour", "day", "week", "month", "year"):
    CONTRACTS["scale.TimeScale.nice@%s" % _unit] = {
        "props": ["C14"], "heap": True, "func_alias": "scale.TimeScale.nice", "setup": _setup_nice(_unit),
        "params": {"t0": "dt", "t1": "dt", "skip": (lambda E, P, name: I(0))},
        "requires": ["in_range_years(t0)", "in_range_years(t1)", "us(t0) != us(t1)"],
        "modifies": [], "callee_contracts": FLOOR_CEIL_SUMMARY,
        "ensures": [
            ("never_inward", "%s <= %s and %s >= %s" % (_NLO, _TLO, _NHI, _THI)),
            ("orientation_kept", "implies(us(t0) < us(t1), us(self.domain()[0]) < us(self.domain()[1])) and "
                                 "implies(us(t0) > us(t1), us(self.domain()[0]) > us(self.domain()[1]))"),
            # each end moves outward by less than one period of the interval (hence less than two tick steps)
            ("less_than_one_period", "%s - %s < unit_len_at(interval, min(t0, t1)) and %s - %s < unit_len_at(interval, max(t0, t1))"
             % (_TLO, _NLO, _NHI, _THI)),
            # ... and lands on a boundary of the interval (aligned to the calendar as coarsely as the ticks)
            ("aligned", "unit_boundary(interval, self.domain()[0]) and unit_boundary(interval, self.domain()[1])"),
            ("returns_self", "result is self"),
        ],
    }
