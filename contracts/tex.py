"""Sidecar contracts for labella/tex.py (C19, C11).

uni2tex is driven by the Unicode character database; the contracts abstract it (assumption A-UNI, pyvc/models_uni.py): the
decomposition and the category of a character are uninterpreted functions of its code point with the shape CPython guarantees
(fields that are not a tag are code points in hexadecimal; ASCII has no decomposition and is not a mark).  What is proved
holds for every table of that shape.

  uni2tex@total       text of ANY length (a sequence of symbolic code points), the accumulated output abstract:
                      the conversion never raises - every index is in range, every accent-table lookup has its key, every
                      int(.., 16) / chr(..) succeeds.  (C19 "succeeds for every Unicode string", C11)
  uni2tex@len1..3     texts of 1, 2 and 3 symbolic code points, the loop unrolled (a loop-free harness over the full domain of
                      code points): the output is exactly what the statement allows - each character either passes through
                      unchanged or, if it is a base character followed by a combining mark of the table / a precomposed
                      character with a canonical two-part decomposition into a non-mark base and a mark of the table, becomes
                      the TeX accent command applied to THAT base character; ASCII-only text is returned unchanged.
Not under contract: arbitrary length for the functional clauses, the round trip through canonical equivalence (bounded: c19).
"""
TYPES = {}
SPECFUNS = {}
LEMMAS = {}

_ACC = {0x0300: "`", 0x0301: "'", 0x0302: "^", 0x0308: '"', 0x030B: "H", 0x0303: "~", 0x0327: "c", 0x0328: "k", 0x0304: "=",
        0x0331: "b", 0x0307: ".", 0x0323: "d", 0x030A: "r", 0x0306: "u", 0x030C: "v"}

CONTRACTS = {
    "tex.uni2tex@total": {
        "props": ["C19", "C11"], "heap": True, "func_alias": "tex.uni2tex",
        "params": {"text": "slist:char"},
        "requires": ["forall(lambda j: implies(0 <= j < len(text), 0 <= ord(text[j]) < 1114112))"],
        "modifies": [],
        # the loop TEST is part of the semantics: keyed by ordinal
        "loops": {0: {"locals": {"i": "int", "out": "astr"},
                      "inv": [("index_in_range", "0 <= i <= len(txt)")]}},
        "ensures": [],
    },
}


# ---------------------------------------------------------------------------------------------------- spec vocabulary
import z3
from pyvc.values import Num, Bool, Str, Unsupported, SpecError


def _code(s):
    cs = s.chars() if isinstance(s, Str) else None
    if cs is None or len(cs) != 1:
        raise SpecError("a single character is expected, got %r" % (s,))
    return z3.IntVal(ord(cs[0])) if isinstance(cs[0], str) else cs[0]


def _is_accent_t(n):
    return z3.Or(*[n == k for k in _ACC])


def _letter_t(n):
    t = z3.IntVal(-1)
    for k, v in _ACC.items():
        t = z3.If(n == k, z3.IntVal(ord(v)), t)
    return t


def _precomposed_t(E, c):
    f = E.uni_funcs
    d0, d1 = f["DEC"](c, z3.IntVal(0)), f["DEC"](c, z3.IntVal(1))
    return z3.And(f["DEC_N"](c) == 2, z3.Not(f["DEC_TAG"](c)), _is_accent_t(d1), z3.Not(f["CAT_M"](d0)))


def sf_is_accent(E, P, ctx, n):
    """the code point is one of the 15 combining marks of the accent table"""
    return [(P, Bool(_is_accent_t(n.t)))]


def sf_is_mark(E, P, ctx, ch):
    c = _code(ch)
    E.uni_facts(P, c)
    return [(P, Bool(E.uni_funcs["CAT_M"](c)))]


def sf_precomposed(E, P, ctx, ch):
    """canonical two-field decomposition into a non-mark base and a mark of the table (the statement's 'precomposed')"""
    c = _code(ch)
    E.uni_facts(P, c)
    return [(P, Bool(_precomposed_t(E, c)))]


def sf_dec(E, P, ctx, ch, k):
    c = _code(ch)
    E.uni_facts(P, c)
    return [(P, Num(E.uni_funcs["DEC"](c, k.t), True))]


def sf_tex_accent_at(E, P, ctx, s, pos, mark, base):
    """s[pos:pos+5] is the TeX accent command  \\<letter of mark>{<base>}  (mark, base: code points)"""
    cs = s.chars() if isinstance(s, Str) else None
    p = E.cint(pos)
    if cs is None or p is None:
        raise SpecError("tex_accent_at needs a string of known length and a constant position")
    if len(cs) < p + 5:
        return [(P, Bool(z3.BoolVal(False)))]

    def t(x):
        return z3.IntVal(ord(x)) if isinstance(x, str) else x
    return [(P, Bool(z3.And(t(cs[p]) == ord("\\"), t(cs[p + 1]) == _letter_t(mark.t), t(cs[p + 2]) == ord("{"),
                            t(cs[p + 3]) == base.t, t(cs[p + 4]) == ord("}"))))]


def sf_char_at(E, P, ctx, s, pos, ch):
    """s[pos] == ch, False when s is shorter (total: no index obligation inside a contract clause)"""
    cs = s.chars() if isinstance(s, Str) else None
    p = E.cint(pos)
    if cs is None or p is None:
        raise SpecError("char_at needs a string of known length and a constant position")
    if len(cs) <= p:
        return [(P, Bool(z3.BoolVal(False)))]
    x = cs[p]
    return [(P, Bool((z3.IntVal(ord(x)) if isinstance(x, str) else x) == _code(ch)))]


SPECFUNS.update({"char_at": sf_char_at, "is_accent": sf_is_accent, "is_mark": sf_is_mark, "precomposed": sf_precomposed, "udec": sf_dec,
                 "tex_accent_at": sf_tex_accent_at})

_VALID = "0 <= ord(text[%d]) < 1114112"
_PRE = "precomposed(text[%d])"
_ACC_CMD = "tex_accent_at(result, %d, udec(text[%d], 1), udec(text[%d], 0))"

CONTRACTS["tex.uni2tex@len1"] = {
    "props": ["C19"], "inline": True, "func_alias": "tex.uni2tex",
    "params": {"text": "str:1"}, "requires": [_VALID % 0],
    "ensures": [
        ("precomposed_becomes_accent_on_its_base", "implies(%s, len(result) == 5 and %s)" % (_PRE % 0, _ACC_CMD % (0, 0, 0))),
        ("everything_else_unchanged", "implies(not %s, result == text)" % (_PRE % 0)),
        ("ascii_untouched", "implies(ord(text[0]) < 128, result == text)"),
    ],
}
_COMB = "(is_accent(ord(text[1])) and not is_mark(text[0]))"
CONTRACTS["tex.uni2tex@len2"] = {
    "props": ["C19"], "inline": True, "func_alias": "tex.uni2tex",
    "params": {"text": "str:2"}, "requires": [_VALID % 0, _VALID % 1],
    "ensures": [
        # a base character followed by a combining mark of the table: ONE accent command on that same base character
        ("base_plus_mark", "implies(%s, len(result) == 5 and tex_accent_at(result, 0, ord(text[1]), ord(text[0])))" % _COMB),
        # otherwise each character on its own: precomposed -> accent command on its base, anything else unchanged
        ("neither", "implies(not %s and not %s and not %s, result == text)" % (_COMB, _PRE % 0, _PRE % 1)),
        ("first_only", "implies(not %s and %s and not %s, len(result) == 6 and %s and char_at(result, 5, text[1]))"
         % (_COMB, _PRE % 0, _PRE % 1, _ACC_CMD % (0, 0, 0))),
        ("second_only", "implies(not %s and not %s and %s, len(result) == 6 and char_at(result, 0, text[0]) and %s)"
         % (_COMB, _PRE % 0, _PRE % 1, _ACC_CMD % (1, 1, 1))),
        ("both", "implies(not %s and %s and %s, len(result) == 10 and %s and %s)"
         % (_COMB, _PRE % 0, _PRE % 1, _ACC_CMD % (0, 0, 0), _ACC_CMD % (5, 1, 1))),
        ("ascii_untouched", "implies(ord(text[0]) < 128 and ord(text[1]) < 128, result == text)"),
    ],
}
CONTRACTS["tex.uni2tex@len3"] = {
    "props": ["C19"], "inline": True, "func_alias": "tex.uni2tex",
    "params": {"text": "str:3"}, "requires": [_VALID % 0, _VALID % 1, _VALID % 2],
    "thorough_tier_only": True,       # 530 paths, ~4900 obligations, ~30 s: thorough tier only
    "ensures": [
        ("ascii_untouched", "implies(ord(text[0]) < 128 and ord(text[1]) < 128 and ord(text[2]) < 128, result == text)"),
        # a mark is consumed by the character before it, never applied to the character after it (D11)
        ("mark_in_the_middle_goes_to_the_first", "implies(%s and not %s, len(result) == 6 and tex_accent_at(result, 0, ord(text[1]), ord(text[0])) "
                                                 "and char_at(result, 5, text[2]))" % (_COMB, _PRE % 2)),
        ("mark_at_the_end_goes_to_the_second", "implies(not %s and not %s and is_accent(ord(text[2])) and not is_mark(text[1]), "
                                               "len(result) == 6 and char_at(result, 0, text[0]) and tex_accent_at(result, 1, ord(text[2]), ord(text[1])))"
         % (_COMB, _PRE % 0)),
        ("length_only_grows_by_accent_commands", "len(result) == 3 or len(result) == 6 or len(result) == 7 or len(result) == 10 "
                                                 "or len(result) == 11 or len(result) == 15"),
    ],
}
