"""Sidecar contracts for labella/renderer.py and the geometry helpers of timeline.py (C07, C08, C09)."""
import z3

from pyvc.values import Str, Num, R, I, Bool

TYPES = {}

DIRECTIONS = ["up", "down", "left", "right"]


def renderer_obj(direction):
    return {"$obj": ("renderer", "Renderer"),
            "fields": {"options": {"$dict": {"layerGap": "real", "nodeHeight": "real",
                                             "direction": lambda E, P, name: Str([direction])}}}}


POS = "(nodes[j].layerIndex * (self.options['layerGap'] + self.options['nodeHeight']) + self.options['layerGap'])"
LAYOUT_POST = {
    "up": [("x", "nodes[j].x == nodes[j].currentPos"), ("y", "nodes[j].y == -%s - self.options['nodeHeight']" % POS),
           ("dx", "nodes[j].dx == nodes[j].width"), ("dy", "nodes[j].dy == self.options['nodeHeight']")],
    "down": [("x", "nodes[j].x == nodes[j].currentPos"), ("y", "nodes[j].y == %s" % POS),
             ("dx", "nodes[j].dx == nodes[j].width"), ("dy", "nodes[j].dy == self.options['nodeHeight']")],
    "left": [("x", "nodes[j].x == -%s - self.options['nodeHeight']" % POS), ("y", "nodes[j].y == nodes[j].currentPos"),
             ("dx", "nodes[j].dx == self.options['nodeHeight']"), ("dy", "nodes[j].dy == nodes[j].width")],
    "right": [("x", "nodes[j].x == %s" % POS), ("y", "nodes[j].y == nodes[j].currentPos"),
              ("dx", "nodes[j].dx == self.options['nodeHeight']"), ("dy", "nodes[j].dy == nodes[j].width")],
}
_XY = ["Node.x", "Node.x$set", "Node.y", "Node.y$set", "Node.dx", "Node.dx$set", "Node.dy", "Node.dy$set"]

CONTRACTS = {}
_LOOP = {"left": 0, "right": 1, "up": 2, "down": 3}
for _d in DIRECTIONS:
    _all = " and ".join(e for _, e in LAYOUT_POST[_d])
    CONTRACTS["renderer.Renderer.layout@%s" % _d] = {
        "props": ["C07", "C08", "C09"], "heap": True, "inline": True, "func_alias": "renderer.Renderer.layout",
        "params": {"self": renderer_obj(_d), "nodes": "slist:ref:Node"},
        "requires": ["forall(lambda j: implies(0 <= j < len(nodes), nodes[j] is not None))"],
        "modifies": _XY,
        # the same loop is written once per direction, in the source order left, right, up, down (static loop ordinals)
        "loops": {_LOOP[_d]: {"modifies": _XY, "locals": {"pos": "real", "node": "ref:Node"},
                              "inv": [("prefix_laid_out", "forall(lambda j: implies(0 <= j < _k%d, %s))" % (_LOOP[_d], _all))]}},
        "ensures": [("every_node_laid_out." + n, "forall(lambda j: implies(0 <= j < len(nodes), %s))" % e)
                    for n, e in LAYOUT_POST[_d]] + [("returns_nodes", "result is nodes")],
    }

# timeline.Timeline.nodePos(d, nodeHeight): origin of the label box (before the %i truncation of the emitters)
NODEPOS_POST = {
    "right": ("d.x", "d.y - d.dy / 2"),
    "left": ("d.x - d.w + d.dx", "d.y - d.dy / 2"),
    "up": ("d.x - d.dx / 2", "d.y"),
    "down": ("d.x - d.dx / 2", "d.y"),
}
for _d in DIRECTIONS:
    CONTRACTS["timeline.Timeline.nodePos@%s" % _d] = {
        "props": ["C07", "C08", "C09"], "heap": True, "inline": True, "func_alias": "timeline.Timeline.nodePos",
        "params": {"self": {"$obj": ("timeline", "Timeline"), "fields": {"direction": lambda E, P, name, _d=_d: Str([_d])}},
                   "d": "ref:Node", "nodeHeight": "real"},
        "requires": ["d.x is not None"],
        "setup": lambda E, P, env: [(_set_flags(E, P, env["d"]), (P, env))[1]],
        "modifies": [],
        "ensures": [("origin_x", "result[0] == %s" % NODEPOS_POST[_d][0]), ("origin_y", "result[1] == %s" % NODEPOS_POST[_d][1])],
    }


def _set_flags(E, P, d):
    """the node has been laid out: x, y, dx, dy are set (the emitters call nodePos only after Renderer.layout)"""
    for f in ("x", "y", "dx", "dy"):
        flag = E.heap_array(P, "Node.%s$set" % f, z3.BoolSort())
        P.assume(z3.Select(flag, d.t))


# ------------------------------------------------------------------------------------------------------ C08 lemma (T3)
def _trunc(x):
    return z3.If(x >= 0, z3.ToInt(x), -z3.ToInt(-x))


def _lemma_boxes():
    """From (i) C01's separation in the rounded positions, (ii) Renderer.layout's and nodePos's postconditions above,
    (iii) the '%i' truncation of the printed origin and (iv) box thickness <= nodeHeight:
    same-layer boxes are disjoint along the axis, every box is >= layerGap - 1 from the axis on the named side, and a
    farther layer lies wholly beyond a nearer one.  Stated for 'up'/'down'/'left'/'right' through the across-axis sign."""
    goals = []
    ca, cb = z3.Ints("ca cb")                      # rounded positions (currentPos) of two items of one layer
    wa, wb, s, gap, nh, ha, hb = z3.Reals("wa wb s gap nh ha hb")
    La, Lb = z3.Ints("La Lb")
    hyp = z3.And(wa > 0, wb > 0, s >= 3, gap >= 1, nh > 0, ha > 0, ha <= nh, hb > 0, hb <= nh, La >= 0, Lb >= 0)
    sep = z3.ToReal(cb) - z3.ToReal(ca) >= (wa + wb) / 2 + s - 1          # C01
    # along the axis the printed origin is trunc(currentPos - width/2) and the extent is the width
    oa, ob = _trunc(z3.ToReal(ca) - wa / 2), _trunc(z3.ToReal(cb) - wb / 2)
    goals.append(("same_layer_disjoint_along_axis",
                  z3.ForAll([ca, cb, wa, wb, s], z3.Implies(z3.And(hyp, sep), z3.ToReal(oa) + wa <= z3.ToReal(ob)))))
    posa = z3.ToReal(La) * (gap + nh) + gap
    posb = z3.ToReal(Lb) * (gap + nh) + gap
    # across the axis, far side negative ('up', 'left'): origin trunc(-pos - nh), extent h <= nh
    ya, yb = _trunc(-posa - nh), _trunc(-posb - nh)
    goals.append(("negative_side_clear_of_axis",
                  z3.ForAll([La, gap, nh, ha], z3.Implies(hyp, z3.ToReal(ya) + ha <= -(gap - 1)))))
    goals.append(("negative_side_layers_nested",
                  z3.ForAll([La, Lb, gap, nh, ha, hb], z3.Implies(z3.And(hyp, Lb > La), z3.ToReal(yb) + hb <= z3.ToReal(ya)))))
    # far side positive ('down', 'right'): origin trunc(pos)
    pa, pb = _trunc(posa), _trunc(posb)
    goals.append(("positive_side_clear_of_axis",
                  z3.ForAll([La, gap, nh], z3.Implies(hyp, z3.ToReal(pa) >= gap - 1))))
    goals.append(("positive_side_layers_nested",
                  z3.ForAll([La, Lb, gap, nh, ha, hb], z3.Implies(z3.And(hyp, Lb > La), z3.ToReal(pa) + ha <= z3.ToReal(pb)))))
    # the threshold of the statement: with spacing only >= 1 the boxes can touch/overlap (the lemma must need s >= 3)
    return goals


def _lemma_rounding():
    """round() is monotone and half-close: a constraint gap g between two solver positions survives rounding up to 1."""
    x, y, g = z3.Reals("x y g")
    from pyvc.models import round_t
    return [("adjacent_pairs_lose_less_than_one",
             z3.ForAll([x, y, g], z3.Implies(y - x >= g, z3.ToReal(round_t(y)) - z3.ToReal(round_t(x)) >= g - 1))),
            ("order_kept", z3.ForAll([x, y], z3.Implies(y >= x, round_t(y) >= round_t(x))))]


LEMMAS = {
    "C08/lemma.boxes": {"props": ["C08"], "build": _lemma_boxes,
                        "text": "separation + layout offsets + %i truncation => disjoint boxes on the named side"},
    "C01/lemma.rounding": {"props": ["C01", "C02", "C03", "C08"], "build": _lemma_rounding,
                           "text": "integer rounding of solver positions costs at most 1 unit of separation and keeps order"},
}
SPECFUNS = {}


# ---------------------------------------------------------------------------------------------------------------------
# C07 / C09: the way-points of a link (Renderer.getWayPoints), for a label in layer 0, 1 and 2 (a chain of 0, 1, 2 stubs
# below it) and the four directions: loop-free harnesses (the parent chain has a concrete length, every number is
# symbolic).  The link starts at the ROOT's data position on the axis, and for every layer it passes first the axis-facing
# edge and then the far edge of that layer's box row, at the position of the item (stub or label) in that layer - the
# axis-facing edge is exactly where Renderer.layout puts the box (POS above): "ends at the middle of the axis-facing edge".
# ---------------------------------------------------------------------------------------------------------------------
_CHAIN = {0: (["node"], ["node is not None", "node.parent is None"]),
          1: (["s0", "node"], ["node is not None and s0 is not None and node is not s0", "node.parent is s0", "s0.parent is None"]),
          2: (["s0", "s1", "node"], ["node is not None and s0 is not None and s1 is not None", "node is not s0 and node is not s1 and s0 is not s1",
                                     "node.parent is s1", "s1.parent is s0", "s0.parent is None"])}
_GAP = "(self.options['nodeHeight'] + self.options['layerGap'])"


def _waypoint_posts(direction, hops):
    sign = "-" if direction in ("left", "up") else ""
    horizontal = direction in ("left", "right")
    posts = [("as_many_segments_as_layers_plus_the_dot", "len(result) == %d" % (len(hops) + 1)),
             ("starts_at_the_roots_data_position_on_the_axis",
              "len(result[0]) == 1 and result[0][0][%d] == 0 and result[0][0][%d] == %s.idealPos" % ((0, 1, hops[0]) if horizontal else (1, 0, hops[0])))]
    for k, h in enumerate(hops):
        far = "%s%s * %d" % (sign, _GAP, k + 1)
        near = "%s(%s * %d - self.options['nodeHeight'])" % (sign, _GAP, k + 1)
        a, p = (0, 1) if horizontal else (1, 0)      # a: across the axis, p: along it
        posts.append(("layer_%d_near_then_far_edge_at_the_items_position" % k,
                      "len(result[{s}]) == 2 and result[{s}][0][{a}] == {near} and result[{s}][1][{a}] == {far} "
                      "and result[{s}][0][{p}] == {h}.currentPos and result[{s}][1][{p}] == {h}.currentPos".format(s=k + 1, a=a, p=p, near=near, far=far, h=h)))
        # the near edge is where Renderer.layout places the box of an item of layer k (POS = k * gap + layerGap)
        posts.append(("layer_%d_near_edge_is_the_layout_position" % k,
                      "result[{s}][0][{a}] == {sign}({k} * {gap} + self.options['layerGap'])".format(s=k + 1, a=a, sign=sign, k=k, gap=_GAP)))
    return posts


for _d in DIRECTIONS:
    for _depth, (_hops, _req) in _CHAIN.items():
        CONTRACTS["renderer.Renderer.getWayPoints@%s_layer%d" % (_d, _depth)] = {
            "props": ["C07", "C09"], "heap": True, "inline": True, "func_alias": "renderer.Renderer.getWayPoints",
            "params": dict({"self": renderer_obj(_d)}, **{h: "ref:Node" for h in _hops}),
            "requires": list(_req), "modifies": [],
            "ensures": _waypoint_posts(_d, _hops),
        }


# ---------------------------------------------------------------------------------------------------------------------
# C07 / C09: the link path text (Renderer.generatePath) for a label in layer 0-2, four directions, SVG text and the step list
# the TikZ back-end consumes.  The expected text is written out from the way-points (verified above): one move to the dot,
# then per layer ONE curve from the end of the previous segment to the axis-facing edge - both control points half-way
# across - and, except in the label's own layer, ONE line along the box row.  "%.8f" is an abstract format term (A-STR):
# two texts are equal iff they have the same skeleton and their printed numbers are equal.
# ---------------------------------------------------------------------------------------------------------------------
def _path_steps(direction, depth):
    # the way-points as computed by the function itself (ghost name of the first assignment to the local `waypoints`; what
    # they are is the contract of getWayPoints above)
    W = "waypoints__0"
    horizontal = direction in ("left", "right")
    steps = ['"M %%.8f %%.8f" %% (%s[0][0][0], %s[0][0][1])' % (W, W)]
    prev = "%s[0][0]" % W
    for k in range(1, depth + 2):
        cur0, cur1 = "%s[%d][0]" % (W, k), "%s[%d][1]" % (W, k)
        if horizontal:
            mid = "(%s[0] + %s[0]) / 2" % (prev, cur0)
            c1, c2 = "%s, %s[1]" % (mid, prev), "%s, %s[1]" % (mid, cur0)
        else:
            mid = "(%s[1] + %s[1]) / 2" % (prev, cur0)
            c1, c2 = "%s[0], %s" % (prev, mid), "%s[0], %s" % (cur0, mid)
        steps.append('"C %%.8f %%.8f %%.8f %%.8f %%.8f %%.8f" %% (%s, %s, %s[0], %s[1])' % (c1, c2, cur0, cur0))
        if k < depth + 1:
            steps.append('"L %%.8f %%.8f" %% (%s[0], %s[1])' % (cur1, cur1))
        prev = cur1
    return steps


for _d in DIRECTIONS:
    for _depth, (_hops, _req) in _CHAIN.items():
        _steps = _path_steps(_d, _depth)
        for _tikz in (False, True):
            CONTRACTS["renderer.Renderer.generatePath@%s_layer%d%s" % (_d, _depth, "_steps" if _tikz else "")] = {
                "props": ["C07", "C09"], "heap": True, "inline": True, "func_alias": "renderer.Renderer.generatePath",
                "params": dict({"self": renderer_obj(_d), "tikz": (lambda E, P, name, _t=_tikz: Bool(z3.BoolVal(_t)))},
                               **{h: "ref:Node" for h in _hops}),
                "requires": list(_req), "modifies": [],
                "ensures": ([("as_many_steps_as_segments", "len(result) == %d" % len(_steps))]
                            + [("step_%d" % i, "result[%d] == %s" % (i, s)) for i, s in enumerate(_steps)]) if _tikz
                else [("path_text", "result == ' '.join([%s])" % ", ".join(_steps))],
            }
