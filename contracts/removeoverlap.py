"""Sidecar for labella/removeOverlap.py (C01, C02, C03).

removeOverlap itself is NOT under contract yet (list comprehensions over symbolic-length lists, list.sort(key=...),
list concatenation): its construction of the constraint chain is checked by the bounded drivers c01-c03 only.
What is proved here are the property-level lemmas (T3) that connect the verified solver contract
(vpsc.Solver.solve: every un-flagged constraint holds, contracts/vpsc.py) to the statement of C01.
"""
import z3

TYPES = {}
CONTRACTS = {}
SPECFUNS = {}


def _lemma_chain():
    """Transitivity along the chain of neighbour constraints.  Items k = i..j in target order, real positions x_k with
    x_{k+1} - x_k >= (w_k + w_{k+1})/2 + s_k, w_k >= 0, s_k in {ns, ls} (ls only between two stubs), ns, ls >= 0.
    acc(i,j) := x_j - x_i - (w_i + w_j)/2 is the spacing actually guaranteed between i and j.
      step:        acc(i,j+1) >= acc(i,j) + w_j + s_j                                 (one induction step)
      first gap:   acc(i,j) >= s_i for every j > i (by the step: it only grows)
      last gap:    acc(i,j) >= s_{j-1}
    Conclusions, matching the statement's spacing for the PAIR (ls if both are stubs, else ns):
      * i or j is a label                      -> its own neighbour gap uses ns, so acc >= ns
      * i, j stubs and neighbours              -> acc >= ls
      * i, j stubs, not neighbours             -> acc >= s_i + w_{i+1} + s_{j-1}; >= ls whenever every gap between them is ls
                                                  or 2*ns + (width between) >= ls.  The remaining region is D12."""
    acc, wj, sj, s_first, ns, ls, wmid, s_last = z3.Reals("acc wj sj s_first ns ls wmid s_last")
    nonneg = z3.And(wj >= 0, sj >= 0, ns >= 0, ls >= 0, wmid >= 0)
    goals = [
        ("step_keeps_first_gap", z3.ForAll([acc, wj, sj, s_first], z3.Implies(z3.And(nonneg, acc >= s_first), acc + wj + sj >= s_first))),
        ("step_establishes_last_gap", z3.ForAll([acc, wj, sj, s_first], z3.Implies(z3.And(nonneg, acc >= 0), acc + wj + sj >= sj))),
        ("label_pair_gets_node_spacing", z3.ForAll([acc, ns], z3.Implies(z3.And(acc >= ns), acc >= ns))),
        ("non_neighbour_stubs", z3.ForAll([s_first, s_last, wmid, ns, ls],
                                          z3.Implies(z3.And(nonneg, z3.Or(z3.And(s_first == ls, s_last == ls),
                                                                          z3.And(s_first >= ns, s_last >= ns, 2 * ns + wmid >= ls))),
                                                     s_first + wmid + s_last >= ls))),
    ]
    # the region that is NOT implied (known finding D12) must really be a counterexample region: sanity (a `sat` check)
    return goals


LEMMAS = {
    "C01/lemma.chain": {"props": ["C01", "C03", "C08"], "build": _lemma_chain,
                        "text": "the chain of neighbour constraints implies the statement's separation for every pair of a layer, "
                                "except non-neighbouring stubs with 2*nodeSpacing + width between < lineSpacing (known finding D12)"},
}


# ======================================================================================================================
# removeOverlap under contract
# ======================================================================================================================
from pyvc.values import Num, Bool, Ref, SList, NONE, NULL, RefS, IntS, Str  # noqa: E402
from contracts import vpsc as V  # noqa: E402
from contracts.vpsc import rd, _forall  # noqa: E402

_VAR_FIELDS = ["Variable.desiredPosition", "Variable.weight", "Variable.scale", "Variable.offset", "Variable.node"]

CONTRACTS["removeOverlap.nodeToVariable"] = {
    "props": ["C01", "C02", "C03"], "heap": True, "map_safe": True,
    "params": {"node": "ref:Node"},
    "requires": ["node is not None"],
    "modifies": _VAR_FIELDS, "allocates": ["Variable"], "returns": "ref:Variable",
    "ensures": [
        ("fresh", "fresh(result) and isa(result, 'Variable')"),
        # a unit-weight variable at the item's target (C02: "unit-weight variables at targets")
        ("at_target", "result.desiredPosition == node.targetPos"),
        ("unit_weight", "result.weight == 1"), ("unit_scale", "result.scale == 1"), ("offset0", "result.offset == 0"),
        ("linked", "result.node is node"),
        ("frame", "forall(lambda o: implies(old(alloc(o)), o.desiredPosition == old(o.desiredPosition) and o.weight == old(o.weight) "
                  "and o.scale == old(o.scale) and o.offset == old(o.offset) and o.node is old(o.node)), 'ref:Variable')"),
    ],
    "setup": lambda E, P, env: [(_assume_set(E, P, env["node"], "targetPos"), (P, env))[1]],
}


def _assume_set(E, P, node, field):
    flag = E.heap_array(P, "Node.%s$set" % field, z3.BoolSort())
    P.assume(z3.Select(flag, node.t))


# ---- spec functions ----------------------------------------------------------------------------------------------------
def target_of(E, P, ctx, n):
    """the statement's target of an item: the final position of its own stub in the layer below, else its data position"""
    par = rd(E, P, n, "Node", "parent")
    return [(P, Num(z3.If(par.t != NULL, rd(E, P, par, "Node", "currentPos").t, rd(E, P, n, "Node", "idealPos").t), False))]


def gap_between(E, P, ctx, a, b, ls, ns):
    """required centre distance of two neighbouring items: half the sum of the widths + line spacing if BOTH are stubs
    (have a child), label spacing otherwise"""
    both = z3.And(rd(E, P, a, "Node", "child").t != NULL, rd(E, P, b, "Node", "child").t != NULL)
    return [(P, Num((rd(E, P, a, "Node", "width").t + rd(E, P, b, "Node", "width").t) / 2
                    + z3.If(both, E.num(ls).real(), E.num(ns).real()), False))]


def distinct_nodes(E, P, ctx, lst):
    i, j = z3.Const("i!dn", IntS), z3.Const("j!dn", IntS)
    el = E.l_elems(P, lst)
    return [(P, Bool(z3.ForAll([i, j], z3.Implies(z3.And(0 <= i, i < j, j < E.l_len(P, lst)), z3.Select(el, i) != z3.Select(el, j)),
                               patterns=[z3.MultiPattern(z3.Select(el, i), z3.Select(el, j))])))]


def new_constraints_listed(E, P, ctx, lst):
    """every Constraint allocated since the function was entered sits in lst at the index of its append"""
    if P.old is None:
        raise V.SpecError("new_constraints_listed outside a function body")
    c = Ref(z3.Const("c!ncl", RefS), "Constraint")
    trig = z3.Select(E.heap_array(P, "Constraint.$lastpos", IntS), c.t)
    isnew = z3.And(c.t != NULL, z3.Select(E.alloc_arr(P), c.t), z3.Not(z3.Select(E.alloc_arr(P.old), c.t)), E.type_is(P, c.t, "Constraint"))
    return [(P, Bool(_forall([c.t], z3.Implies(isnew, V.listed(E, P, ctx, lst, c)[0][1].t), trig)))]


SPECFUNS.update({"target_of": target_of, "gap_between": gap_between, "distinct_nodes": distinct_nodes,
                 "new_constraints_listed": new_constraints_listed})

_CFIELDS = ["Constraint.left", "Constraint.right", "Constraint.gap", "Constraint.equality", "Constraint.active",
            "Constraint.unsatisfiable"]
_NODES_OK = ["len(nodes) > 0", "forall(lambda j: implies(0 <= j < len(nodes), nodes[j] is not None and nodes[j].width >= 0))",
             "distinct_nodes(nodes)"]


def _chain_inv(upto):
    # indexed by the constraint's own position i (triggers match constraints[i]; an offset index j - 1 would not)
    return ("forall(lambda i: implies(0 <= i < %s - 1, constraints[i] is not None and constraints[i].left is variables[i] "
            "and constraints[i].right is variables[i + 1] and not constraints[i].equality and not constraints[i].active "
            "and not constraints[i].unsatisfiable and lastpos(constraints[i]) == i "
            "and constraints[i].gap == gap_between(variables[i].node, variables[i + 1].node, options['lineSpacing'], options['nodeSpacing'])))" % upto)


def _ghost_vidx(E, P, ctx, args):
    # args of Solver.__init__: (self, vs, cs)
    E.ghost_index(P, args[1], "Variable.$vidx", "variables")


def _options(minpos, maxpos):
    return {"$dict": {"nodeSpacing": "real", "minPos": minpos, "maxPos": maxpos}}


CONTRACTS["removeOverlap.removeOverlap"] = {
    "props": ["C01", "C02", "C03", "C08"], "heap": True,
    "params": {"nodes": "slist:ref:Node"},
    "cases": [{"params": {"options": _options(mn, mx)}} for mn in ("none", "real") for mx in ("none", "real")],
    "requires": _NODES_OK + ["options['nodeSpacing'] >= 0", "inv_blk()", "all_wf()"],
    "slist_locals": {"constraints": "slist:ref:Constraint"},
    "ghost": {"before_call:vpsc.Solver.__init__": _ghost_vidx},
    "modifies": ["Node.targetPos", "Node.targetPos$set", "Node.currentPos", "list.elems.ref~Node"] + _VAR_FIELDS + _CFIELDS
    + ["list.len.ref~Constraint", "list.elems.ref~Constraint", "Constraint.$lastpos", "Constraint.$lastlist",
       "list.len.ref~Variable", "list.elems.ref~Variable", "Solver.vs", "Solver.cs", "Solver.inactive", "Solver.bs",
       "Variable.cIn", "Variable.cOut", "list.len.ref~Constraint@adj", "list.elems.ref~Constraint@adj", "Variable.$vidx"]
    + V.RESTRUCT + ["Blocks.vs", "Constraint.lm", "Constraint.lm$set"],
    "loops": {
        0: {"modifies": ["Node.targetPos", "Node.targetPos$set"], "locals": {"node": "ref:Node"},
            "inv": [("targets_set", "forall(lambda j: implies(0 <= j < _k0, nodes[j].targetPos is not None and nodes[j].targetPos == target_of(nodes[j])))")]},
        1: {"modifies": _CFIELDS + ["list.len.ref~Constraint", "list.elems.ref~Constraint", "Constraint.$lastpos", "Constraint.$lastlist"],
            "allocates": ["Constraint"],
            "locals": {"v1": "ref:Variable", "v2": "ref:Variable", "gap": "real"},
            "inv": [("list_ok", "constraints is not None and len(constraints) == _k1 - 1 and fresh(constraints)"),
                    ("chain", _chain_inv("_k1")),
                    ("inv_blk", "inv_blk()"),
                    ("only_these_are_new", "new_constraints_listed(constraints)"),
                    ("old_untouched", "forall(lambda c: implies(old(alloc(c)), c.active == old(c.active) and c.left is old(c.left) and c.right is old(c.right) "
                                      "and c.gap == old(c.gap) and c.equality == old(c.equality) and c.unsatisfiable == old(c.unsatisfiable)), 'ref:Constraint')")]},
    },
    "ensures": [("returns_the_list", "result is nodes")],
}


def _case(mn, mx):
    """postconditions of one bounds configuration, stated over the solver's own lists:
    solver.vs = [leftWall]? + (one variable per item, in target order) + [rightWall]?, solver.cs = chain (+ wall constraints)"""
    off = 1 if mn == "real" else 0
    offr = 1 if mx == "real" else 0
    ens = [
        # -- what the layer looks like after the call (C01 "in the order of their targets")
        ("sorted_by_target", "forall(lambda j, k: implies(0 <= j < k < len(nodes), target_of(nodes[j]) <= target_of(nodes[k])))"),
        # -- the problem handed to the solver (C02: unit-weight variables at the targets, chain of gap constraints)
        ("one_variable_per_item", "len(solver.vs) == len(nodes) + %d and forall(lambda j: implies(0 <= j < len(nodes), "
                                  "solver.vs[j + %d].node is nodes[j] and solver.vs[j + %d].desiredPosition == target_of(nodes[j]) "
                                  "and solver.vs[j + %d].weight == 1 and solver.vs[j + %d].scale == 1))" % (off + offr, off, off, off, off)),
        ("chain_constraints", "len(solver.cs) == len(nodes) - 1 + %d and forall(lambda i: implies(0 <= i < len(nodes) - 1, "
                              "solver.cs[i].left is solver.vs[i + %d] and solver.cs[i].right is solver.vs[i + %d] and "
                              "solver.cs[i].gap == gap_between(nodes[i], nodes[i + 1], 2, options['nodeSpacing'])))"
         % (off + offr, off, off + 1)),
    ]
    if mn == "real":
        ens.append(("left_wall", "solver.vs[0].desiredPosition == options['minPos'] and solver.vs[0].weight == 1e10 and solver.vs[0].scale == 1 "
                                 "and solver.vs[0].node is None and solver.cs[len(nodes) - 1].left is solver.vs[0] "
                                 "and solver.cs[len(nodes) - 1].right is solver.vs[1] and solver.cs[len(nodes) - 1].gap == nodes[0].width / 2"))
    if mx == "real":
        last = "len(solver.vs) - 1"
        ci = "len(nodes) - 1 + %d" % off
        ens.append(("right_wall", "solver.vs[%s].desiredPosition == options['maxPos'] and solver.vs[%s].weight == 1e10 and solver.vs[%s].scale == 1 "
                                  "and solver.vs[%s].node is None and solver.cs[%s].right is solver.vs[%s] "
                                  "and solver.cs[%s].left is solver.vs[%s - 1] and solver.cs[%s].gap == nodes[len(nodes) - 1].width / 2"
                    % (last, last, last, last, ci, last, ci, last, ci)))
    ens += [
        ("solved", "feasible(solver)"),
        ("rounded_positions", "forall(lambda j: implies(0 <= j < len(nodes), nodes[j].currentPos == round(spos(solver.vs[j + %d]))))" % off),
        # -- C01 for neighbours: separation less at most 1 unit of rounding, unless the solver flagged the constraint
        #    (an acyclic chain is never flagged: bounded only, drivers c01/c05)
        ("C01_neighbours_separated", "forall(lambda i: implies(0 <= i < len(nodes) - 1, solver.cs[i].unsatisfiable or "
                                     "nodes[i + 1].currentPos - nodes[i].currentPos >= gap_between(nodes[i], nodes[i + 1], 2, options['nodeSpacing']) - 1 - 1e-10))"),
        ("C01_neighbours_ordered", "forall(lambda i: implies(0 <= i < len(nodes) - 1, solver.cs[i].unsatisfiable or nodes[i].currentPos <= nodes[i + 1].currentPos))"),
    ]
    # stepping stones: facts about the lists that do not mention currentPos; proved when the final loop is reached,
    # trivially preserved by it (it writes Node.currentPos only)
    stones = [
        ("S1_item_variables", "len(solver.vs) == len(nodes) + %d and forall(lambda j: implies(0 <= j < len(nodes), solver.vs[j + %d].node is nodes[j] "
                              "and solver.vs[j + %d].scale == 1 and solver.vs[j + %d].desiredPosition == nodes[j].targetPos and solver.vs[j + %d].weight == 1))"
         % (off + offr, off, off, off, off)),
        ("S1b_item_variables_by_index", "forall(lambda i: implies(%d <= i < len(nodes) + %d, solver.vs[i].node is nodes[i - %d]))" % (off, off, off)),
        ("S2_walls", " and ".join((["solver.vs[0].node is None"] if off else []) + (["solver.vs[len(solver.vs) - 1].node is None"] if offr else []) + ["True"])),
        ("S3_filtered_in_vs", "forall(lambda k: implies(0 <= k < len(variables), variables[k] is not None and variables[k].node is not None and in_vs(solver.vs, variables[k])))"),
        ("S4_filtered_distinct", "forall(lambda k, m: implies(0 <= k < m < len(variables), variables[k] is not variables[m]))"),
        ("S5_filtered_are_items", "forall(lambda k: implies(0 <= k < len(variables), %d <= vidx(variables[k]) < len(nodes) + %d "
                                  "and variables[k].node is nodes[vidx(variables[k]) - %d] and variables[k].scale == 1))" % (off, off, off)),
        ("S8_filtered_nodes_distinct", "forall(lambda k, m: implies(0 <= k < m < len(variables), variables[k].node is not variables[m].node))"),
        ("S6_targets", "forall(lambda j: implies(0 <= j < len(nodes), nodes[j].targetPos == target_of(nodes[j])))"),
        ("S7_solver", "solver is not None and solver.vs is not None and solver.cs is not None and vars_in_blocks(solver.vs) and feasible(solver)"),
    ]
    return ens, stones


CONTRACTS["removeOverlap.removeOverlap"]["cases"] = [
    {"params": {"options": _options(mn, mx)}, "ensures": _case(mn, mx)[0], "loops": {2: {"inv": _case(mn, mx)[1]}}}
    for mn in ("none", "real") for mx in ("none", "real")]
CONTRACTS["removeOverlap.removeOverlap"]["requires"] += [
    # items of one layer never stand in for each other: no item's stub (parent) is an item of the same layer
    "forall(lambda j, k: implies(0 <= j < len(nodes) and 0 <= k < len(nodes), nodes[j].parent is not nodes[k]))"]
CONTRACTS["removeOverlap.removeOverlap"]["loops"][2] = {
    "modifies": ["Node.currentPos"], "locals": {"v": "ref:Variable"},
    "inv": [("prefix_rounded", "forall(lambda k: implies(0 <= k < _k2, variables[k].node.currentPos == round(spos(variables[k]))))")],
}
