"""Sidecar for labella/removeOverlap.py (C01, C02, C03, C06, C08).

Under contract: nodeToVariable and removeOverlap itself for all four bound configurations (targets, sort, one unit-weight
variable per item, chain of gap constraints, wall variables, the solver's preconditions, the rounding loop; cases 0 and 2
under the function's own key, the upper-bound cases under the alias key `@upper_bound`); end-to-end rounding / neighbour
separation clauses for the configuration without bounds in the thorough tier.  T3: the property-level lemmas that connect the
verified solver contract (vpsc.Solver.solve: every un-flagged constraint holds, contracts/vpsc.py) to the statement of C01.
Status and what stays bounded: DESIGN.md section 6 (C01).
"""
import z3

TYPES = {}
CONTRACTS = {}
SPECFUNS = {}


def _lemma_chain():
    """Transitivity along the chain of neighbour constraints.  Items k = i..j in target order, real positions x_k with
    x_{k+1} - x_k >= (w_k + w_{k+1})/2 + s_k, w_k >= 0, s_k in {ns, ls} (ls only between two stubs), ns, ls >= 0.
    acc(i,j) := x_j - x_i - (w_i + w_j)/2 is the spacing actually guaranteed between i and j.
      step:        acc(i,j+1) >= acc(i,j) + w_j + s_j                                 (one induction step)
      first gap:   acc(i,j) >= s_i for every j > i (by the step: it only grows)
      last gap:    acc(i,j) >= s_{j-1}
    Conclusions, matching the statement's spacing for the PAIR (ls if both are stubs, else ns):
      * i or j is a label                      -> its own neighbour gap uses ns, so acc >= ns
      * i, j stubs and neighbours              -> acc >= ls
      * i, j stubs, not neighbours             -> acc >= s_i + w_{i+1} + s_{j-1}; >= ls whenever every gap between them is ls
                                                  or 2*ns + (width between) >= ls.  The remaining region is D12."""
    acc, wj, sj, s_first, ns, ls, wmid, s_last = z3.Reals("acc wj sj s_first ns ls wmid s_last")
    nonneg = z3.And(wj >= 0, sj >= 0, ns >= 0, ls >= 0, wmid >= 0)
    goals = [
        ("step_keeps_first_gap", z3.ForAll([acc, wj, sj, s_first], z3.Implies(z3.And(nonneg, acc >= s_first), acc + wj + sj >= s_first))),
        ("step_establishes_last_gap", z3.ForAll([acc, wj, sj, s_first], z3.Implies(z3.And(nonneg, acc >= 0), acc + wj + sj >= sj))),
        ("label_pair_gets_node_spacing", z3.ForAll([acc, ns], z3.Implies(z3.And(acc >= ns), acc >= ns))),
        ("non_neighbour_stubs", z3.ForAll([s_first, s_last, wmid, ns, ls],
                                          z3.Implies(z3.And(nonneg, z3.Or(z3.And(s_first == ls, s_last == ls),
                                                                          z3.And(s_first >= ns, s_last >= ns, 2 * ns + wmid >= ls))),
                                                     s_first + wmid + s_last >= ls))),
    ]
    # the region that is NOT implied (known finding D12) must really be a counterexample region: sanity (a `sat` check)
    return goals


LEMMAS = {
    "C01/lemma.chain": {"props": ["C01", "C03", "C08"], "build": _lemma_chain,
                        "text": "the chain of neighbour constraints implies the statement's separation for every pair of a layer, "
                                "except non-neighbouring stubs with 2*nodeSpacing + width between < lineSpacing (known finding D12)"},
}


# ======================================================================================================================
# removeOverlap under contract
# ======================================================================================================================
from pyvc.values import Num, Bool, Ref, SList, NONE, NULL, RefS, IntS, Str  # noqa: E402
from contracts import vpsc as V  # noqa: E402
from contracts.vpsc import rd, _forall  # noqa: E402

_VAR_FIELDS = ["Variable.desiredPosition", "Variable.weight", "Variable.scale", "Variable.offset", "Variable.node"]

CONTRACTS["removeOverlap.nodeToVariable"] = {
    "props": ["C01", "C02", "C03"], "heap": True, "map_safe": True,
    "params": {"node": "ref:Node"},
    "requires": ["node is not None"],
    "modifies": _VAR_FIELDS, "allocates": ["Variable"], "returns": "ref:Variable",
    "ensures": [
        ("fresh", "fresh(result) and isa(result, 'Variable')"),
        # a unit-weight variable at the item's target (C02: "unit-weight variables at targets")
        ("at_target", "result.desiredPosition == node.targetPos"),
        ("unit_weight", "result.weight == 1"), ("unit_scale", "result.scale == 1"), ("offset0", "result.offset == 0"),
        ("linked", "result.node is node"),
        ("frame", "forall(lambda o: implies(old(alloc(o)), o.desiredPosition == old(o.desiredPosition) and o.weight == old(o.weight) "
                  "and o.scale == old(o.scale) and o.offset == old(o.offset) and o.node is old(o.node)), 'ref:Variable')"),
    ],
    "setup": lambda E, P, env: [(_assume_set(E, P, env["node"], "targetPos"), (P, env))[1]],
}


def _assume_set(E, P, node, field):
    flag = E.heap_array(P, "Node.%s$set" % field, z3.BoolSort())
    P.assume(z3.Select(flag, node.t))


# ---- spec functions ----------------------------------------------------------------------------------------------------
def target_of(E, P, ctx, n):
    """the statement's target of an item: the final position of its own stub in the layer below, else its data position"""
    par = rd(E, P, n, "Node", "parent")
    return [(P, Num(z3.If(par.t != NULL, rd(E, P, par, "Node", "currentPos").t, rd(E, P, n, "Node", "idealPos").t), False))]


def gap_between(E, P, ctx, a, b, ls, ns):
    """required centre distance of two neighbouring items: half the sum of the widths + line spacing if BOTH are stubs
    (have a child), label spacing otherwise"""
    both = z3.And(rd(E, P, a, "Node", "child").t != NULL, rd(E, P, b, "Node", "child").t != NULL)
    return [(P, Num((rd(E, P, a, "Node", "width").t + rd(E, P, b, "Node", "width").t) / 2
                    + z3.If(both, E.num(ls).real(), E.num(ns).real()), False))]


def distinct_nodes(E, P, ctx, lst):
    i, j = z3.Const("i!dn", IntS), z3.Const("j!dn", IntS)
    el = E.l_elems(P, lst)
    return [(P, Bool(z3.ForAll([i, j], z3.Implies(z3.And(0 <= i, i < j, j < E.l_len(P, lst)), z3.Select(el, i) != z3.Select(el, j)),
                               patterns=[z3.MultiPattern(z3.Select(el, i), z3.Select(el, j))])))]


def node_index(E, P, ctx, lst):
    """the items are pairwise distinct, stated through a ghost inverse index (Node.$nidx[lst[k]] == k): a single-variable
    fact whose instances make distinctness a matter of congruence (the pairwise form explodes the trigger search)"""
    k = z3.Const("k!ni", IntS)
    el = E.l_elems(P, lst)
    arr = E.heap_array(P, "Node.$nidx", IntS)
    return [(P, Bool(_forall([k], z3.Implies(z3.And(0 <= k, k < E.l_len(P, lst)), z3.Select(arr, z3.Select(el, k)) == k), z3.Select(el, k))))]


def in_nodes(E, P, ctx, lst, x):
    """x is an element of the node list (through the ghost inverse index Node.$nidx)"""
    if x is NONE:
        return [(P, Bool(z3.BoolVal(False)))]
    idx = z3.Select(E.heap_array(P, "Node.$nidx", IntS), x.t)
    return [(P, Bool(z3.And(x.t != NULL, 0 <= idx, idx < E.l_len(P, lst), z3.Select(E.l_elems(P, lst), idx) == x.t)))]


def active_ends(E, P, ctx):
    """every allocated ACTIVE constraint joins two (non-null) variables"""
    c = Ref(z3.Const("c!ae", RefS), "Constraint")
    act = z3.Select(E.heap_array(P, "Constraint.active", z3.BoolSort()), c.t)
    body = z3.Implies(z3.And(c.t != NULL, z3.Select(E.alloc_arr(P), c.t), E.type_is(P, c.t, "Constraint"), act),
                      z3.And(rd(E, P, c, "Constraint", "left").t != NULL, rd(E, P, c, "Constraint", "right").t != NULL))
    return [(P, Bool(_forall([c.t], body, act)))]


def new_constraints_listed(E, P, ctx, lst):
    """every Constraint allocated since the function was entered sits in lst at the index of its append"""
    if P.old is None:
        raise V.SpecError("new_constraints_listed outside a function body")
    c = Ref(z3.Const("c!ncl", RefS), "Constraint")
    trig = z3.Select(E.heap_array(P, "Constraint.$lastpos", IntS), c.t)
    isnew = z3.And(c.t != NULL, z3.Select(E.alloc_arr(P), c.t), z3.Not(z3.Select(E.alloc_arr(P.old), c.t)), E.type_is(P, c.t, "Constraint"))
    return [(P, Bool(_forall([c.t], z3.Implies(isnew, V.listed(E, P, ctx, lst, c)[0][1].t), trig)))]


SPECFUNS.update({"active_ends": active_ends, "in_nodes": in_nodes, "node_index": node_index, "target_of": target_of, "gap_between": gap_between, "distinct_nodes": distinct_nodes,
                 "new_constraints_listed": new_constraints_listed})

_CFIELDS = ["Constraint.left", "Constraint.right", "Constraint.gap", "Constraint.equality", "Constraint.active",
            "Constraint.unsatisfiable"]
_NODES_OK = ["len(nodes) > 0", "forall(lambda j: implies(0 <= j < len(nodes), nodes[j] is not None and nodes[j].width >= 0))",
             "node_index(nodes)"]


def _chain_inv(upto):
    # indexed by the constraint's own position i (triggers match constraints[i]; an offset index j - 1 would not)
    return ("forall(lambda i: implies(0 <= i < %s - 1, constraints[i] is not None and constraints[i].left is variables[i] "
            "and constraints[i].right is variables[i + 1] and not constraints[i].equality and not constraints[i].active "
            "and not constraints[i].unsatisfiable and lastpos(constraints[i]) == i "
            "and constraints[i].gap == gap_between(variables[i].node, variables[i + 1].node, options['lineSpacing'], options['nodeSpacing'])))" % upto)


def _ghost_vidx(E, P, ctx, args):
    """Before `vpsc.Solver(variables, constraints)`: introduce the ghost inverse index of `variables` and prove a few
    cut-point assertions about the two lists (each is an obligation, then assumed): they shorten the later proofs."""
    # args of Solver.__init__: (self, vs, cs)
    E.ghost_index(P, args[1], "Variable.$vidx", "variables")
    case = E.active_case or {}
    for nm, src in case.get("_asserts_before_solver", []):
        E.prove_spec(P, "assert.before_solver.%s" % nm, src, ctx.asspec(), "assert")


def _options(minpos, maxpos):
    return {"$dict": {"nodeSpacing": "real", "minPos": minpos, "maxPos": maxpos}}


CONTRACTS["removeOverlap.removeOverlap"] = {
    "props": ["C01", "C02", "C03", "C06", "C08"], "heap": True,
    "params": {"nodes": "slist:ref:Node"},
    "cases": [{"params": {"options": _options(mn, mx)}} for mn in ("none", "real") for mx in ("none", "real")],
    "requires": _NODES_OK + ["options['nodeSpacing'] >= 0", "inv_blk()", "active_ends()"],
    "slist_locals": {"constraints": "slist:ref:Constraint"},
    # the pairwise ordering facts of the sorted list (two-variable triggers over every pair of list reads) are only needed
    # for `sorted_by_target`; the other clauses are proved without them (dropping hypotheses only weakens the premises)
    "tag": {"sorted_by_target": "sorted"},
    "without": {k: ["sorted"] for k in ("one_variable_per_item", "chain_constraints", "left_wall", "right_wall", "solved",
                                        "rounded_positions", "C01_neighbours_separated", "C01_neighbours_ordered",
                                        "prefix_rounded", "M2e", "M3_inv_blk")},
    "ghost": {"before_call:vpsc.Solver.__init__": _ghost_vidx},
    "modifies": ["Node.targetPos", "Node.targetPos$set", "Node.currentPos", "list.elems.ref~Node"] + _VAR_FIELDS + _CFIELDS
    + ["list.len.ref~Constraint", "list.elems.ref~Constraint", "Constraint.$lastpos", "Constraint.$lastlist",
       "list.len.ref~Variable", "list.elems.ref~Variable", "Solver.vs", "Solver.cs", "Solver.inactive", "Solver.bs",
       "Variable.cIn", "Variable.cOut", "list.len.ref~Constraint@cin", "list.elems.ref~Constraint@cin", "list.len.ref~Constraint@cout", "list.elems.ref~Constraint@cout",
       "Constraint.$ipos", "Constraint.$opos", "Variable.$vidx"]
    + V.RESTRUCT + ["Blocks.vs", "Constraint.lm", "Constraint.lm$set"],
    "loops": {
        0: {"modifies": ["Node.targetPos", "Node.targetPos$set"], "locals": {"node": "ref:Node"},
            "inv": [("targets_set", "forall(lambda j: implies(0 <= j < _k0, nodes[j].targetPos is not None and nodes[j].targetPos == target_of(nodes[j])))")]},
        1: {"modifies": _CFIELDS + ["list.len.ref~Constraint", "list.elems.ref~Constraint", "Constraint.$lastpos", "Constraint.$lastlist"],
            "allocates": ["Constraint"],
            "locals": {"v1": "ref:Variable", "v2": "ref:Variable", "gap": "real"},
            "inv": [("list_ok", "constraints is not None and len(constraints) == _k1 - 1 and fresh(constraints)"),
                    ("chain", _chain_inv("_k1")),
                    ("inv_blk", "inv_blk()"),
                    ("only_these_are_new", "new_constraints_listed(constraints)"),
                    ("old_untouched", "forall(lambda c: implies(old(alloc(c)), c.active == old(c.active) and c.left is old(c.left) and c.right is old(c.right) "
                                      "and c.gap == old(c.gap) and c.equality == old(c.equality) and c.unsatisfiable == old(c.unsatisfiable)), 'ref:Constraint')")]},
    },
    "ensures": [("returns_the_list", "result is nodes"),
                # every item of a non-empty layer gets its target (stub's final position, else the data position) - also when
                # the layer holds a single item (C06: never a stale position)
                ("every_item_has_its_target", "forall(lambda j: implies(0 <= j < len(nodes), nodes[j].targetPos is not None "
                                              "and nodes[j].targetPos == target_of(nodes[j])))")],
    # cut right after the item variables have been created (assignment site variables#0)
    "cuts": {"after_assign:new_options#0": [("E0_inv_blk_at_entry", "inv_blk()")],
             "after_expr#1": [("E1_inv_blk_after_sort", "inv_blk()")],
             "after_assign:variables#0": [
        ("M0_no_new_constraints", "forall(lambda c: implies(isa(c, 'Constraint'), old(alloc(c))), 'ref:Constraint')"),
        ("M1_old_variables_untouched", "forall(lambda v: implies(old(alloc(v)), v.offset == old(v.offset) and v.block is old(v.block) and v.scale == old(v.scale)), 'ref:Variable')"),
        ("M2_constraint_ends_are_old", "forall(lambda c: implies(isa(c, 'Constraint') and c.active, c.left is not None and c.right is not None and old(alloc(c.left)) and old(alloc(c.right))), 'ref:Constraint')"),
        ("M2a", "forall(lambda c: implies(isa(c, 'Constraint') and c.active, old(isa(c, 'Constraint')) and old(c.active)), 'ref:Constraint')"),
        ("M2b", "forall(lambda c: implies(isa(c, 'Constraint') and c.active, old(inv_blk_at(c))), 'ref:Constraint')"),
        ("M2c", "forall(lambda c: implies(isa(c, 'Constraint') and c.active, c.left.block is c.right.block), 'ref:Constraint')"),
        ("M2d1", "forall(lambda c: implies(isa(c, 'Constraint') and c.active, c.right.offset == old(c.right.offset) and c.left.offset == old(c.left.offset)), 'ref:Constraint')"),
        ("M2d2", "forall(lambda c: implies(isa(c, 'Constraint') and c.active, old(c.right.offset) - old(c.left.offset) == c.gap), 'ref:Constraint')"),
        ("M2d3", "forall(lambda c: implies(isa(c, 'Constraint') and c.active, c.right.offset - c.left.offset == c.gap), 'ref:Constraint')"),
        ("M2e", "forall(lambda c: inv_blk_at(c), 'ref:Constraint')"),
        ("M3_inv_blk", "inv_blk()"),
    ]},
}


def _case(mn, mx):
    """postconditions of one bounds configuration, stated over the solver's own lists:
    {V} = [leftWall]? + (one variable per item, in target order) + [rightWall]?, constraints = chain (+ wall constraints)"""
    off = 1 if mn == "real" else 0
    V = "variables__1" if off else "variables__0"
    offr = 1 if mx == "real" else 0
    ens = [
        # -- what the layer looks like after the call (C01 "in the order of their targets")
        ("sorted_by_target", "forall(lambda j, k: implies(0 <= j < k < len(nodes), target_of(nodes[j]) <= target_of(nodes[k])))"),
        # -- the problem handed to the solver (C02: unit-weight variables at the targets, chain of gap constraints)
        ("one_variable_per_item", "len({V}) == len(nodes) + %d and forall(lambda j: implies(0 <= j < len(nodes), "
                                  "{V}[j + %d].node is nodes[j] and {V}[j + %d].desiredPosition == target_of(nodes[j]) "
                                  "and {V}[j + %d].weight == 1 and {V}[j + %d].scale == 1))" % (off + offr, off, off, off, off)),
        ("chain_constraints", "len(constraints) == len(nodes) - 1 + %d and forall(lambda i: implies(0 <= i < len(nodes) - 1, "
                              "constraints[i].left is {V}[i + %d] and constraints[i].right is {V}[i + %d] and "
                              "constraints[i].gap == gap_between(nodes[i], nodes[i + 1], 2, options['nodeSpacing'])))"
         % (off + offr, off, off + 1)),
    ]
    if mn == "real":
        ens.append(("left_wall", "{V}[0].desiredPosition == options['minPos'] and {V}[0].weight == 1e10 and {V}[0].scale == 1 "
                                 "and {V}[0].node is None and constraints[len(nodes) - 1].left is {V}[0] "
                                 "and constraints[len(nodes) - 1].right is {V}[1] and constraints[len(nodes) - 1].gap == nodes[0].width / 2"))
    if mx == "real":
        last = "len({V}) - 1"
        ci = "len(nodes) - 1 + %d" % off
        ens.append(("right_wall", "{V}[%s].desiredPosition == options['maxPos'] and {V}[%s].weight == 1e10 and {V}[%s].scale == 1 "
                                  "and {V}[%s].node is None and constraints[%s].right is {V}[%s] "
                                  "and constraints[%s].left is {V}[%s - 1] and constraints[%s].gap == nodes[len(nodes) - 1].width / 2"
                    % (last, last, last, last, ci, last, ci, last, ci)))
    ens += [
        ("solved", "feasible(solver)"),
    ] + ([
        # END-TO-END clauses, configuration without bounds only, THOROUGH tier only (`thorough_only` below): they discharge in
        # 2-30 s there; with a wall variable in front (index offset) they came back `unknown` even at 60 s per stage, so for the
        # other three configurations they stay bounded (drivers c01-c03, c08).
        # -- the reported position of every item is the rounded solver position of ITS variable ...
        ("rounded_positions", "forall(lambda j: implies(0 <= j < len(nodes), nodes[j].currentPos == round(spos({V}[j]))))"),
        # -- ... hence C01 for neighbours: the required gap less at most 1 unit of rounding (and the solver's 1e-10 tolerance),
        #    unless the solver flagged the constraint (an acyclic chain is never flagged: bounded only, drivers c01/c05)
        ("C01_neighbours_separated", "forall(lambda i: implies(0 <= i < len(nodes) - 1, constraints[i].unsatisfiable or "
                                     "nodes[i + 1].currentPos - nodes[i].currentPos >= gap_between(nodes[i], nodes[i + 1], 2, options['nodeSpacing']) - 1 - 1e-10))"),
    ] if (mn, mx) == ("none", "none") else [])
    # stepping stones: facts about the lists that do not mention currentPos; proved when the final loop is reached,
    # trivially preserved by it (it writes Node.currentPos only)
    stones = [
        ("S1_item_variables", "len({V}) == len(nodes) + %d and forall(lambda j: implies(0 <= j < len(nodes), {V}[j + %d].node is nodes[j] "
                              "and {V}[j + %d].scale == 1 and {V}[j + %d].desiredPosition == nodes[j].targetPos and {V}[j + %d].weight == 1))"
         % (off + offr, off, off, off, off)),
        ("S2_walls", " and ".join((["{V}[0].node is None"] if off else []) + (["{V}[len({V}) - 1].node is None"] if offr else []) + ["True"])),
        ("S3_filtered_in_vs", "forall(lambda k: implies(0 <= k < len(variables), variables[k] is not None and variables[k].node is not None and in_vs({V}, variables[k])))"),
        ("S5_filtered_are_items", "forall(lambda k: implies(0 <= k < len(variables), %d <= vidx(variables[k]) < len(nodes) + %d "
                                  "and variables[k].node is nodes[vidx(variables[k]) - %d] and variables[k].scale == 1))" % (off, off, off)),
        ("S6_targets", "forall(lambda j: implies(0 <= j < len(nodes), nodes[j].targetPos == target_of(nodes[j])))"),
        ("S7_solver", "solver is not None and {V} is not None and constraints is not None and vars_in_blocks({V}) and feasible(solver)"),
    ]
    ens = [(n_, e_.replace("{V}", V)) for n_, e_ in ens] + [("solver_lists", "solver.vs is %s and solver.cs is constraints" % V)]
    stones = [("S0_solver_lists", "solver is not None and solver.vs is %s and solver.cs is constraints" % V)] + \
        [(n_, e_.replace("{V}", V)) for n_, e_ in stones]
    # cut-point assertions right before the Solver is created (locals: variables = the solver's variable list,
    # constraints = its constraint list, variables__0 = the item variables as built by the comprehension)
    n = "len(nodes)"
    asserts = [
        ("A0_lengths", "len(variables) == %s + %d and len(constraints) == %s - 1 + %d and len(variables__0) == %s + %d"
         % (n, off + offr, n, off + offr, n, (offr if not off else 0))),
        ("A1_items_at_offset", "forall(lambda j: implies(0 <= j < %s, variables[j + %d] is variables__0[j]))" % (n, off)),
        ("A2_chain_over_solver_list", "forall(lambda i: implies(0 <= i < %s - 1, constraints[i].left is variables[i + %d] "
                                      "and constraints[i].right is variables[i + %d]))" % (n, off, off + 1)),
        ("A3_all_items_basic", "forall(lambda i: implies(0 <= i < len(variables), variables[i] is not None and variables[i].scale == 1 "
                               "and vidx(variables[i]) == i))"),
        ("A4a1", "forall(lambda i: implies(0 <= i < %s - 1, constraints[i] is not None and not constraints[i].equality and not constraints[i].active))" % n),
        ("A4a2", "forall(lambda i: implies(0 <= i < %s - 1, lastpos(constraints[i]) == i))" % n),
        ("A4a3", "forall(lambda i: implies(0 <= i < %s - 1, constraints[i].left is not None and constraints[i].right is not None))" % n),
        ("A4a4", "forall(lambda i: implies(0 <= i < %s - 1, in_vs(variables, constraints[i].left)))" % n),
        ("A4a5", "forall(lambda i: implies(0 <= i < %s - 1, in_vs(variables, constraints[i].right)))" % n),
        ("A4a6", "forall(lambda i: implies(0 <= i < %s - 1, constraints[i].left.scale == 1 and constraints[i].right.scale == 1))" % n),
        ("A4a_chain_basic", "forall(lambda i: implies(0 <= i < %s - 1, constraints[i] is not None and not constraints[i].equality "
                            "and not constraints[i].active and lastpos(constraints[i]) == i and constraints[i].left is not None "
                            "and constraints[i].right is not None and in_vs(variables, constraints[i].left) and in_vs(variables, constraints[i].right) "
                            "and constraints[i].left.scale == 1 and constraints[i].right.scale == 1))" % n),
    ] + ([("A4b_left_wall_constraint", "constraints[%s - 1] is not None and constraints[%s - 1].left is variables[0] and constraints[%s - 1].right is variables[1] "
                                       "and not constraints[%s - 1].equality and not constraints[%s - 1].active and lastpos(constraints[%s - 1]) == %s - 1 "
                                       "and in_vs(variables, variables[0]) and in_vs(variables, variables[1])" % ((n,) * 7))] if off else []) + (
         [("A4c_right_wall_constraint", "constraints[{c}] is not None and constraints[{c}].left is variables[len(variables) - 2] "
                                        "and constraints[{c}].right is variables[len(variables) - 1] and not constraints[{c}].equality "
                                        "and not constraints[{c}].active and lastpos(constraints[{c}]) == {c} "
                                        "and in_vs(variables, variables[len(variables) - 2]) and in_vs(variables, variables[len(variables) - 1])"
           .format(c="%s - 1 + %d" % (n, off)))] if offr else []) + [
        ("A4_constraints_basic", "forall(lambda i: implies(0 <= i < len(constraints), constraints[i] is not None and not constraints[i].equality "
                                 "and not constraints[i].active and lastpos(constraints[i]) == i and constraints[i].left is not None "
                                 "and constraints[i].right is not None and in_vs(variables, constraints[i].left) and in_vs(variables, constraints[i].right) "
                                 "and constraints[i].left.scale == 1 and constraints[i].right.scale == 1))"),
        ("A4y_new_listed", "new_constraints_listed(constraints)"),
        ("A4z_old_untouched", "forall(lambda c: implies(old(alloc(c)), c.active == old(c.active) and c.left is old(c.left) and c.right is old(c.right) and c.gap == old(c.gap) and c.equality == old(c.equality) and c.unsatisfiable == old(c.unsatisfiable)), 'ref:Constraint')"),
        ("A4w_old_variables_keep_blocks", "forall(lambda v: implies(old(alloc(v)), v.block is old(v.block) and v.scale == old(v.scale)), 'ref:Variable')"),
        ("A5_prewf", "prewf_list(constraints, variables)"),
        # what Blocks.__init__ needs (contracts/vpsc.py): the solver's variables are new objects of positive weight, and every
        # ACTIVE constraint (of an earlier layout) joins variables that existed before this call
        ("A6_variables_are_new", "forall(lambda i: implies(0 <= i < len(variables), fresh(variables[i]) and variables[i].weight > 0))"),
        ("A6a_new_constraints_are_inactive", "forall(lambda c: implies(isa(c, 'Constraint') and not old(alloc(c)), listed(constraints, c) and not c.active), 'ref:Constraint')"),
        ("A6a2_old_constraints_join_old_variables", "forall(lambda c: implies(isa(c, 'Constraint') and old(alloc(c)) and old(c.active), old(c.left) is not None and old(c.right) is not None "
                                                    "and old(alloc(c.left)) and old(alloc(c.right))), 'ref:Constraint')"),
        ("A6b_active_ends_are_old", "forall(lambda c: implies(isa(c, 'Constraint') and c.active, c.left is not None and c.right is not None "
                                    "and old(alloc(c.left)) and old(alloc(c.right))), 'ref:Constraint')"),
        ("A6c_untouched_by_active", "untouched_by_active(variables)"),
    ]
    cuts = {}
    if off:
        chain = ("constraints[i] is not None and constraints[i].left is variables__0[i] and constraints[i].right is variables__0[i + 1] "
                 "and not constraints[i].equality and not constraints[i].active and not constraints[i].unsatisfiable and lastpos(constraints[i]) == i "
                 "and constraints[i].gap == gap_between(variables__0[i].node, variables__0[i + 1].node, options['lineSpacing'], options['nodeSpacing'])")
        cuts["after_assign:variables#1"] = [
            ("L1_concat", "len(variables) == %s + 1 and variables[0] is leftWall and forall(lambda j: implies(0 <= j < %s, variables[j + 1] is variables__0[j]))" % (n, n)),
            ("L2_wall_constraint", "len(constraints) == %s and constraints[%s - 1] is not None and constraints[%s - 1].left is leftWall "
                                   "and constraints[%s - 1].right is variables__0[0] and constraints[%s - 1].gap == variables__0[0].node.width / 2 "
                                   "and not constraints[%s - 1].active and not constraints[%s - 1].equality and not constraints[%s - 1].unsatisfiable "
                                   "and lastpos(constraints[%s - 1]) == %s - 1" % ((n,) * 10)),
            ("L3_wall_constraint_is_new", "forall(lambda i: implies(0 <= i < %s - 1, constraints[i] is not constraints[%s - 1]))" % (n, n)),
            ("L4_chain_kept", "forall(lambda i: implies(0 <= i < %s - 1, %s))" % (n, chain)),
            ("L5_wall_variable", "leftWall is not None and leftWall.desiredPosition == options['minPos'] and leftWall.weight == 1e10 and leftWall.scale == 1 "
                                 "and leftWall.node is None and forall(lambda j: implies(0 <= j < %s, variables__0[j] is not leftWall))" % n),
            ("L7_new_listed", "new_constraints_listed(constraints)"),
            ("L8_old_untouched", "forall(lambda c: implies(old(alloc(c)), c.active == old(c.active) and c.left is old(c.left) and c.right is old(c.right) and c.gap == old(c.gap) and c.equality == old(c.equality) and c.unsatisfiable == old(c.unsatisfiable)), 'ref:Constraint')"),
            ("L6_items_kept", "len(variables__0) == %s and forall(lambda j: implies(0 <= j < %s, variables__0[j].node is nodes[j] and variables__0[j].scale == 1 "
                              "and variables__0[j].weight == 1 and variables__0[j].desiredPosition == nodes[j].targetPos))" % (n, n)),
        ]
    if offr:
        # after `variables.append(rightWall)` (expression statement #5 of the function, static ordinal)
        items = "variables__0" if off else "variables"   # without a left wall the item variables list is extended in place
        base = off
        cuts["after_expr#5"] = [
            ("R1_appended", "len(variables) == %s + %d and variables[len(variables) - 1] is rightWall and rightWall is not None "
                            "and rightWall.desiredPosition == options['maxPos'] and rightWall.weight == 1e10 and rightWall.scale == 1 and rightWall.node is None"
             % (n, off + 1)),
            ("R2_items_kept", "forall(lambda j: implies(0 <= j < %s, variables[j + %d].node is nodes[j] and variables[j + %d].scale == 1 "
                              "and variables[j + %d].weight == 1 and variables[j + %d].desiredPosition == nodes[j].targetPos and variables[j + %d] is not rightWall))"
             % (n, base, base, base, base, base)),
            ("R3_wall_constraint", "len(constraints) == %s + %d and constraints[%s - 1 + %d] is not None and constraints[%s - 1 + %d].right is rightWall "
                                   "and constraints[%s - 1 + %d].left is variables[%s - 1 + %d] and constraints[%s - 1 + %d].gap == nodes[%s - 1].width / 2 "
                                   "and not constraints[%s - 1 + %d].active and not constraints[%s - 1 + %d].equality and not constraints[%s - 1 + %d].unsatisfiable "
                                   "and lastpos(constraints[%s - 1 + %d]) == %s - 1 + %d"
             % (n, off, n, off, n, off, n, off, n, off, n, off, n, n, off, n, off, n, off, n, off, n, off)),
            ("R4_wall_constraint_is_new", "forall(lambda i: implies(0 <= i < %s - 1 + %d, constraints[i] is not constraints[%s - 1 + %d]))" % (n, off, n, off)),
            ("R7_new_listed", "new_constraints_listed(constraints)"),
            ("R8_old_untouched", "forall(lambda c: implies(old(alloc(c)), c.active == old(c.active) and c.left is old(c.left) and c.right is old(c.right) and c.gap == old(c.gap) and c.equality == old(c.equality) and c.unsatisfiable == old(c.unsatisfiable)), 'ref:Constraint')"),
            ("R5_chain_kept", "forall(lambda i: implies(0 <= i < %s - 1, constraints[i] is not None and constraints[i].left is variables[i + %d] "
                              "and constraints[i].right is variables[i + %d] and not constraints[i].equality and not constraints[i].active "
                              "and not constraints[i].unsatisfiable and lastpos(constraints[i]) == i "
                              "and constraints[i].gap == gap_between(nodes[i], nodes[i + 1], options['lineSpacing'], options['nodeSpacing'])))" % (n, off, off + 1)),
        ] + ([("R6a_left_wall_first", "variables[0] is leftWall and leftWall is not rightWall"),
              ("R6b_left_wall_fields", "leftWall.node is None and leftWall.scale == 1"),
              ("R6c_left_wall_constraint_ends", "constraints[%s - 1].left is leftWall and constraints[%s - 1].right is variables[1]" % (n, n)),
              ("R6d_left_wall_constraint_state", "not constraints[%s - 1].active and not constraints[%s - 1].equality and lastpos(constraints[%s - 1]) == %s - 1" % ((n,) * 4)),
              ("R6_left_wall_kept", "variables[0] is leftWall and leftWall.node is None and leftWall.scale == 1 and constraints[%s - 1].left is leftWall "
                                   "and constraints[%s - 1].right is variables[1] and not constraints[%s - 1].active and not constraints[%s - 1].equality "
                                   "and lastpos(constraints[%s - 1]) == %s - 1 and leftWall is not rightWall" % ((n,) * 6))] if off else [])
    return ens, stones, asserts, cuts


# Four bound configurations.  Case 0 (no bounds) and case 2 (lower bound only - the engine's default) run under this key; the
# two configurations with an upper bound (cases 1 and 3: right wall appended in place / after the left wall) run under the
# alias key `removeOverlap.removeOverlap@upper_bound` at the end of this file, so that the pool verifies them in parallel.
# (Until the relevance-filter / context-slice discharge stages existed several cut-point assertions of cases 1 and 3 came back
# `unknown` and those cases were not run.)
CONTRACTS["removeOverlap.removeOverlap"]["quick_cases"] = [0, 2]
CONTRACTS["removeOverlap.removeOverlap"]["thorough_cases"] = [0, 2]
CONTRACTS["removeOverlap.removeOverlap"]["cases"] = [
    {"params": {"options": _options(mn, mx)}, "ensures": _case(mn, mx)[0], "loops": {2: {"inv": _case(mn, mx)[1]}},
     "thorough_only": ["rounded_positions", "C01_neighbours_separated"],
     "_asserts_before_solver": _case(mn, mx)[2], "cuts": _case(mn, mx)[3]}
    for mn in ("none", "real") for mx in ("none", "real")]
CONTRACTS["removeOverlap.removeOverlap"]["requires"] += [
    # items of one layer never stand in for each other: no item's stub (parent) is an item of the same layer
    "forall(lambda j: implies(0 <= j < len(nodes), not in_nodes(nodes, nodes[j].parent)))"]
CONTRACTS["removeOverlap.removeOverlap"]["loops"][2] = {
    "modifies": ["Node.currentPos"], "locals": {"v": "ref:Variable"},
    "inv": [("prefix_rounded", "forall(lambda k: implies(0 <= k < _k2, variables[k].node.currentPos == round(spos(variables[k]))))")],
    # the element just written vs. the earlier ones
    "preserve_splits": {"prefix_rounded": ["k == _k2 - 1"]},
}


CONTRACTS["removeOverlap.removeOverlap@upper_bound"] = dict(CONTRACTS["removeOverlap.removeOverlap"],
                                                            func_alias="removeOverlap.removeOverlap",
                                                            quick_cases=[1, 3], thorough_cases=[1, 3])
