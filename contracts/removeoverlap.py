"""Sidecar for labella/removeOverlap.py (C01, C02, C03).

removeOverlap itself is NOT under contract yet (list comprehensions over symbolic-length lists, list.sort(key=...),
list concatenation): its construction of the constraint chain is checked by the bounded drivers c01-c03 only.
What is proved here are the property-level lemmas (T3) that connect the verified solver contract
(vpsc.Solver.solve: every un-flagged constraint holds, contracts/vpsc.py) to the statement of C01.
"""
import z3

TYPES = {}
CONTRACTS = {}
SPECFUNS = {}


def _lemma_chain():
    """Transitivity along the chain of neighbour constraints.  Items k = i..j in target order, real positions x_k with
    x_{k+1} - x_k >= (w_k + w_{k+1})/2 + s_k, w_k >= 0, s_k in {ns, ls} (ls only between two stubs), ns, ls >= 0.
    acc(i,j) := x_j - x_i - (w_i + w_j)/2 is the spacing actually guaranteed between i and j.
      step:        acc(i,j+1) >= acc(i,j) + w_j + s_j                                 (one induction step)
      first gap:   acc(i,j) >= s_i for every j > i (by the step: it only grows)
      last gap:    acc(i,j) >= s_{j-1}
    Conclusions, matching the statement's spacing for the PAIR (ls if both are stubs, else ns):
      * i or j is a label                      -> its own neighbour gap uses ns, so acc >= ns
      * i, j stubs and neighbours              -> acc >= ls
      * i, j stubs, not neighbours             -> acc >= s_i + w_{i+1} + s_{j-1}; >= ls whenever every gap between them is ls
                                                  or 2*ns + (width between) >= ls.  The remaining region is D12."""
    acc, wj, sj, s_first, ns, ls, wmid, s_last = z3.Reals("acc wj sj s_first ns ls wmid s_last")
    nonneg = z3.And(wj >= 0, sj >= 0, ns >= 0, ls >= 0, wmid >= 0)
    goals = [
        ("step_keeps_first_gap", z3.ForAll([acc, wj, sj, s_first], z3.Implies(z3.And(nonneg, acc >= s_first), acc + wj + sj >= s_first))),
        ("step_establishes_last_gap", z3.ForAll([acc, wj, sj, s_first], z3.Implies(z3.And(nonneg, acc >= 0), acc + wj + sj >= sj))),
        ("label_pair_gets_node_spacing", z3.ForAll([acc, ns], z3.Implies(z3.And(acc >= ns), acc >= ns))),
        ("non_neighbour_stubs", z3.ForAll([s_first, s_last, wmid, ns, ls],
                                          z3.Implies(z3.And(nonneg, z3.Or(z3.And(s_first == ls, s_last == ls),
                                                                          z3.And(s_first >= ns, s_last >= ns, 2 * ns + wmid >= ls))),
                                                     s_first + wmid + s_last >= ls))),
    ]
    # the region that is NOT implied (known finding D12) must really be a counterexample region: sanity (a `sat` check)
    return goals


LEMMAS = {
    "C01/lemma.chain": {"props": ["C01", "C03", "C08"], "build": _lemma_chain,
                        "text": "the chain of neighbour constraints implies the statement's separation for every pair of a layer, "
                                "except non-neighbouring stubs with 2*nodeSpacing + width between < lineSpacing (known finding D12)"},
}
