"""Sidecar contracts for labella/node.py (C04, C06, C07)."""

TYPES = {
    "Node": {"$ghost_lastpos": True, "idealPos": "real", "currentPos": "real", "width": "real", "data": "ref:Item", "layerIndex": "int",
             "parent": "ref:Node", "child": "ref:Node", "overlap": "ref:Any", "overlapCount": "int",
             "x": "real?", "dx": "real?", "y": "real?", "dy": "real?", "w": "real", "h": "real", "targetPos": "real?"},
    "Any": {},
    # timeline.Item as far as the layout code reads it (Node.data of a timeline's nodes; other callers never read its fields)
    "Item": {"width": "real", "height": "real", "data": "ref:Any", "text": "ref:Any"},
}

_NODE_FIELDS = ["Node.idealPos", "Node.currentPos", "Node.width", "Node.data", "Node.layerIndex", "Node.parent", "Node.child",
                "Node.overlap", "Node.overlapCount", "Node.x", "Node.x$set", "Node.dx", "Node.dx$set", "Node.y", "Node.y$set",
                "Node.dy", "Node.dy$set", "Node.w", "Node.h"]

CONTRACTS = {
    "node.Node.isStub": {
        "props": ["C04", "C01", "C06"], "heap": True,
        "params": {"self": "ref:Node"}, "modifies": [], "returns": "bool",
        "ensures": [("is_stub_iff_has_child", "result == (self.child is not None)")],
    },
    "node.Node.removeStub": {
        "props": ["C04", "C06"], "heap": True,
        "params": {"self": "ref:Node"}, "modifies": ["Node.parent", "Node.child"], "returns": "self",
        "ensures": [
            ("detached", "self.parent is None"),
            ("old_stub_released", "implies(old(self.parent) is not None, old(self.parent).child is None)"),
            ("returns_self", "result is self"),
            ("frame_parent", "forall(lambda n: implies(n is not self, n.parent is old(n.parent)), 'ref:Node')"),
            ("frame_child", "forall(lambda n: implies(n is not old(self.parent), n.child is old(n.child)), 'ref:Node')"),
        ],
    },
    "node.Node.createStub": {
        "props": ["C04", "C06", "C07"], "heap": True,
        "params": {"self": "ref:Node", "width": "real"},
        "modifies": _NODE_FIELDS, "allocates": ["Node"], "returns": "ref:Node",
        "ensures": [
            ("fresh", "fresh(result) and isa(result, 'Node')"),
            ("carries_data_position", "result.idealPos == self.idealPos"),
            ("carries_payload", "result.data is self.data"),
            ("stub_width", "result.width == width"),
            ("starts_at_label_position", "result.currentPos == self.currentPos"),
            ("linked_child", "result.child is self"),
            ("linked_parent", "self.parent is result"),
            ("stub_is_root_so_far", "result.parent is None"),
            ("layer0", "result.layerIndex == 0"),
            # nothing else changes: every pre-existing node keeps all its fields, except self.parent
            ("frame", "forall(lambda n: implies(old(alloc(n)) and isa(n, 'Node'), n.idealPos == old(n.idealPos) and n.currentPos == old(n.currentPos) "
                      "and n.width == old(n.width) and n.data is old(n.data) and n.layerIndex == old(n.layerIndex) "
                      "and n.child is old(n.child) and (n is self or n.parent is old(n.parent))), 'ref:Node')"),
        ],
    },
    "node.Node.getLayerIndex": {
        "props": ["C07", "C08"], "heap": True, "inline": True,
        "params": {"self": "ref:Node"}, "modifies": [], "returns": "int",
        "ensures": [("value", "result == self.layerIndex")],
    },
}

SPECFUNS = {}
LEMMAS = {}
