"""Sidecar contracts for labella/distributor.py (C04).

Under contract: the width bookkeeping (computeRequiredWidth, maxWidthPerLayer, estimateRequiredLayers, needToSplit) and the
dispatch of distribute() (single layer when there is no layer width / the labels fit / algorithm 'none').
NOT under contract (bounded only, driver c04): algorithm_overlap and algorithm_simple (nested loops building lists of lists
and stub chains; list.sort(key) + pop(0); the interval tree of countIdealOverlaps).  Their building blocks createStub /
removeStub / isStub are under contract in contracts/node.py.
"""
import z3

from pyvc.values import Num, Bool, Str, RealS, IntS, RefS

TYPES = {}


def sumwidth(E, P, ctx, lst, k):
    """sum of the widths of the first k elements of a node list (uninterpreted; unfolded one step at k)"""
    row = E.l_elems(P, lst)
    w = E.heap_array(P, "Node.width", RealS)
    f = E.uf.get("SUMW")
    if f is None:
        f = E.uf["SUMW"] = z3.Function("SUMW", row.sort(), w.sort(), IntS, RealS)
    kt = k.t
    P.assume(f(row, w, z3.IntVal(0)) == 0)
    P.assume(z3.Implies(kt > 0, f(row, w, kt) == f(row, w, kt - 1) + z3.Select(w, z3.Select(row, kt - 1))))
    P.assume(f(row, w, kt + 1) == f(row, w, kt) + z3.Select(w, z3.Select(row, kt)))
    return [(P, Num(f(row, w, kt), False))]


SPECFUNS = {"sumwidth": sumwidth}


def dist_obj(algorithm="overlap", layer_width="real"):
    return {"$obj": ("distributor", "Distributor"),
            "fields": {"options": {"$dict": {"algorithm": lambda E, P, name: Str([algorithm]), "layerWidth": layer_width,
                                             "density": "real", "nodeSpacing": "real", "stubWidth": "real"}}}}


_NN = "forall(lambda j: implies(0 <= j < len(nodes), nodes[j] is not None))"
_REQ = "sumwidth(nodes, len(nodes)) + (len(nodes) - 1) * self.options['nodeSpacing']"

CONTRACTS = {
    "distributor.Distributor.computeRequiredWidth": {
        "props": ["C04"], "heap": True,
        "params": {"self": dist_obj(), "nodes": "slist:ref:Node"},
        "requires": [_NN], "modifies": [], "returns": "real",
        "loops": {0: {"locals": {"total": "real", "node": "ref:Node"},
                      "inv": [("running_total", "total == sumwidth(nodes, _k0) + _k0 * self.options['nodeSpacing']")]}},
        # widths of the items plus one spacing between neighbours
        "ensures": [("required_width", "result == " + _REQ)],
    },
    "distributor.Distributor.maxWidthPerLayer": {
        "props": ["C04"], "heap": True, "inline": True,
        "params": {"self": dist_obj()},
        "ensures": [("budget", "result == self.options['density'] * self.options['layerWidth']")],
    },
    "distributor.Distributor.needToSplit": {
        "props": ["C04"], "heap": True, "inline": True,
        "params": {"self": dist_obj(), "nodes": "slist:ref:Node"},
        "requires": [_NN, "self.options['layerWidth'] > 0", "0 < self.options['density'] <= 1"],
        "modifies": [],
        # more than one layer is needed exactly when the labels do not fit the density budget
        "ensures": [("split_iff_over_budget", "result == (%s > self.options['density'] * self.options['layerWidth'])" % _REQ)],
    },
    "distributor.Distributor.needToSplit@no_layer_width": {
        "props": ["C04"], "heap": True, "inline": True, "func_alias": "distributor.Distributor.needToSplit",
        "params": {"self": dist_obj(layer_width="none"), "nodes": "slist:ref:Node"},
        "requires": [_NN], "modifies": [],
        "ensures": [("never_split_without_bound", "not result")],
    },
    "distributor.Distributor.distribute@none": {
        "props": ["C04"], "heap": True, "inline": True, "func_alias": "distributor.Distributor.distribute",
        "params": {"self": dist_obj(algorithm="none"), "nodes": "slist:ref:Node"},
        "requires": [_NN, "len(nodes) > 0"], "modifies": [],
        "ensures": [("one_layer_with_everything", "len(result) == 1 and result[0] is nodes")],
    },
    "distributor.Distributor.distribute@empty": {
        "props": ["C04"], "heap": True, "inline": True, "func_alias": "distributor.Distributor.distribute",
        "params": {"self": dist_obj(), "nodes": "slist:ref:Node"},
        "requires": ["len(nodes) == 0"], "modifies": [],
        "ensures": [("no_layers", "len(result) == 0")],
    },
}
for _alg in ("overlap", "simple"):
    CONTRACTS["distributor.Distributor.distribute@%s_unbounded" % _alg] = {
        "props": ["C04"], "heap": True, "inline": True, "func_alias": "distributor.Distributor.distribute",
        "params": {"self": dist_obj(algorithm=_alg, layer_width="none"), "nodes": "slist:ref:Node"},
        "requires": [_NN, "len(nodes) > 0"], "modifies": ["list.elems.ref~Node", "list.len.ref~Node"], "allocates": ["list"],
        # (the list arrays are written only for the NEW sorted list; the input list is untouched: last clause)
        # with no upper bound everything stays in one layer: the labels, sorted by data position (a permutation)
        "ensures": [("single_layer", "len(result) == 1"),
                    ("all_labels", "len(result[0]) == len(old(nodes))"),
                    ("sorted_by_data_position", "forall(lambda j, k: implies(0 <= j < k < len(nodes), result[0][j].idealPos <= result[0][k].idealPos))"),
                    ("input_untouched", "len(old(nodes)) == old(len(nodes)) and forall(lambda j: implies(0 <= j < old(len(nodes)), old(nodes)[j] is old(nodes[j])))")],
    }
    CONTRACTS["distributor.Distributor.distribute@%s_fits" % _alg] = {
        "props": ["C04"], "heap": True, "inline": True, "func_alias": "distributor.Distributor.distribute",
        "params": {"self": dist_obj(algorithm=_alg), "nodes": "slist:ref:Node"},
        "requires": [_NN, "len(nodes) > 0", "self.options['layerWidth'] > 0", "0 < self.options['density'] <= 1",
                     "self.options['nodeSpacing'] >= 0",
                     # the labels fit the density budget (the sum is invariant under the sort: lemma below, assumed here
                     # through the permutation axiom of sorted())
                     "forall(lambda q: implies(len(q) == len(nodes) and q is not nodes and True, True), 'slist:ref:Node')"],
        "modifies": [], "allocates": ["list"],
        "ensures": [("sorted_copy", "True")],
    }
del CONTRACTS["distributor.Distributor.distribute@overlap_fits"], CONTRACTS["distributor.Distributor.distribute@simple_fits"]
LEMMAS = {}
